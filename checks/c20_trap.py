"""C20 - trapezoid gradient designers (trap_grad, min_trap_grad) and the spoke
gradients assembled from them (spokes_grad) meet area, amplitude and slew limits.

Oracle (nothing but the property text): the returned samples start and end at
zero, |g| <= gmax, |g[i+1]-g[i]|/dt <= dgdt, trap_grad sums to area/dt,
min_trap_grad has area/dt strictly between its two ramps and reports the ramp
length; an exception on a positive area inside the stated box is a violation.
spokes_grad: all three axes obey the limits, have one length, and the x/y
samples of spoke i (the i-th slice-select lobe) integrate to (k[i+1]-k[i])/4257.
"""
import copy
import math
import warnings

import numpy as np
from hypothesis import strategies as st

from vlib import arrays as A
from vlib.runner import Part, R

PROPERTY = "C20"
RULE = ("(area, gmax, dgdt, dt) drawn log-uniformly (Hypothesis float exponents, or the same rounded to 2 "
        "significant digits) inside area[1e-6,1] x gmax[0.1,10] x dgdt[1e2,1e5] x dt[1e-6,1e-4], the last drawn "
        "parameter being bounded so that no waveform exceeds 2e5 samples; plus constructed boundary classes "
        "(triangle/trapezoid switch ceil(gmax/dgdt/dt)*dt*gmax = area +- ulps, integer ramp counts, "
        "gmax/(dgdt*dt) < 1, plateau counts 0..6 of min_trap_grad, its sqrt(dgdt*area/2) = gmax switch). "
        "Oracle: end samples 0, max|g| <= gmax(1+1e-9), max|diff g|/dt <= dgdt(1+1e-9), trap_grad: fsum(g)*dt = "
        "area(1+-1e-9); min_trap_grad: samples strictly between the ramps sum to area/dt (1e-9), returned ramppts = "
        "number of steps from 0 to the first plateau-amplitude sample at both ends; any exception is a violation. "
        "spokes_grad: 1-6 locations on a grid whose increments are constructed to fit in the slice-select lobe; "
        "limits on x, y, z, equal lengths, per spoke sum(g_xy)*gts*4257 = k[i+1]-k[i] (k[n] = 0). "
        "non-trivial: trap_grad triangle with >= 2 ramp steps, trapezoid with a plateau, or a boundary class; "
        "min_trap_grad with a gmax-capped plateau, >= 2 ramp steps or a boundary class; spokes with >= 2 spokes and "
        "non-zero x and y increments. distinct = distinct parameter tuple.")
ASSUMPTIONS = [
    "waveform length is capped at 2e5 samples (spokes: 2e4 per lobe) by bounding the last drawn parameter: "
    "(4*gmax/dgdt + area/gmax)/dt + 16 <= cap; the corner of the box with long plateaus AND small dt is not visited. "
    "Each case draws its own target length from {200, 2e3, 2e4, 2e5} (spokes lobes {300, 3e3, 2e4}) so that most "
    "waveforms are short; where the box cannot meet the target the bound falls back to the box edge (<= 2e5 always)",
    "the waveform is the flattened first return value ((1,N) array); only positive areas are generated",
    "slew is measured between consecutive returned samples only; the implicit steps into/out of the waveform are "
    "covered by requiring the first and last sample to be 0 (|g0|,|gN| <= 1e-9*gmax)",
    "min_trap_grad: a ramp is the run of ramppts+1 samples from 0 up to and including the first sample at plateau "
    "amplitude (as the function builds it); 'under the flat top' = the samples strictly between the two ramps. "
    "(sigpy.mri.rf.ptx counts size-2*ramppts plateau points, i.e. includes both ramp end samples; with that reading "
    "the area would be area + 2*amp*dt for every input, so it is not the documented one.)",
    "exceptions are keyed by message: 'zero-size array' = empty plateau, 'same number of dimensions' = one-sample plateau",
    "spokes_grad units as documented: k cycles/cm [Nspokes,2], sl_thick mm, gmax g/cm, dgdtmax g/cm/s, gts s, "
    "gamma = 4257 Hz/g; slice-select area tbw/(sl_thick/10)/4257 is kept inside [1e-6,1] and >= 32*dgdt*gts^2 "
    "(>= 8 plateau samples) so that the two min_trap_grad exceptions reported by part min_trap are not re-reported",
    "spokes_grad precondition (undocumented, read from the code): every blip trap_grad(|dk|/4257) must not be longer "
    "than one slice-select lobe (it overwrites the tail of the zero-filled lobe segment); increments are built from "
    "a conservative length bound, a 'stretch' class scales them up and is skipped (label precondition-not-met) when "
    "sigpy's own trap_grad/min_trap_grad lengths say the blip does not fit",
    "spokes convention read from the code: k[0] is played first, the blip at the end of lobe i has area "
    "(k[i+1]-k[i])/4257 with k[Nspokes] = 0 (excitation k-space: the trajectory ends at the origin); lobe i occupies "
    "samples [i*L,(i+1)*L), L = min_trap_grad(...)[0].size as in ptx.stspa's caller code; samples after the last lobe "
    "(z refocusing) must not move kx, ky",
    "tolerance for the k-space increments: 1e-9*(|k[i]|+|k[i+1]|); locations are integer multiples (|m| <= 48) of one "
    "step so an increment is never much smaller than the locations it is formed from",
]

CAP = 200000
CAP_LOBE = 20000
GAM = 4257.0
A_LO, A_HI = 1e-6, 1.0
G_LO, G_HI = 0.1, 10.0
S_LO, S_HI = 1e2, 1e5
T_LO, T_HI = 1e-6, 1e-4
TOL = 1e-9


# ------------------------------------------------------------------ generators


def _lg(draw, lo, hi, rnd):
    """log-uniform float in [lo, hi]; rnd: rounded to 2 significant digits (then clamped)."""
    if lo >= hi:
        return float(hi)
    v = 10.0 ** draw(st.floats(math.log10(lo), math.log10(hi)))
    if rnd:
        v = float("%.1e" % v)
    return float(min(max(v, lo), hi))


_CAPS = (200, 2000, 2000, 20000, 20000, CAP)
_CAPS_LOBE = (300, 3000, 3000, CAP_LOBE)


def _area_hi(b, dt, gmax):
    return max(A_LO, min(A_HI, 0.5 * b * dt * gmax))


def _free(draw, cap, rnd):
    """The four parameters inside the box with the length bound met by the last drawn one.

    cap <= CAP is this case's own target length (most cases are short, a few reach 2e5); where the box does not
    allow the target the bound degrades to the nearest box edge, which still respects CAP."""
    b = cap - 16
    if draw(st.booleans()):  # dt first, area last
        dt = _lg(draw, T_LO, T_HI, rnd)
        gmax = _lg(draw, G_LO, G_HI, rnd)
        dgdt = _lg(draw, max(S_LO, 8 * gmax / (dt * b)), S_HI, rnd)
        area = _lg(draw, A_LO, _area_hi(b, dt, gmax), rnd)
    else:  # area first, dt last
        area = _lg(draw, A_LO, A_HI, rnd)
        gmax = _lg(draw, G_LO, G_HI, rnd)
        dgdt = _lg(draw, S_LO, S_HI, rnd)
        dt = _lg(draw, max(T_LO, (4 * gmax / dgdt + area / gmax) / b), T_HI, rnd)
    return area, gmax, dgdt, dt


_RELS = (0.0, 0.0, 1e-15, -1e-15, 1e-12, -1e-12, 1e-9, -1e-9, 1e-6, -1e-6, 1e-3, -1e-3)


def _jitter(draw, v):
    v = v * (1.0 + draw(st.sampled_from(_RELS)))
    k = draw(st.integers(-3, 3))
    for _ in range(abs(k)):
        v = math.nextafter(v, math.inf if k > 0 else -math.inf)
    return float(v)


def _inbox(area, gmax, dgdt, dt, cap=CAP):
    return (A_LO <= area <= A_HI and G_LO <= gmax <= G_HI and S_LO <= dgdt <= S_HI and T_LO <= dt <= T_HI
            and (4 * gmax / dgdt + area / gmax) / dt + 16 <= cap)


def _fallback(draw, cls, tup):
    """Boundary constructions can leave the box by a rounding; then fall back to a free draw."""
    if _inbox(*tup):
        return cls, tup
    return "free", _free(draw, draw(st.sampled_from(_CAPS)), False)


@st.composite
def st_trap(draw):
    cls = draw(st.sampled_from(("free", "free", "free", "round", "round", "switch", "switch", "ramp-int",
                                "sub-dt", "tri-int")))
    rnd = draw(st.booleans())
    cap = draw(st.sampled_from(_CAPS))
    b = cap - 16
    if cls in ("free", "round"):
        tup = _free(draw, cap, cls == "round")
    elif cls == "switch":
        # area = ceil(gmax/dgdt/dt)*dt*gmax (the triangle/trapezoid switch) +- a few ulps / small relative offsets
        gmax = _lg(draw, G_LO, G_HI, rnd)
        dgdt = _lg(draw, max(S_LO, gmax * gmax / 0.99), min(S_HI, gmax * gmax / 1.1e-6), rnd)
        dt = _lg(draw, max(T_LO, 16 * gmax / dgdt / cap), T_HI, rnd)
        a0 = int(np.ceil(gmax / dgdt / dt)) * dt * gmax
        area = min(max(_jitter(draw, a0), A_LO), A_HI)
        cls, tup = _fallback(draw, cls, (area, gmax, dgdt, dt))
    elif cls == "ramp-int":
        # gmax/(dgdt*dt) an integer in real arithmetic: ceil sits on its jump
        n = draw(st.integers(1, 400))
        dgdt = _lg(draw, S_LO, S_HI, rnd)
        dt = _lg(draw, T_LO, T_HI, rnd)
        gmax = n * dgdt * dt
        if not (G_LO <= gmax <= G_HI):
            gmax = min(max(gmax, G_LO), G_HI)
            dt = min(max(gmax / dgdt / n, T_LO), T_HI)
        area = _lg(draw, A_LO, _area_hi(b, dt, gmax), rnd)
        cls, tup = _fallback(draw, cls, (area, gmax, dgdt, dt))
    elif cls == "sub-dt":
        # full-scale ramp shorter than one sample: gmax/(dgdt*dt) < 1
        dgdt = _lg(draw, 2e3, S_HI, rnd)
        gmax = _lg(draw, G_LO, min(G_HI, 0.9e-4 * dgdt), rnd)
        dt = _lg(draw, min(T_HI, 1.01 * gmax / dgdt), T_HI, rnd)
        dt = max(dt, T_LO)
        area = _lg(draw, A_LO, _area_hi(b, dt, gmax), rnd)
        cls, tup = _fallback(draw, cls, (area, gmax, dgdt, dt))
    else:  # tri-int: sqrt(area/dgdt)/dt an integer in real arithmetic (triangle ramp count on its jump)
        dgdt = _lg(draw, S_LO, S_HI, rnd)
        dt = _lg(draw, T_LO, T_HI, rnd)
        n0 = int(math.ceil(math.sqrt(A_LO / dgdt) / dt))
        n = n0 + draw(st.integers(0, 40))
        area = _jitter(draw, dgdt * (n * dt) ** 2)
        gmax = _lg(draw, G_LO, G_HI, rnd)
        cls, tup = _fallback(draw, cls, (area, gmax, dgdt, dt))
    return {"f": "trap_grad", "cls": cls, "area": tup[0], "gmax": tup[1], "dgdt": tup[2], "dt": tup[3]}


@st.composite
def st_mintrap(draw):
    cls = draw(st.sampled_from(("free", "free", "free", "round", "round", "plateau-int", "plateau-int",
                                "amp-switch", "capped-int", "sub-dt")))
    rnd = draw(st.booleans())
    cap = draw(st.sampled_from(_CAPS))
    b = cap - 16
    if cls in ("free", "round"):
        tup = _free(draw, cap, cls == "round")
    elif cls == "plateau-int":
        # sqrt(2*area/dgdt)/dt = n: the floor() that sizes the plateau sits on its jump (n = 1 is the smallest
        # plateau the formula can produce; just below it the count is 0)
        n = draw(st.one_of(st.integers(1, 6), st.integers(1, 300)))
        dgdt = _lg(draw, max(S_LO, 250.0 / (n * n)), S_HI, rnd)
        dt = _lg(draw, max(T_LO, math.sqrt(2 * A_LO / dgdt) / n * 1.01), T_HI, rnd)
        area = _jitter(draw, dgdt * (n * dt) ** 2 / 2)
        gmax = _lg(draw, G_LO, G_HI, rnd)
        cls, tup = _fallback(draw, cls, (area, gmax, dgdt, dt))
    elif cls == "amp-switch":
        # sqrt(dgdt*area/2) = gmax: free plateau amplitude meets the cap
        gmax = _lg(draw, G_LO, G_HI, rnd)
        dgdt = _lg(draw, max(S_LO, 2.02 * gmax * gmax), min(S_HI, 1.9e6 * gmax * gmax), rnd)
        area = _jitter(draw, 2 * gmax * gmax / dgdt)
        dt = _lg(draw, max(T_LO, (4 * gmax / dgdt + area / gmax) / b), T_HI, rnd)
        cls, tup = _fallback(draw, cls, (area, gmax, dgdt, dt))
    elif cls == "capped-int":
        # capped plateau with area/(gmax*dt) = n: ceil() on its jump
        n = draw(st.one_of(st.integers(1, 6), st.integers(1, 2000)))
        gmax = _lg(draw, G_LO, G_HI, rnd)
        dt = _lg(draw, max(T_LO, A_LO / (n * gmax) * 1.01), min(T_HI, A_HI / (n * gmax)), rnd)
        area = _jitter(draw, n * gmax * dt)
        dgdt = _lg(draw, max(S_LO, 8 * gmax / (dt * b)), S_HI, rnd)
        cls, tup = _fallback(draw, cls, (area, gmax, dgdt, dt))
    else:  # sub-dt
        dgdt = _lg(draw, 2e3, S_HI, rnd)
        gmax = _lg(draw, G_LO, min(G_HI, 0.9e-4 * dgdt), rnd)
        dt = max(_lg(draw, min(T_HI, 1.01 * gmax / dgdt), T_HI, rnd), T_LO)
        area = _lg(draw, A_LO, _area_hi(b, dt, gmax), rnd)
        cls, tup = _fallback(draw, cls, (area, gmax, dgdt, dt))
    return {"f": "min_trap_grad", "cls": cls, "area": tup[0], "gmax": tup[1], "dgdt": tup[2], "dt": tup[3]}


def _blip_room(area_z, gmax, dgdt, dt):
    """Largest blip area whose trap_grad waveform provably fits into the slice-select lobe.

    lobe length L = 2(r+1)+pts >= max(area_z/(gmax dt), 2 sqrt(2 area_z/dgdt)/dt)       (amp <= gmax; AM-GM)
    blip length  <= 2 sqrt(A/dgdt)/dt + A/(gmax dt) + 8                                   (both regimes)
    """
    llow = max(area_z / (gmax * dt), 2 * math.sqrt(2 * area_z / dgdt) / dt)
    c = llow - 8.0
    if c <= 0:
        return 0.0
    a = 1.0 / (gmax * dt)
    b = 2.0 / (math.sqrt(dgdt) * dt)
    x = (-b + math.sqrt(b * b + 4 * a * c)) / (2 * a)
    return 0.98 * x * x


@st.composite
def st_spokes(draw):
    rnd = draw(st.booleans())
    b = draw(st.sampled_from(_CAPS_LOBE)) - 16
    dt = _lg(draw, T_LO, T_HI, rnd)
    gmax = _lg(draw, G_LO, G_HI, rnd)
    dgdt = _lg(draw, max(S_LO, 8 * gmax / (dt * b)), S_HI, rnd)
    az_lo = max(1.01 * A_LO, 33 * dgdt * dt * dt)  # <= 3.3e-2; keeps >= 8 plateau samples
    az = _lg(draw, az_lo, min(0.99 * A_HI, max(0.5 * b * dt * gmax, az_lo)), rnd)
    az = max(az, az_lo)
    tbw = draw(st.integers(1, 12))
    sl_thick = float("%.5e" % (tbw * 10.0 / (az * GAM)))
    az = tbw / (sl_thick / 10) / GAM
    room = _blip_room(az, gmax, dgdt, dt)
    stretch = draw(st.sampled_from((1.0, 1.0, 1.0, 1.0, 1.0, 1.0, 1.1, 1.25, 1.5)))
    J = 8
    q = GAM * room * stretch / J
    n = draw(st.integers(1, 6))
    jd = st.one_of(st.integers(-J, J), st.sampled_from((0, 0, J, -J)))
    mx = my = 0
    ms = []
    for _ in range(n):  # walk backwards from the origin (the implicit location after the last spoke)
        mx -= draw(jd)
        my -= draw(jd)
        ms.append([mx, my])
    ms.reverse()
    kdtype = "float64"
    if q >= 1 and draw(st.booleans()):
        # spoke locations on an integer cycles/cm grid, handed over as an integer array (smaller steps than the room allows)
        q = float(int(q)) if draw(st.booleans()) else 1.0
        kdtype = draw(st.sampled_from(["int64", "int32", "float64"]))
    k = [[float(a) * q, float(c) * q] for a, c in ms]
    return {"f": "spokes_grad", "k": k, "tbw": tbw, "sl_thick": sl_thick, "gmax": gmax, "dgdt": dgdt, "gts": dt,
            "stretch": stretch, "kdtype": kdtype}


# ------------------------------------------------------------------ oracle helpers


def _call(fn):
    with warnings.catch_warnings():
        warnings.simplefilter("ignore")
        with np.errstate(all="ignore"):
            return fn()


def _same(a, b):
    if isinstance(a, (tuple, list)) or isinstance(b, (tuple, list)):
        return (isinstance(a, (tuple, list)) and isinstance(b, (tuple, list)) and len(a) == len(b)
                and all(_same(x, y) for x, y in zip(a, b)))
    if isinstance(a, np.ndarray) or isinstance(b, np.ndarray):
        a, b = np.asarray(a), np.asarray(b)
        return a.shape == b.shape and a.dtype == b.dtype and np.array_equal(a, b, equal_nan=True)
    return a == b


def _call2(r, key, fn):
    """Call, keep a private copy of the result, overwrite the returned arrays in place (the caller owns them:
    g *= -1 makes a rewinder), call again with the same arguments: the second result must equal the first."""
    first = _call(fn)
    keep = copy.deepcopy(first)
    if A.scribble(first):
        again = _call(fn)
        if not _same(again, keep):
            r.fail(key + ":depends-on-history", "a second call with the same arguments, after the first result was "
                   "overwritten in place by its owner, returned a different waveform")
    return keep


def _raise_key(e):
    m = str(e)
    if "zero-size array" in m:
        return "raises:empty-plateau"
    if "same number of dimensions" in m or "zero-dimensional arrays cannot be concatenated" in m:
        return "raises:single-sample-plateau"
    return "raises:" + type(e).__name__


def _limits(r, key, g, gmax, dgdt, dt, what=""):
    """start/end at zero, amplitude, slew of one 1-D waveform. Returns False when the samples are unusable."""
    if g.ndim != 1 or g.size < 2:
        r.fail(key + ":ends", "waveform has %d samples (shape %s): cannot start and end at zero %s"
               % (g.size, g.shape, what))
        return False
    if not np.all(np.isfinite(g)):
        r.fail(key + ":nonfinite", "%d non-finite samples of %d %s" % (int(np.sum(~np.isfinite(g))), g.size, what))
        return False
    r.check(abs(g[0]) <= TOL * gmax and abs(g[-1]) <= TOL * gmax, key + ":ends",
            "first sample %r, last sample %r (must be 0) %s" % (float(g[0]), float(g[-1]), what))
    amax = float(np.max(np.abs(g)))
    r.check(amax <= gmax * (1 + TOL), key + ":amp", "max|g| = %r > gmax = %r (ratio %.12g) %s"
            % (amax, gmax, amax / gmax, what))
    d = np.abs(np.diff(g))
    i = int(np.argmax(d))
    s = float(d[i]) / dt
    r.check(s <= dgdt * (1 + TOL), key + ":slew", "|g[%d]-g[%d]|/dt = %r > dgdt = %r (ratio %.12g) %s"
            % (i + 1, i, s, dgdt, s / dgdt, what))
    return True


def _params(case):
    return float(case["area"]), float(case["gmax"]), float(case["dgdt"]), float(case["dt"])


# ------------------------------------------------------------------ trap_grad


def check_trap(case):
    from sigpy.mri import rf
    r = R()
    area, gmax, dgdt, dt = _params(case)
    what = "[area=%r gmax=%r dgdt=%r dt=%r]" % (area, gmax, dgdt, dt)
    # regime labels from the documented mechanism (labels only, never used by the oracle)
    rp = int(np.ceil(gmax / dgdt / dt))
    tri = rp * dt * gmax > area
    r.label("cls:" + case["cls"], "triangle" if tri else "trapezoid")
    if gmax / (dgdt * dt) < 1:
        r.label("gmax/(dgdt*dt)<1")
    r.sig = "trap|%r|%r|%r|%r" % (area, gmax, dgdt, dt)
    try:
        out = _call2(r, "trap_grad", lambda: rf.trap_grad(area, gmax, dgdt, dt))
        g = np.asarray(out[0], dtype=float).reshape(-1)
        ramppts = out[1]
    except Exception as e:  # every positive area in the box must be designed
        r.fail("trap_grad:" + _raise_key(e), "%s: %s %s" % (type(e).__name__, e, what))
        r.label("raises")
        return r
    if g.size > CAP:
        r.label("longer-than-cap")
    ok = _limits(r, "trap_grad", g, gmax, dgdt, dt, what)
    nplat = 0
    if ok:
        tot = math.fsum(g.tolist()) * dt
        r.check(abs(tot - area) <= TOL * area, "trap_grad:area", "sum(g)*dt = %r, requested %r (rel. error %.3g) %s"
                % (tot, area, (tot - area) / area, what))
        nplat = int(np.sum(g >= np.max(g) * (1 - 1e-12)))
    steps = int(ramppts) if isinstance(ramppts, (int, np.integer)) else 0
    if tri and steps >= 2:
        r.label("triangle:ramp>=2")
    if not tri and nplat > 2:
        r.label("trapezoid:plateau")
    r.label("len<=16" if g.size <= 16 else "len<=1000" if g.size <= 1000 else "len>1000")
    r.nontrivial = ok and ((tri and steps >= 2) or (not tri and nplat > 2)
                           or case["cls"] in ("switch", "ramp-int", "tri-int", "sub-dt"))
    return r


# ------------------------------------------------------------------ min_trap_grad


def check_mintrap(case):
    from sigpy.mri import rf
    r = R()
    area, gmax, dgdt, dt = _params(case)
    what = "[area=%r gmax=%r dgdt=%r dt=%r]" % (area, gmax, dgdt, dt)
    a = math.sqrt(dgdt * area / 2)
    p = int(math.floor(area / a / dt))  # labels only
    capped = a > gmax or (p > 0 and area / dt / p > gmax)
    r.label("cls:" + case["cls"], "capped-at-gmax" if capped else "free-amplitude",
            "formula-plateau=%s" % (p if p < 3 else "3+"))
    if a <= gmax and capped:
        r.label("capped-by-rounding")
    if gmax / (dgdt * dt) < 1:
        r.label("gmax/(dgdt*dt)<1")
    r.sig = "mintrap|%r|%r|%r|%r" % (area, gmax, dgdt, dt)
    try:
        out = _call2(r, "min_trap_grad", lambda: rf.min_trap_grad(area, gmax, dgdt, dt))
        g = np.asarray(out[0], dtype=float).reshape(-1)
        ramppts = out[1]
    except Exception as e:
        r.fail("min_trap_grad:" + _raise_key(e), "%s: %s %s" % (type(e).__name__, e, what))
        r.label("raises")
        return r
    if g.size > CAP:
        r.label("longer-than-cap")
    ok = _limits(r, "min_trap_grad", g, gmax, dgdt, dt, what)
    steps = 0
    if ok:
        n = g.size
        top = np.flatnonzero(g >= np.max(g) * (1 - 1e-12))
        i_up = int(top[0])
        i_dn = n - 1 - int(top[-1])
        steps = i_up
        is_int = isinstance(ramppts, (int, np.integer))
        r.check(is_int and int(ramppts) == i_up == i_dn, "min_trap_grad:ramppts",
                "returned ramppts = %r, but the waveform reaches its plateau amplitude after %d steps and leaves it "
                "%d steps before the end %s" % (ramppts, i_up, i_dn, what))
        flat = g[i_up + 1:n - 1 - i_dn]
        tot = math.fsum(flat.tolist())
        r.check(flat.size > 0 and abs(tot - area / dt) <= TOL * area / dt, "min_trap_grad:flat-area",
                "%d samples strictly between the ramps sum to %r, area/dt = %r (rel. error %.3g) %s"
                % (flat.size, tot, area / dt, (tot - area / dt) / (area / dt), what))
        if steps >= 2:
            r.label("ramp>=2")
        r.label("len<=16" if n <= 16 else "len<=1000" if n <= 1000 else "len>1000")
    r.nontrivial = ok and (capped or steps >= 2 or case["cls"] in ("plateau-int", "amp-switch", "capped-int",
                                                                 "sub-dt"))
    return r


# ------------------------------------------------------------------ spokes_grad


def check_spokes(case):
    from sigpy.mri import rf
    r = R()
    k = np.array(case["k"], dtype=float).reshape(-1, 2)
    tbw, sl, gmax, dgdt, gts = case["tbw"], float(case["sl_thick"]), float(case["gmax"]), float(case["dgdt"]), \
        float(case["gts"])
    n = k.shape[0]
    what = "[k=%s tbw=%r sl_thick=%r gmax=%r dgdt=%r gts=%r]" % (k.tolist(), tbw, sl, gmax, dgdt, gts)
    r.sig = "spokes|%s|%r|%r|%r|%r|%r" % (k.tolist(), tbw, sl, gmax, dgdt, gts)
    r.label("spokes=%d" % n, "stretch" if case.get("stretch", 1.0) > 1 else "fit-by-construction")
    area_z = tbw / (sl / 10) / GAM
    kk = np.vstack([k, np.zeros((1, 2))])
    dk = kk[1:] - kk[:-1]  # requested increments; the last one returns to the origin
    # precondition, decided with the designers themselves: every blip fits into one slice-select lobe
    try:
        L = int(np.asarray(_call(lambda: rf.min_trap_grad(area_z, gmax, dgdt, gts))[0]).size)
    except Exception as e:
        r.fail("min_trap_grad:" + _raise_key(e), "slice-select lobe: %s: %s [area=%r gmax=%r dgdt=%r dt=%r]"
               % (type(e).__name__, e, area_z, gmax, dgdt, gts))
        return r
    longest = 0
    for d in np.unique(np.abs(dk[dk != 0])):
        try:
            bl = int(np.asarray(_call(lambda: rf.trap_grad(float(d) / GAM, gmax, dgdt, gts))[0]).size)
        except Exception as e:
            r.fail("trap_grad:" + _raise_key(e), "blip: %s: %s [area=%r gmax=%r dgdt=%r dt=%r]"
                   % (type(e).__name__, e, float(d) / GAM, gmax, dgdt, gts))
            return r
        longest = max(longest, bl)
    if longest > L:
        r.label("precondition-not-met")
        return r
    if longest >= 0.8 * L:
        r.label("blip>=0.8*lobe")
    if np.any(dk == 0):
        r.label("zero-increment")
    try:
        kin = k.astype(case.get("kdtype", "float64"))
        if kin.dtype.kind != "f":
            r.label("k:integer-dtype")
        g = np.asarray(_call2(r, "spokes_grad", lambda: rf.spokes_grad(kin.copy(), tbw, sl, gmax, dgdt, gts)), dtype=float)
    except Exception as e:
        m = str(e)
        key = "length-mismatch" if ("must match exactly" in m or "inhomogeneous" in m) else _raise_key(e)
        r.fail("spokes_grad:" + key, "%s: %s %s" % (type(e).__name__, e, what))
        r.label("raises")
        return r
    if g.ndim != 2 or g.shape[0] != 3:
        r.fail("spokes_grad:length-mismatch", "returned shape %s, expected three waveforms of one length [3, Nt] %s"
               % (g.shape, what))
        return r
    nt = g.shape[1]
    ok = True
    for ax, nm in enumerate("xyz"):
        ok = _limits(r, "spokes_grad:" + nm, g[ax], gmax, dgdt, gts, what) and ok
    if nt < n * L:
        r.fail("spokes_grad:length", "Nt = %d < %d spokes x %d samples per slice-select lobe %s" % (nt, n, L, what))
        ok = False
    if ok:
        for ax, nm in enumerate("xy"):
            for i in range(n):
                mv = math.fsum(g[ax, i * L:(i + 1) * L].tolist()) * gts * GAM
                tol = TOL * (abs(kk[i, ax]) + abs(kk[i + 1, ax]))
                r.check(abs(mv - dk[i, ax]) <= tol, "spokes_grad:increment",
                        "k%s after spoke %d moves by %r, requested k[%d]-k[%d] = %r %s"
                        % (nm, i, mv, i + 1, i, float(dk[i, ax]), what))
            tail = math.fsum(g[ax, n * L:].tolist()) * gts * GAM
            r.check(abs(tail) <= TOL * float(np.max(np.abs(k[:, ax]))), "spokes_grad:tail-moves-k",
                    "k%s moves by %r after the last spoke %s" % (nm, tail, what))
    r.label("Nt<=1000" if nt <= 1000 else "Nt<=20000" if nt <= 20000 else "Nt>20000")
    r.nontrivial = ok and n >= 2 and bool(np.any(dk[:, 0] != 0)) and bool(np.any(dk[:, 1] != 0))
    return r


PARTS = [
    Part("trap_grad", check_trap, {"quick": 30000, "thorough": 400000}, strategy=st_trap),
    Part("min_trap", check_mintrap, {"quick": 30000, "thorough": 400000}, strategy=st_mintrap),
    Part("spokes", check_spokes, {"quick": 9000, "thorough": 120000}, strategy=st_spokes),
]
