"""C07 - interpolate / gridding implement the documented kernel sums.

Oracle: the docstring formula evaluated literally,

    y[j] = sum over ALL integers i (not wrapped) with |i_d - c_d| <= W_d/2 for every axis d
           of  prod_d K_d((i_d - c_d) / (W_d/2)) * x[i mod n]

with window membership decided in ``fractions.Fraction`` (coordinates m/16 and
widths k/4 are exact, so ceil/floor ties at the window edge are hit exactly),
K = the documented B-spline expressions (param 0, 1, 2) or
I0(beta*sqrt(1-t^2)) with ``scipy.special.i0``.  The weights of one case are
collected in a dense matrix M[point, grid cell] (coincident and wrapped
contributions ADD); interpolate must equal x @ M^T, gridding y @ M, and the
matrices obtained from basis vectors must satisfy mat(gridding) = mat(interpolate)^T.
"""
import itertools
import math
from fractions import Fraction

import numpy as np
from hypothesis import strategies as st

from vlib import arrays as A
from vlib.runner import Part, R, canon, sha

PROPERTY = "C07"
RULE = ("Hypothesis-generated (grid 1-3-D incl. length-1 axes, 0-2 batch dims, 1-2 point dims, kernel x param, "
        "scalar/per-axis width k/4 in [0.5, 6], coordinates). 3/4 of the cases use dyadic coordinates m/16 drawn per axis "
        "from fractional / integer / half-integer / exactly-on-the-window-edge / negative / far outside (|c| up to "
        "1000 n) classes plus duplicated rows (identical or shifted by multiples of n); 1/4 use arbitrary float64 "
        "coordinates and widths kept >= 1e-3 away from any window-edge tie. Oracle = docstring sum over all unwrapped "
        "integers in the closed window (membership decided exactly in Fraction), kernels from the documented formulas "
        "(scipy i0 for Kaiser-Bessel), accumulated into a dense weight matrix M; interpolate = x M^T, gridding = y M, "
        "mat(gridding) = mat(interpolate)^T from basis vectors, Linop wrappers agree with the functions and advertise "
        "batch+pts / batch+grid. Tolerance per element: tol * sum|w||x| with tol 1e-12 (spline, dyadic), 1e-9 (spline, "
        "float coords), 1e-6 (Kaiser-Bessel: polynomial I0), 2e-4 (complex64 data). non-trivial: an included index lies "
        "exactly on the window edge, or an included index is outside [0, n) (wrap), or two points coincide (identically "
        "or modulo n). distinct = distinct (kernel, shapes, width, param, coordinates, dtypes).")
ASSUMPTIONS = [
    "CPU numpy backend only (the CUDA kernels are not reachable on this image)",
    "spline param in {0, 1, 2} (the documented orders); kaiser_bessel beta in [0.5, 40] for double-precision data (half of the draws below 15), [0.5, 15] for complex64 data (I0(40)^3 overflows single precision)",
    "width in [0.5, 6] (k/4 for dyadic cases); |coordinate| <= ~1000 * axis length so that c +- W/2 is exact in the coordinate dtype",
    "float32 coordinates only with values m/16, widths k/4 and beta q/4 (exactly representable, because width/param are cast to coord.dtype)",
    "arbitrary-float64 class: coordinates are nudged so that c +- W/2 stays >= 1e-3 away from every integer (no tie decided by rounding); tolerance 1e-9 there because (1-|t|) is formed by cancellation",
    "Kaiser-Bessel compared at 1e-6 relative to sum|w||x| (the code uses the Abramowitz-Stegun polynomial for I0, measured |rel err| < 4e-8 per factor for beta <= 15)",
    "pts_shape has 1 or 2 dims (0-d outputs are excluded: Linop.__call__ treats NumPy scalars as scaling)",
    "data dtypes float64, complex128, and complex64 (the latter paired with float32 coordinates) to bound numba JIT cost per shard",
    "scipy.special.i0 and fractions.Fraction are trusted",
]

DEN = 16
COMBOS_DY = (("float64", "float64"), ("complex128", "float64"), ("complex64", "float32"), ("complex64", "float64"))
COMBOS_FL = (("float64", "float64"), ("complex128", "float64"), ("complex64", "float64"))
FLOAT_MARGIN = Fraction(1, 1000)


# ------------------------------------------------------------------ generator


def _width_value(k, as_int):
    v = k / 4.0
    if as_int and k % 4 == 0:
        return k // 4
    return v


def _tie_margin(c, w):
    """min distance of c +- w/2 to an integer (exact)."""
    cf, h = Fraction(c), Fraction(w) / 2
    out = None
    for e in (cf - h, cf + h):
        d = abs(e - round(e))
        out = d if out is None or d < out else out
    return out


def _nudge(c, w):
    for k in range(200):
        cand = c + k * 0.01373
        if _tie_margin(cand, w) >= FLOAT_MARGIN:
            return cand
    raise AssertionError("could not move %r away from ties for width %r" % (c, w))


@st.composite
def st_case(draw):
    mode = draw(st.sampled_from(["dyadic", "dyadic", "dyadic", "float"]))
    nd = draw(st.integers(1, 3))
    hi = {1: 9, 2: 6, 3: 4}[nd]
    grid = [draw(st.integers(1, hi)) for _ in range(nd)]
    if nd == 1 and draw(st.sampled_from([False] * 7 + [True])):
        grid = [draw(st.integers(40, 200))]              # a long grid axis
    batch = [draw(st.integers(1, 3)) for _ in range(draw(st.integers(0, 2)))]
    if draw(st.booleans()):
        pts = [draw(st.integers(1, 6))]
    else:
        pts = [draw(st.integers(1, 3)), draw(st.integers(1, 3))]
    npts = A.prod(pts)
    kernel = draw(st.sampled_from(["spline", "kaiser_bessel"]))
    dt, cdt = draw(st.sampled_from(COMBOS_DY if mode == "dyadic" else COMBOS_FL))

    # ---- width (scalar or one per axis)
    w_axis = draw(st.booleans())
    as_int = draw(st.booleans())

    def one_width():
        if mode == "float" and draw(st.booleans()):
            return draw(st.floats(0.5, 6.0, allow_nan=False, allow_infinity=False))
        return _width_value(draw(st.integers(2, 24)), as_int)

    width = [one_width() for _ in range(nd)] if w_axis else one_width()
    wl = width if w_axis else [width] * nd

    # ---- param (scalar or one per axis)
    p_axis = draw(st.booleans())

    def one_param():
        if kernel == "spline":
            o = draw(st.integers(0, 2))
            return float(o) if draw(st.integers(0, 3)) == 0 else o
        big = dt != "complex64"      # I0(40)^3 ~ 3e48 leaves the single-precision range: large beta only with double data
        if cdt == "float32" or draw(st.booleans()):
            q = draw(st.one_of(st.integers(2, 60), st.integers(61, 160))) if big else draw(st.integers(2, 60))
            return q // 4 if (q % 4 == 0 and as_int) else q / 4.0
        if big:
            return draw(st.one_of(st.floats(0.5, 15.0, allow_nan=False, allow_infinity=False),
                                  st.floats(15.0, 40.0, allow_nan=False, allow_infinity=False)))
        return draw(st.floats(0.5, 15.0, allow_nan=False, allow_infinity=False))

    param = [one_param() for _ in range(nd)] if p_axis else one_param()

    # ---- the library's DEFAULT kernel (linear spline, width 2) on integer coordinates with repeats: the
    # configuration a specialised scatter path would take
    if mode == "dyadic" and draw(st.sampled_from([False] * 9 + [True])):
        kernel, width, param, wl = "spline", 2, 1, [2] * nd
        w_axis = p_axis = False
        forced_int = True
    else:
        forced_int = False

    # ---- coordinates
    rows = []
    for j in range(npts):
        if j > 0 and draw(st.integers(0, 3)) == 0:
            src = rows[draw(st.integers(0, j - 1))]
            if draw(st.booleans()):
                rows.append(list(src))
            else:
                row = []
                for d in range(nd):
                    q = draw(st.integers(-2, 2))
                    if mode == "dyadic":
                        row.append(src[d] + DEN * grid[d] * q)
                    else:
                        row.append(_nudge(src[d] + grid[d] * q, wl[d]) if q else src[d])
                rows.append(row)
            continue
        row = []
        for d in range(nd):
            n = grid[d]
            if mode == "dyadic":
                kw = int(round(Fraction(wl[d]) * 4))      # W = kw/4, W/2 = 2*kw/16
                cls = "int" if forced_int else draw(st.sampled_from(["frac", "int", "half", "tie", "neg", "far"]))
                if cls == "frac":
                    m = draw(st.integers(-DEN * n, 2 * DEN * n))
                elif cls == "int":
                    m = DEN * draw(st.integers(-n, 2 * n))
                elif cls == "half":
                    m = DEN * draw(st.integers(-n, 2 * n)) + DEN // 2
                elif cls == "tie":
                    m = DEN * draw(st.integers(-n, 2 * n)) + draw(st.sampled_from([-1, 1])) * 2 * kw
                elif cls == "neg":
                    m = -draw(st.integers(1, 3 * DEN * n))
                else:
                    q = draw(st.integers(3, 1000)) * draw(st.sampled_from([-1, 1]))
                    m = DEN * n * q + draw(st.integers(0, DEN * n - 1))
                row.append(m)
            else:
                cls = draw(st.sampled_from(["in", "in", "around", "far"]))
                if cls == "in":
                    c = draw(st.floats(-0.5, n - 0.5, allow_nan=False))
                elif cls == "around":
                    c = draw(st.floats(-2.0 * n, 3.0 * n, allow_nan=False))
                else:
                    q = draw(st.integers(3, 10000)) * draw(st.sampled_from([-1, 1]))
                    c = n * q + draw(st.floats(0, n, allow_nan=False))
                row.append(_nudge(c, wl[d]))
        rows.append(row)
    coord = np.array(rows, dtype=object).reshape(pts + [nd]).tolist()
    return {
        "mode": mode, "kernel": kernel, "grid": grid, "batch": batch, "pts": pts,
        "width": width, "param": param, "as_tuple": draw(st.booleans()),
        "coord": coord, "cdtype": cdt,
        "x": draw(A.arrays(batch + grid, dt)),
        "y": draw(A.arrays(batch + pts, dt)),
        "layout": draw(st.sampled_from(A.LAYOUTS)), "clayout": draw(st.sampled_from(A.LAYOUTS)),
    }


# ------------------------------------------------------------------ oracle


def _spline(t, order):
    a = abs(t)
    if a > 1:
        return Fraction(0)
    if order == 0:
        return Fraction(1)
    if order == 1:
        return 1 - a
    if order == 2:
        if a > Fraction(1, 3):
            return Fraction(9, 8) * (1 - a) ** 2
        return Fraction(3, 4) * (1 - 3 * t * t)
    raise AssertionError("undocumented spline order %r" % (order,))


def _kb(t, beta):
    from scipy.special import i0
    if abs(t) > 1:
        return 0.0
    return float(i0(beta * math.sqrt(float(1 - t * t))))


def axis_terms(c, w, kernel, p):
    """[(i, weight, on_edge)] over all integers i with |i - c| <= w/2 (c, w exact Fractions)."""
    h = w / 2
    out = []
    for i in range(math.floor(c - h) - 1, math.ceil(c + h) + 2):
        dist = abs(i - c)
        if dist <= h:
            t = (i - c) / h
            wt = float(_spline(t, p)) if kernel == "spline" else _kb(t, p)
            out.append((i, wt, dist == h))
    return out


def weight_matrix(coords, grid, widths, params, kernel):
    """M[j, cell] = sum of separable weights of point j landing (after wrapping) on cell; plus structure facts."""
    nd = len(grid)
    N = A.prod(grid)
    M = np.zeros((len(coords), N))
    facts = {"tie": False, "tie_nonzero": False, "wrap": False, "multiwrap": False, "overlap": False,
             "empty": False}
    strides = [A.prod(grid[d + 1:]) for d in range(nd)]
    for j, row in enumerate(coords):
        per_axis = []
        for d in range(nd):
            terms = axis_terms(row[d], widths[d], kernel, params[d])
            n = grid[d]
            if not terms:
                facts["empty"] = True
            for i, wt, edge in terms:
                if edge:
                    facts["tie"] = True
                    if wt != 0:
                        facts["tie_nonzero"] = True
                if i < 0 or i >= n:
                    facts["wrap"] = True
                    if i // n not in (-1, 1):
                        facts["multiwrap"] = True
            if len(terms) > n:
                facts["overlap"] = True
            per_axis.append([((i % n) * strides[d], wt) for i, wt, _ in terms])
        for combo in itertools.product(*per_axis):
            cell = 0
            wt = 1.0
            for off, w1 in combo:
                cell += off
                wt *= w1
            M[j, cell] += wt
    return M, facts


# ------------------------------------------------------------------ check


def _call(r, key, fn):
    try:
        return True, r.twice(key, fn)
    except Exception as e:  # every generated input is inside the documented domain
        r.fail(key + ":raises", "%s: %s" % (type(e).__name__, str(e)[:300]))
        return False, None


def _close(r, key, got, want, scale, tol, extra=""):
    got = np.asarray(got)
    if got.shape != want.shape:
        r.fail(key + ":shape", "shape %s, expected %s %s" % (got.shape, want.shape, extra))
        return False
    err = np.abs(got - want)
    bad = ~(err <= tol * scale)           # also catches nan
    if bad.any():
        idx = tuple(np.argwhere(bad)[0].tolist())
        r.fail(key, "%d/%d elements differ, first at %s: got %s want %s (|diff| %.3g > %.3g) %s"
               % (int(bad.sum()), bad.size, list(idx), got[idx], want[idx], err[idx], tol * scale[idx], extra))
        return False
    return True


def _arg(v, as_tuple):
    if isinstance(v, list):
        return tuple(v) if as_tuple else list(v)
    return v


def check_case(case):
    import sigpy as sp
    r = R()
    kernel, grid, batch, pts = case["kernel"], case["grid"], case["batch"], case["pts"]
    nd, N, npts = len(grid), A.prod(grid), A.prod(pts)
    mode, cdt = case["mode"], case["cdtype"]
    # caller's arrays in the generated memory layout (same values)
    x = A.relayout(A.arr(case["x"]), case.get("layout", "c"))
    y = A.relayout(A.arr(case["y"]), case.get("layout", "c"))
    if case.get("layout", "c") != "c" or case.get("clayout", "c") != "c":
        r.label("layout:data=%s,coord=%s" % (case.get("layout", "c"), case.get("clayout", "c")))
    dt = x.dtype
    wl = case["width"] if isinstance(case["width"], list) else [case["width"]] * nd
    pl = case["param"] if isinstance(case["param"], list) else [case["param"]] * nd

    raw = np.array(case["coord"], dtype=object).reshape(npts, nd)
    if mode == "dyadic":
        cf = [[Fraction(int(m), DEN) for m in row] for row in raw]
        coord = (np.array(raw.tolist(), dtype=np.float64) / DEN).astype(cdt)
    else:
        cf = [[Fraction(float(c)) for c in row] for row in raw]
        coord = np.array(raw.tolist(), dtype=np.float64).astype(cdt)
    # the floats handed to sigpy are exactly the rationals used by the oracle
    assert all(Fraction(float(coord[j, d])) == cf[j][d] for j in range(npts) for d in range(nd)), "coord not exact"
    assert all(float(np.dtype(cdt).type(v)) == float(v) for v in wl + pl), "width/param not exact in coord dtype"
    coord = A.relayout(coord.reshape(pts + [nd]), case.get("clayout", "c"))
    wf = [Fraction(w) for w in wl]
    if mode == "float":
        assert all(_tie_margin(cf[j][d], wf[d]) >= FLOAT_MARGIN for j in range(npts) for d in range(nd)), "near tie"
    pk = [int(p) for p in pl] if kernel == "spline" else [float(p) for p in pl]

    M, facts = weight_matrix(cf, grid, wf, pk, kernel)

    single = dt == np.complex64
    if kernel == "kaiser_bessel":
        tol = 1e-6
    else:
        tol = 1e-12 if mode == "dyadic" else 1e-9
    tol_t = 1e-12 if mode == "dyadic" else 1e-9      # transpose identity: same code path on both sides
    if single:
        tol = max(tol, 2e-4)
        tol_t = 2e-4
    W, P = _arg(case["width"], case["as_tuple"]), _arg(case["param"], case["as_tuple"])
    kw = dict(kernel=kernel, width=W, param=P)
    extra = "[%s nd=%d width=%s param=%s]" % (kernel, nd, case["width"], case["param"])

    # ---- interpolate against the definition
    xe = x.reshape(-1, N).astype(np.complex128 if dt.kind == "c" else np.float64)
    want_i = (xe @ M.T).reshape(batch + pts)
    sc_i = (np.abs(xe) @ M.T).reshape(batch + pts)
    if (npts + N) % 3 == 0:
        ok_i, got_i = _call(r, "interpolate", lambda: sp.interpolate(x, coord, kernel, W, P))     # (input, coord, kernel, width, param)
    else:
        ok_i, got_i = _call(r, "interpolate", lambda: sp.interpolate(x, coord, **kw))
    if ok_i:
        _close(r, "interpolate:values:" + kernel, got_i, want_i, sc_i, tol, extra)

    # ---- gridding against the definition (same weights, accumulated)
    ye = y.reshape(-1, npts).astype(np.complex128 if dt.kind == "c" else np.float64)
    want_g = (ye @ M).reshape(batch + grid)
    sc_g = (np.abs(ye) @ M).reshape(batch + grid)
    shp = tuple(batch + grid) if case["as_tuple"] else list(batch + grid)
    if (npts + N) % 3 == 0:
        ok_g, got_g = _call(r, "gridding", lambda: sp.gridding(y, coord, shp, kernel, W, P))      # (input, coord, shape, kernel, width, param)
    else:
        ok_g, got_g = _call(r, "gridding", lambda: sp.gridding(y, coord, shp, **kw))
    if ok_g:
        _close(r, "gridding:values:" + kernel, got_g, want_g, sc_g, tol, extra)

    # ---- dense matrices from basis vectors: mat(gridding) == mat(interpolate)^T == M^T
    eg = np.eye(N, dtype=dt).reshape([N] + grid)
    ep = np.eye(npts, dtype=dt).reshape([npts] + pts)
    ok_a, Mi = _call(r, "interpolate", lambda: sp.interpolate(eg, coord, **kw))
    ok_b, Mg = _call(r, "gridding", lambda: sp.gridding(ep, coord, [npts] + grid, **kw))
    if ok_a and ok_b and np.shape(Mi) == tuple([N] + pts) and np.shape(Mg) == tuple([npts] + grid):
        Mi = np.asarray(Mi).reshape(N, npts)
        Mg = np.asarray(Mg).reshape(npts, N)
        _close(r, "transpose:" + kernel, Mg, Mi.T, M, tol_t, "mat(gridding) vs mat(interpolate)^T " + extra)
        _close(r, "interpolate:matrix:" + kernel, Mi.T, M, M, tol, extra)
        _close(r, "gridding:matrix:" + kernel, Mg, M, M, tol, extra)
    elif ok_a and ok_b:
        r.fail("basis:shape", "interpolate(eye) %s, gridding(eye) %s" % (np.shape(Mi), np.shape(Mg)))

    # ---- Linop wrappers
    ok, op = _call(r, "Interpolate.ctor", lambda: sp.linop.Interpolate(batch + grid, coord, **kw))
    if ok:
        r.check(list(op.oshape) == batch + pts and list(op.ishape) == batch + grid, "Interpolate:advertised-shape",
                "oshape %s ishape %s, expected %s %s" % (op.oshape, op.ishape, batch + pts, batch + grid))
        ok, got = _call(r, "Interpolate.apply", lambda: op(x))
        if ok and ok_i:
            r.check(np.shape(got) == np.shape(got_i) and np.array_equal(got, got_i), "Interpolate.apply:differs",
                    "Interpolate(x) != interpolate(x) " + extra)
        ok, oph = _call(r, "Interpolate.H", lambda: op.H)
        if ok:
            r.check(list(oph.ishape) == batch + pts and list(oph.oshape) == batch + grid,
                    "Interpolate.H:advertised-shape", "%s %s" % (oph.oshape, oph.ishape))
            ok, got = _call(r, "Interpolate.H.apply", lambda: oph(y))
            if ok and ok_g:
                r.check(np.shape(got) == np.shape(got_g) and np.array_equal(got, got_g), "Interpolate.H.apply:differs",
                        "Interpolate.H(y) != gridding(y) " + extra)
    ok, op = _call(r, "Gridding.ctor", lambda: sp.linop.Gridding(batch + grid, coord, **kw))
    if ok:
        r.check(list(op.ishape) == batch + pts and list(op.oshape) == batch + grid, "Gridding:advertised-shape",
                "oshape %s ishape %s, expected %s %s" % (op.oshape, op.ishape, batch + grid, batch + pts))
        ok, got = _call(r, "Gridding.apply", lambda: op(y))
        if ok and ok_g:
            r.check(np.shape(got) == np.shape(got_g) and np.array_equal(got, got_g), "Gridding.apply:differs",
                    "Gridding(y) != gridding(y) " + extra)
        ok, oph = _call(r, "Gridding.H", lambda: op.H)
        if ok:
            r.check(list(oph.oshape) == batch + pts and list(oph.ishape) == batch + grid,
                    "Gridding.H:advertised-shape", "%s %s" % (oph.oshape, oph.ishape))
            ok, got = _call(r, "Gridding.H.apply", lambda: oph(x))
            if ok and ok_i:
                r.check(np.shape(got) == np.shape(got_i) and np.array_equal(got, got_i), "Gridding.H.apply:differs",
                        "Gridding.H(x) != interpolate(x) " + extra)

    # ---- classes
    dup = dupmod = False
    for a in range(npts):
        for b in range(a + 1, npts):
            if cf[a] == cf[b]:
                dup = True
            elif all((p - q) % n == 0 for p, q, n in zip(cf[a], cf[b], grid)):
                dupmod = True
    r.label(kernel, "mode-" + mode, "D%d" % nd, "batch%d" % len(batch), "pts%dd" % len(pts), "data-" + str(dt),
            "coord-" + cdt)
    if kernel == "spline":
        for p in sorted(set(pk)):
            r.label("spline-order%d" % p)
    for nm, c in (("edge-tie", facts["tie"]), ("edge-tie-nonzero-kernel", facts["tie_nonzero"]),
                  ("wrap", facts["wrap"]), ("multi-wrap", facts["multiwrap"]),
                  ("window>axis", facts["overlap"]), ("empty-window", facts["empty"]),
                  ("dup-identical", dup), ("dup-mod-n", dupmod), ("len1-axis", 1 in grid),
                  ("per-axis-width", isinstance(case["width"], list) and len(set(wl)) > 1),
                  ("per-axis-param", isinstance(case["param"], list) and len(set(pl)) > 1),
                  ("fractional-width", any(w.denominator != 1 for w in wf)),
                  ("complex-data", dt.kind == "c")):
        if c:
            r.label(nm)
    r.nontrivial = facts["tie"] or facts["wrap"] or dup or dupmod
    r.sig = sha(canon({k: case[k] for k in ("mode", "kernel", "grid", "batch", "pts", "width", "param", "coord",
                                            "cdtype")}) + str(dt), 16)
    return r


PARTS = [Part("kernel_sums", check_case, {"quick": 3000, "thorough": 200000}, strategy=st_case)]
