"""C11 - every proximal operator returns the exact minimiser, in the input's shape.

Cases are Prox *programs* (JSON trees)

  P ::= L1Reg(lam) | L2Reg(lam, z?, proxh=P?) | L1Proj(eps) | L2Proj(eps, y0?, axes?)
      | LInfProj(eps, bias?) | PsdProj | BoxConstraint(l, u) | NoOp
      | Conj(P) | Stack([P..]) | UnitaryTransform(P, U)

with U a unitary sigpy Linop (FFT, Circshift, Flip, Transpose, unitary MatMul) given as a
spec.  Every leaf carries the *class* of input it is to receive (zeros, interior, exactly on
the threshold / ball boundary, outside, ties, repeated-eigenvalue matrices ...); the actual
input y of the whole program is obtained by pulling the leaf inputs back through the
combinators (Conj scales by alpha, Stack concatenates, UnitaryTransform applies U^H, L2Reg
inverts its affine pre-map), so the interesting classes reach the leaves of nested programs.

Oracles
  * independent reference prox per node (closed forms, sort-based l1-ball projection with a
    certificate, eigh for PSD, Moreau identity with the *reference* inner prox for Conj, block-wise
    for Stack, U^H ref(U y)); the minimiser is unique, so ||P(alpha,y) - ref|| <= tol (1+||y||);
  * independent of the reference: output shape == y.shape; feasibility; objective at P(alpha,y)
    <= objective at 32 feasible competitors + slack (g and g* are evaluated from their
    definitions); for indicator g: P(y) = y for feasible y, idempotence, variational inequality;
  * real input must not produce a complex output (DESIGN 2.2: dynamic-ufunc call history);
  * the input and the parameter arrays are not modified.
A failing program is localised to its deepest failing sub-program (children are re-run on the
inputs the reference semantics hands them); finding keys name that node class and the sub-claim.
"""
import json

import numpy as np
from hypothesis import strategies as st

from vlib import arrays as A
from vlib.runner import HarnessError, Part, R

PROPERTY = "C11"
RULE = ("Hypothesis-generated Prox programs (all 8 leaf classes with scalar/array bias and bounds, L2Proj axes, "
        "combinators Conj/Stack/UnitaryTransform/L2Reg(proxh) to depth 3, <= 36 elements, shapes 1-3 dims, "
        "float64/float32/complex128/complex64, alpha = k/8 in (0,8]); each leaf is fed a labelled input class "
        "(zeros, interior, exactly on threshold/boundary, outside, ties, sparse, PSD: aI+c vv^H, repeated blocks, "
        "rotated repeated spectrum, PSD, NSD, indefinite) pulled back through the combinators. Oracle: independent "
        "reference prox (uniqueness of the minimiser) to 1e-9(1+||y||) (2e-4 single); shape; feasibility; objective "
        "<= 32 feasible competitors; P(y)=y when feasible, idempotence, variational inequality for indicators; real "
        "input -> real output; no mutation. Parts 'thresh' (soft/hard threshold called directly with float / numpy "
        "scalar / array lamda) and 'relations' (Conj(Conj(P)) = P, Conj(L1Reg) = LInfProj, L2Reg(proxh=L1Reg) = elastic "
        "net closed form). non-trivial: some constraint/threshold is active (P(y) != y) or a leaf input is in a "
        "boundary/threshold/tie/repeated-eigenvalue class; distinct = program skeleton + parameters + input classes "
        "+ dtype + alpha.")
ASSUMPTIONS = [
    "CPU numpy backend; alpha is a Python float or numpy float64 scalar (array step sizes, which Stack also accepts, are outside the property's 'all alpha > 0')",
    "parameters: lamda, epsilon > 0 floats (the class docstrings say float); bias/z/y0 scalar or full-shape array of the input's field (real with real input: L2Reg and linf_proj add them in place); lower <= upper",
    "BoxConstraint only with real inputs (l <= x <= u is not defined for complex x), hence no FFT above a BoxConstraint",
    "PsdProj: square 2-D shapes; the feasible set is the Hermitian PSD cone, so for a non-Hermitian input (generated as classes nonherm-*) the unique nearest point is the PSD part of its Hermitian part, which is what the pinned psd_proj computes (eigh of (X + X^H)/2)",
    "L2Proj(axes=...) is read as: every slice along `axes` of (x - y) lies in the l2 ball (what l2_proj computes with keepdims norms); the indicator sets are taken closed (<=) although the docstrings print '<'",
    "U in UnitaryTransform comes from linops whose unitarity is the subject of C01/C05/C09 (FFT, Circshift, Flip, Transpose, MatMul with a unitary matrix); they are trusted here and mirrored by numpy code in the reference",
    "hard_thresh at an exact tie |x_i| = lamda_i may return 0 or x_i (the docstring gives no convention)",
    "output dtype is only required not to turn complex for real input; float32 -> float64 promotion is accepted",
    "g-values are not available for Conj(L2Reg(proxh=...)); there only the reference comparison and shape checks apply",
]

RDT = ("float64", "float64", "float32")
CDT = ("complex128", "complex128", "complex64")
LEAVES = ("L1Reg", "L2Reg", "L1Proj", "L2Proj", "LInfProj", "PsdProj", "BoxConstraint", "NoOp")
SOFT_BASED = ("L1Reg", "L1Proj", "LInfProj")
BOUNDARY_CLS = {"threshold", "boundary", "boundary-exact", "ties", "bounds", "rank1", "blockdiag", "rotrepeat",
                "scaledI", "fixed"}


def _tol(dt):
    return A.tol_for(dt)


def _nrm(x):
    return float(np.sqrt(np.sum(np.abs(np.asarray(x)) ** 2)))


def _rdot(a, b):
    return float(np.sum(np.real(np.conj(a) * b)))


def _cx(v):
    """JSON scalar -> python number: float or {"re","im"}."""
    if isinstance(v, dict):
        return complex(v["re"], v["im"])
    return float(v)


# =============================================================== generators


def _dy(draw, lo=1, hi=32, den=8):
    return draw(st.integers(lo, hi)) / den


def _scalar(draw, field, lim=16):
    re = draw(st.integers(-lim, lim)) / 8
    if field == "complex":
        return {"re": re, "im": draw(st.integers(-lim, lim)) / 8}
    return re


def _param(draw, shape, dt, field, none_ok=True):
    """None | scalar | full-shape array spec."""
    k = draw(st.integers(0, 2 if none_ok else 1))
    if none_ok and k == 2:
        return None
    if k == 0:
        return {"s": _scalar(draw, field)}
    return {"a": draw(A.arrays(shape, dt))}


def _factor_shapes(m):
    out = [[m]]
    for a in range(1, m + 1):
        if m % a == 0:
            out.append([a, m // a])
            b = m // a
            for c in range(2, b):
                if b % c == 0 and a * b <= 36:
                    out.append([a, c, b // c])
    return out


def _inp(draw, t, shape, ddt):
    """Input-class spec for a leaf (materialised by leaf_input)."""
    cls = {
        "L1Reg": ["raw", "raw", "zeros", "interior", "threshold", "threshold", "outside", "ties"],
        "L2Reg": ["raw", "raw", "zeros", "fixed"],
        "L1Proj": ["raw", "zeros", "interior", "interior", "boundary", "boundary-exact", "outside", "outside",
                   "ties", "sparse"],
        "L2Proj": ["raw", "zeros", "interior", "interior", "boundary", "boundary-exact", "outside", "mixed"],
        "LInfProj": ["raw", "zeros", "interior", "threshold", "threshold", "outside", "ties"],
        "PsdProj": ["rank1", "rank1", "blockdiag", "blockdiag", "rotrepeat", "rotrepeat", "psd", "nsd", "indef", "indef", "zeros",
                    "scaledI", "nonherm-psdpart", "nonherm-psdpart", "nonherm-indef", "nonherm-raw"],
        "BoxConstraint": ["raw", "raw", "interior", "bounds", "outside"],
        "NoOp": ["raw", "zeros"],
    }[t]
    return {"cls": draw(st.sampled_from(cls)), "base": draw(A.arrays(shape, ddt)), "aux": draw(st.integers(0, 255))}


def _leaf(draw, t, shape, dt, field):
    ddt = "complex128" if field == "complex" else "float64"
    n = {"t": t, "shape": list(shape)}
    nd = len(shape)
    if t == "L1Reg":
        n["lam"] = _dy(draw)
    elif t == "L2Reg":
        n["lam"] = _dy(draw)
        n["z"] = _param(draw, shape, dt, field)
        n["proxh"] = None
    elif t == "L1Proj":
        n["eps"] = _dy(draw)
    elif t == "L2Proj":
        n["eps"] = _dy(draw)
        n["y0"] = _param(draw, shape, dt, field)
        n["axes"] = draw(A.axes_subset(nd, allow_none=False)) if draw(st.integers(0, 2)) == 0 else None
    elif t == "LInfProj":
        n["eps"] = _dy(draw)
        n["bias"] = _param(draw, shape, dt, field)
    elif t == "BoxConstraint":
        if draw(st.booleans()):
            lo = draw(st.integers(-16, 16))
            n["l"] = {"s": lo / 8}
            n["u"] = {"s": (lo + draw(st.integers(0, 24))) / 8}
        else:
            n["l"] = {"a": draw(A.arrays(shape, dt))}
            n["u"] = {"w": draw(A.arrays(shape, dt))}   # upper = lower + |w|
        n["as_list"] = draw(st.booleans())
    n["y"] = _inp(draw, t, shape, ddt)
    return n


def _unitary(draw, ishape, field):
    nd = len(ishape)
    kinds = ["Circshift", "Flip", "Transpose"]
    if field == "complex":
        kinds += ["FFT", "FFT"]
    if nd >= 2:
        kinds.append("MatMul")
    k = draw(st.sampled_from(kinds))
    u = {"u": k}
    oshape = list(ishape)
    if k == "FFT":
        u["axes"] = draw(A.axes_subset(nd))
        u["center"] = draw(st.booleans())
    elif k == "Circshift":
        u["axes"] = draw(A.axes_subset(nd))
        m = nd if u["axes"] is None else len(u["axes"])
        u["shift"] = [draw(st.integers(-6, 6)) for _ in range(m)]
    elif k == "Flip":
        u["axes"] = draw(A.axes_subset(nd))
    elif k == "Transpose":
        if draw(st.integers(0, 3)) == 0:
            u["axes"] = None
            perm = list(range(nd))[::-1]
        else:
            perm = draw(st.permutations(list(range(nd))))
            u["axes"] = [p - nd if draw(st.booleans()) else p for p in perm]
        oshape = [ishape[p] for p in perm]
    else:
        u["kind"] = draw(st.sampled_from(["qr", "householder"]))
        u["seed"] = draw(st.integers(0, 10 ** 6))
        u["adjoint"] = draw(st.booleans())
    return u, oshape


def _node(draw, shape, dt, field, depth, top_stack=False):
    nd = len(shape)
    if depth > 0 and (top_stack or draw(st.integers(0, 4)) > 0):
        comb = ["Conj", "Conj", "Unitary", "Unitary", "L2RegH"]
        if nd == 1:
            comb += ["Stack", "Stack"]
        c = "Stack" if top_stack else draw(st.sampled_from(comb))
        if c == "Conj":
            return {"t": "Conj", "shape": list(shape), "p": _node(draw, shape, dt, field, depth - 1)}
        if c == "Unitary":
            u, osh = _unitary(draw, shape, field)
            return {"t": "Unitary", "shape": list(shape), "U": u, "p": _node(draw, osh, dt, field, depth - 1)}
        if c == "L2RegH":
            return {"t": "L2Reg", "shape": list(shape), "lam": _dy(draw), "z": _param(draw, shape, dt, field),
                    "proxh": _node(draw, shape, dt, field, depth - 1)}
        N = shape[0]
        k = draw(st.integers(1, min(3, N)))
        cuts = sorted(draw(st.lists(st.integers(1, N - 1), min_size=k - 1, max_size=k - 1, unique=True))) if k > 1 else []
        sizes = [b - a for a, b in zip([0] + cuts, cuts + [N])]
        ps = []
        for m in sizes:
            opts = _factor_shapes(m)
            r = int(round(m ** 0.5))
            if r * r == m and draw(st.booleans()):
                sub = [r, r]
            else:
                sub = draw(st.sampled_from(opts))
            ps.append(_node(draw, sub, dt, field, depth - 1))
        return {"t": "Stack", "shape": list(shape), "ps": ps}
    cand = ["L1Reg", "L2Reg", "L1Proj", "L2Proj", "LInfProj", "NoOp"]
    if field == "real":
        cand += ["BoxConstraint", "BoxConstraint"]
    if nd == 2 and shape[0] == shape[1]:
        cand += ["PsdProj"] * 4
    w = draw(st.sampled_from(cand + ["L1Proj", "L2Proj", "LInfProj", "L1Reg"]))
    return _leaf(draw, w, shape, dt, field)


@st.composite
def st_prog(draw, max_depth=3):
    field = draw(st.sampled_from(["real", "complex"]))
    dt = draw(st.sampled_from(RDT if field == "real" else CDT))
    depth = draw(st.sampled_from([0, 0, 0, 1, 1, 2, 3][:4 + max_depth]))
    mode = draw(st.integers(0, 6))
    top_stack = False
    if mode in (0, 6):
        n = draw(st.integers(1, 5))
        shape = [n, n]
    elif mode == 1:
        shape = [draw(st.integers(1, 18))]
        if draw(st.sampled_from([False] * 9 + [True])):
            shape = [draw(st.integers(100, 700))]       # a long vector (sort-based / cumulative code paths)
        top_stack = depth > 0 and draw(st.booleans())
    else:
        shape = draw(A.shapes(1, 3, 1, 5, 30))
    prog = _node(draw, shape, dt, field, depth, top_stack)
    return {"dtype": dt, "alpha": draw(st.integers(1, 64)) / 8, "alpha_np": draw(st.booleans()),
            "prog": prog, "cseed": draw(st.integers(0, 2 ** 31 - 1)), "layout": draw(st.sampled_from(A.LAYOUTS))}


# =============================================================== compile (materialise parameters)


def _pval(p, shape, dt):
    """Parameter spec -> (value handed to sigpy, float64/complex128 ndarray broadcastable to shape)."""
    if p is None:
        return None, None
    if "s" in p:
        v = _cx(p["s"])
        return v, np.asarray(v)
    a = A.arr(p["a"])
    return a, a.astype(np.complex128 if a.dtype.kind == "c" else np.float64)


def _umat(u, n, field):
    rng = np.random.default_rng(u["seed"])
    if u["kind"] == "householder":
        v = rng.integers(-2, 3, size=n).astype(np.float64)
        if field == "complex":
            v = v + 1j * rng.integers(-2, 3, size=n)
        if not np.any(v):
            v[0] = 1
        return np.eye(n) - 2 * np.outer(v, np.conj(v)) / np.real(np.vdot(v, v))
    g = rng.standard_normal((n, n))
    if field == "complex":
        g = g + 1j * rng.standard_normal((n, n))
    return np.linalg.qr(g)[0]


def compile_node(n, dt, field):
    """Attach materialised parameters; returns a new tree of dicts ('cn')."""
    c = dict(n)
    t = n["t"]
    sh = n["shape"]
    if t == "Conj":
        c["p"] = compile_node(n["p"], dt, field)
    elif t == "Stack":
        c["ps"] = [compile_node(p, dt, field) for p in n["ps"]]
    elif t == "Unitary":
        c["p"] = compile_node(n["p"], dt, field)
        if n["U"]["u"] == "MatMul":
            c["Q"] = _umat(n["U"], sh[-2], field)
    elif t == "L2Reg":
        c["z_sp"], c["Z"] = _pval(n["z"], sh, dt)
        if n.get("proxh") is not None:
            c["proxh"] = compile_node(n["proxh"], dt, field)
    elif t == "L2Proj":
        c["y0_sp"], c["Y0"] = _pval(n["y0"], sh, dt)
    elif t == "LInfProj":
        c["b_sp"], c["B"] = _pval(n["bias"], sh, dt)
    elif t == "BoxConstraint":
        if "s" in n["l"]:
            c["l_sp"], c["u_sp"] = float(n["l"]["s"]), float(n["u"]["s"])
            c["L"], c["Uu"] = np.asarray(c["l_sp"]), np.asarray(c["u_sp"])
        else:
            lo = A.arr(n["l"]["a"])
            up = (lo + np.abs(A.arr(n["u"]["w"]))).astype(lo.dtype)
            c["L"], c["Uu"] = lo.astype(np.float64), up.astype(np.float64)
            c["l_sp"], c["u_sp"] = (lo.tolist(), up.tolist()) if n.get("as_list") else (lo, up)
    return c


def build_linop(u, ishape, Q=None):
    import sigpy as sp
    k = u["u"]
    if k == "FFT":
        return sp.linop.FFT(list(ishape), axes=u["axes"], center=u["center"])
    if k == "Circshift":
        return sp.linop.Circshift(list(ishape), u["shift"], axes=u["axes"])
    if k == "Flip":
        return sp.linop.Flip(list(ishape), axes=u["axes"])
    if k == "Transpose":
        return sp.linop.Transpose(list(ishape), axes=u["axes"])
    return sp.linop.MatMul(list(ishape), Q, adjoint=u["adjoint"])


def build(cn):
    """cn -> sigpy Prox (stored at cn['P'])."""
    import sigpy as sp
    t = cn["t"]
    sh = list(cn["shape"])
    px = sp.prox
    if t == "Conj":
        P = px.Conj(build(cn["p"]))
    elif t == "Stack":
        P = px.Stack([build(p) for p in cn["ps"]])
    elif t == "Unitary":
        P = px.UnitaryTransform(build(cn["p"]), build_linop(cn["U"], sh, cn.get("Q")))
    elif t == "L1Reg":
        P = px.L1Reg(sh, cn["lam"])
    elif t == "L2Reg":
        kw = {}
        if cn["z_sp"] is not None:
            kw["y"] = cn["z_sp"]
        if cn.get("proxh") is not None:
            kw["proxh"] = build(cn["proxh"])
        P = px.L2Reg(sh, cn["lam"], **kw)
    elif t == "L1Proj":
        P = px.L1Proj(sh, cn["eps"])
    elif t == "L2Proj":
        kw = {}
        if cn["y0_sp"] is not None:
            kw["y"] = cn["y0_sp"]
        if cn["axes"] is not None:
            kw["axes"] = cn["axes"]
        P = px.L2Proj(sh, cn["eps"], **kw)
    elif t == "LInfProj":
        P = px.LInfProj(sh, cn["eps"]) if cn["b_sp"] is None else px.LInfProj(sh, cn["eps"], bias=cn["b_sp"])
    elif t == "PsdProj":
        P = px.PsdProj(sh)
    elif t == "BoxConstraint":
        P = px.BoxConstraint(sh, cn["l_sp"], cn["u_sp"])
    elif t == "NoOp":
        P = px.NoOp(sh)
    else:
        raise HarnessError("unknown node %r" % t)
    orig = P._prox

    def recording_prox(alpha, input, _orig=orig, _cn=cn):
        # observation only: remember what this node was actually called with (for localisation)
        _cn["seen"] = (alpha, np.array(input, copy=True))
        return _orig(alpha, input)

    P._prox = recording_prox
    cn["P"] = P
    return P


# =============================================================== reference semantics


def u_apply(cn, x, adj=False):
    """numpy mirror of the unitary linop of a Unitary node (adj: U^H, acting on U's output space)."""
    u = cn["U"]
    k = u["u"]
    nd = x.ndim
    if k == "FFT":
        ax = tuple(range(nd)) if u["axes"] is None else tuple(a % nd for a in u["axes"])
        f = np.fft.ifftn if adj else np.fft.fftn
        if u["center"]:
            return np.fft.fftshift(f(np.fft.ifftshift(x, axes=ax), axes=ax, norm="ortho"), axes=ax)
        return f(x, axes=ax, norm="ortho")
    if k == "Circshift":
        ax = list(range(nd)) if u["axes"] is None else [a % nd for a in u["axes"]]
        out = x
        for a, s in zip(ax, u["shift"]):
            out = np.roll(out, -s if adj else s, axis=a)
        return out
    if k == "Flip":
        ax = tuple(range(nd)) if u["axes"] is None else tuple(a % nd for a in u["axes"])
        return np.flip(x, axis=ax)
    if k == "Transpose":
        perm = list(range(nd))[::-1] if u["axes"] is None else [a % nd for a in u["axes"]]
        return np.transpose(x, np.argsort(perm) if adj else perm)
    Q = cn["Q"]
    M = np.conj(Q).T if u["adjoint"] else Q
    if adj:
        M = np.conj(M).T
    return np.matmul(M, x)


def _soft(y, t):
    mag = np.abs(y)
    safe = np.where(mag > 0, mag, 1.0)
    return y * np.where(mag > t, 1.0 - t / safe, 0.0)


def _l1_ball(y, eps):
    a = np.abs(y).ravel()
    if a.sum() <= eps:
        return y.copy()
    u = np.sort(a)[::-1]
    css = np.cumsum(u)
    k = np.arange(1, a.size + 1)
    rho = np.nonzero(u * k > css - eps)[0][-1]
    theta = (css[rho] - eps) / (rho + 1)
    if theta < -1e-12 * (eps + a.sum()):
        raise HarnessError("reference l1-ball projection: negative threshold")
    theta = max(theta, 0.0)
    x = _soft(y, theta)
    if abs(np.abs(x).sum() - eps) > 1e-10 * (eps + a.sum()):
        raise HarnessError("reference l1-ball projection failed its certificate")
    return x


def _slice_norms(v, axes):
    ax = tuple(range(v.ndim)) if axes is None else tuple(sorted(a % v.ndim for a in axes))
    return np.sqrt(np.sum(np.abs(v) ** 2, axis=ax, keepdims=True))


def _herm(x):
    return (x + np.conj(x).T) / 2


def _psd(y):
    w, V = np.linalg.eigh(_herm(y))
    return (V * np.maximum(w, 0)) @ np.conj(V).T


def _split(x, shapes):
    out = []
    o = 0
    for s in shapes:
        m = A.prod(s)
        out.append(x[o:o + m].reshape(s))
        o += m
    return out


def ref(cn, a, y):
    t = cn["t"]
    if t == "Conj":
        return y - a * ref(cn["p"], 1.0 / a, y / a)
    if t == "Stack":
        parts = _split(y, [p["shape"] for p in cn["ps"]])
        return np.concatenate([ref(p, a, v).ravel() for p, v in zip(cn["ps"], parts)])
    if t == "Unitary":
        return u_apply(cn, ref(cn["p"], a, u_apply(cn, y)), adj=True)
    if t == "L1Reg":
        return _soft(y, a * cn["lam"])
    if t == "L2Reg":
        la = cn["lam"] * a
        v = (y + (la * cn["Z"] if cn["Z"] is not None else 0)) / (1 + la)
        if cn.get("proxh") is not None:
            return ref(cn["proxh"], a / (1 + la), v)
        return v
    if t == "L1Proj":
        return _l1_ball(y, cn["eps"])
    if t == "L2Proj":
        y0 = 0 if cn["Y0"] is None else cn["Y0"]
        v = y - y0
        nr = _slice_norms(v, cn["axes"])
        sc = np.where(nr > cn["eps"], cn["eps"] / np.where(nr > 0, nr, 1.0), 1.0)
        return y0 + v * sc
    if t == "LInfProj":
        b = 0 if cn["B"] is None else cn["B"]
        v = y - b
        mag = np.abs(v)
        return b + v * np.where(mag > cn["eps"], cn["eps"] / np.where(mag > 0, mag, 1.0), 1.0)
    if t == "PsdProj":
        return _psd(y)
    if t == "BoxConstraint":
        return np.minimum(np.maximum(y, cn["L"]), cn["Uu"])
    if t == "NoOp":
        return y.copy()
    raise HarnessError("ref: unknown node %r" % t)


def geval(cn, x, conj=False):
    """(finite part of g, infeasibility >= 0) of g (or g* when conj) at x; None if not available."""
    t = cn["t"]
    if t == "Conj":
        return geval(cn["p"], x, not conj)
    if t == "Stack":
        fin, inf = 0.0, 0.0
        for p, v in zip(cn["ps"], _split(x, [p["shape"] for p in cn["ps"]])):
            r = geval(p, v, conj)
            if r is None:
                return None
            fin += r[0]
            inf = max(inf, r[1])
        return fin, inf
    if t == "Unitary":
        return geval(cn["p"], u_apply(cn, x), conj)
    ab = np.abs(x)
    if not conj:
        if t == "L1Reg":
            return cn["lam"] * float(ab.sum()), 0.0
        if t == "L2Reg":
            z = 0 if cn["Z"] is None else cn["Z"]
            f = cn["lam"] / 2 * _nrm(x - z) ** 2
            if cn.get("proxh") is not None:
                r = geval(cn["proxh"], x)
                if r is None:
                    return None
                return f + r[0], r[1]
            return f, 0.0
        if t == "L1Proj":
            return 0.0, max(0.0, float(ab.sum()) - cn["eps"])
        if t == "L2Proj":
            y0 = 0 if cn["Y0"] is None else cn["Y0"]
            return 0.0, max(0.0, float(_slice_norms(x - y0, cn["axes"]).max()) - cn["eps"])
        if t == "LInfProj":
            b = 0 if cn["B"] is None else cn["B"]
            return 0.0, max(0.0, float(np.abs(x - b).max()) - cn["eps"])
        if t == "PsdProj":
            return 0.0, _nrm(x - np.conj(x).T) / 2 + max(0.0, -float(np.linalg.eigvalsh(_herm(x)).min()))
        if t == "BoxConstraint":
            xr = np.real(x)
            return 0.0, max(0.0, float((cn["L"] - xr).max()), float((xr - cn["Uu"]).max())) + _nrm(np.imag(x))
        if t == "NoOp":
            return 0.0, 0.0
    else:
        if t == "L1Reg":
            return 0.0, max(0.0, float(ab.max()) - cn["lam"])
        if t == "L2Reg":
            if cn.get("proxh") is not None:
                return None
            z = 0 if cn["Z"] is None else cn["Z"] * np.ones(x.shape)
            return _nrm(x) ** 2 / (2 * cn["lam"]) + (_rdot(z, x) if cn["Z"] is not None else 0.0), 0.0
        if t == "L1Proj":
            return cn["eps"] * float(ab.max()), 0.0
        if t == "L2Proj":
            f = cn["eps"] * float(_slice_norms(x, cn["axes"]).sum())
            if cn["Y0"] is not None:
                f += _rdot(cn["Y0"] * np.ones(x.shape), x)
            return f, 0.0
        if t == "LInfProj":
            f = cn["eps"] * float(ab.sum())
            if cn["B"] is not None:
                f += _rdot(cn["B"] * np.ones(x.shape), x)
            return f, 0.0
        if t == "PsdProj":
            return 0.0, max(0.0, float(np.linalg.eigvalsh(_herm(x)).max()))
        if t == "BoxConstraint":
            xr = np.real(x)
            return float(np.maximum(cn["L"] * xr, cn["Uu"] * xr).sum()), _nrm(np.imag(x))
        if t == "NoOp":
            return 0.0, _nrm(x)
    raise HarnessError("geval: unknown node %r" % t)


def is_indicator(cn, conj=False):
    t = cn["t"]
    if t == "Conj":
        return is_indicator(cn["p"], not conj)
    if t == "Stack":
        return all(is_indicator(p, conj) for p in cn["ps"])
    if t == "Unitary":
        return is_indicator(cn["p"], conj)
    if conj:
        return t in ("L1Reg", "NoOp", "PsdProj")
    return t in ("L1Proj", "L2Proj", "LInfProj", "PsdProj", "BoxConstraint", "NoOp")


def pscale(cn):
    """Size of the parameters (enters slacks)."""
    s = 0.0
    for k in ("lam", "eps"):
        if k in cn:
            s += abs(cn[k]) + 1.0 / abs(cn[k])
    for k in ("Z", "Y0", "B", "L", "Uu"):
        if cn.get(k) is not None:
            s += _nrm(cn[k] * np.ones(cn["shape"]))
    for ch in _kids(cn):
        s += pscale(ch)
    return s


def _kids(cn):
    t = cn["t"]
    if t in ("Conj", "Unitary"):
        return [cn["p"]]
    if t == "Stack":
        return cn["ps"]
    if t == "L2Reg" and cn.get("proxh") is not None:
        return [cn["proxh"]]
    return []


def types_in(cn, acc=None):
    acc = [] if acc is None else acc
    acc.append(cn["t"])
    for ch in _kids(cn):
        types_in(ch, acc)
    return acc


def skeleton(n):
    """Signature: structure + parameters + input classes, no array payload."""
    t = n["t"]
    out = [t, n["shape"]]
    for k in ("lam", "eps", "axes"):
        if k in n:
            out.append(n[k])
    for k in ("z", "y0", "bias", "l", "u"):
        if k in n:
            p = n[k]
            out.append(None if p is None else ("s", p["s"]) if "s" in p else "arr")
    if "U" in n:
        out.append({k: v for k, v in n["U"].items()})
    if "y" in n:
        out.append(n["y"]["cls"])
    for ch in ([n["p"]] if t in ("Conj", "Unitary") else n["ps"] if t == "Stack"
               else [n["proxh"]] if t == "L2Reg" and n.get("proxh") is not None else []):
        out.append(skeleton(ch))
    return out


# =============================================================== leaf inputs and pull-back


def _phase(b):
    mag = np.abs(b)
    return np.where(mag > 0, b / np.where(mag > 0, mag, 1.0), 1.0)


def _mask(aux, n, shape):
    bits = np.array([(aux >> (i % 8)) & 1 for i in range(n)], dtype=bool)
    if not bits.any():
        bits[aux % n] = True
    return bits.reshape(shape)


def _psd_input(cls, b, aux, cplx):
    n = b.shape[0]
    eye = np.eye(n)
    if cls == "zeros":
        return np.zeros_like(b)
    if cls == "scaledI":
        return ((aux % 9) - 4) / 2.0 * eye + 0 * b
    if cls == "psd":
        return b @ np.conj(b).T
    if cls == "nsd":
        return -(b @ np.conj(b).T)
    if cls == "indef":
        return _herm(b)
    if cls.startswith("nonherm"):
        # non-Hermitian input: the nearest Hermitian PSD matrix is the PSD part of the Hermitian part
        K = (b - np.conj(b).T) / 2
        if not np.any(K):
            if n >= 2:
                K = K.copy()
                K[0, 1], K[1, 0] = 1.0, -1.0
            elif cplx:
                K = K + 1j * (1 + aux % 3)
        if cls == "nonherm-psdpart":
            return b @ np.conj(b).T + K          # Hermitian part already feasible, only the skew part must go
        if cls == "nonherm-indef":
            return _herm(b) + K
        return b + K
    if cls == "rank1":
        v = np.round(8 * b[0])
        if n >= 2 and np.count_nonzero(v) < 2:
            v = v.copy()
            v[0] = 1
            v[1] = 1j if cplx and aux & 1 else 1
        a = (1 + (aux >> 2) % 4) / 2.0
        sa, sc = [(1, -1), (-1, 1), (1, 1), (-1, -1)][aux % 4]
        return sa * a * eye + sc * np.outer(v, np.conj(v)) / (4.0 if aux & 16 else 1.0)
    if cls == "blockdiag":
        if n == 1:
            return np.real(b) + 0 * b
        blk = _herm(b[:2, :2])
        if blk[0, 1] == 0:
            blk = blk + np.array([[0, 1], [1, 0]])
        out = np.zeros_like(b)
        for i in range(n // 2):
            out[2 * i:2 * i + 2, 2 * i:2 * i + 2] = blk
        if n % 2:
            out[-1, -1] = np.real(b[-1, -1])
        return out
    if cls == "rotrepeat":
        rng = np.random.default_rng(aux)
        g = rng.standard_normal((n, n))
        if cplx:
            g = g + 1j * rng.standard_normal((n, n))
        Q = np.linalg.qr(g)[0]
        d = np.array([2.0 if (aux >> i) & 1 else -1.0 for i in range(n)])
        return _herm((Q * d) @ np.conj(Q).T) + 0 * b
    raise HarnessError("psd class %r" % cls)


def leaf_input(cn, a):
    """Materialise the labelled input class of a leaf for effective step a (float64/complex128)."""
    sp = cn["y"]
    cls, aux = sp["cls"], sp["aux"]
    b = A.arr(sp["base"])
    t = cn["t"]
    n = b.size
    sh = b.shape
    if t == "PsdProj":
        return _psd_input(cls, b, aux, b.dtype.kind == "c")
    if cls == "zeros":
        v = np.zeros_like(b)
        if t == "L2Proj" and cn["Y0"] is not None:
            return v + cn["Y0"]
        if t == "LInfProj" and cn["B"] is not None:
            return v + cn["B"]
        return v
    if cls == "raw" or t == "NoOp":
        return b
    mx = float(np.abs(b).max())
    ph = _phase(b)
    if t in ("L1Reg", "LInfProj"):
        rho = cn["lam"] * a if t == "L1Reg" else cn["eps"]
        off = cn["B"] if (t == "LInfProj" and cn["B"] is not None) else 0
        if cls == "interior":
            v = b * (rho / 2 / mx) if mx > 0 else b
        elif cls == "threshold":
            v = np.where(_mask(aux, n, sh), rho * ph, b)
        elif cls == "outside":
            v = b + rho * ph
        elif cls == "ties":
            v = rho * [0.5, 1.0, 2.0][aux % 3] * ph
        else:
            raise HarnessError("class %s for %s" % (cls, t))
        return v + off
    if t == "L2Reg":
        if cls == "fixed":   # y = z: the prox of lam/2||x-z||^2 leaves it where it is
            return np.zeros_like(b) + (cn["Z"] if cn["Z"] is not None else 0)
        return b
    if t == "L1Proj":
        eps = cn["eps"]
        s1 = float(np.abs(b).sum())
        if cls == "interior":
            return b * (eps / 2 / s1) if s1 > 0 else b
        if cls == "boundary":
            return b * (eps / s1) if s1 > 0 else b
        if cls == "boundary-exact":   # k = 1, 2 or 4 entries of modulus eps/k, the rest zero: ||y||_1 = eps exactly
            k = 2 ** ((aux >> 3) % 3)
            while k > n:
                k //= 2
            idx = [(aux + i) % n for i in range(k)]
            v = np.zeros(n, dtype=b.dtype)
            v[idx] = (eps / k) * ph.ravel()[idx]
            return v.reshape(sh)
        if cls == "outside":
            return b * (eps * [1.5, 4.0, 50.0][aux % 3] / s1) if s1 > 0 else b + eps * 2
        if cls == "ties":
            return (eps / n) * [0.5, 1.0, 2.0, 8.0][aux % 4] * ph
        if cls == "sparse":
            v = (b * (eps / 8 / mx) if mx > 0 else b).ravel().copy()
            v[aux % n] = 3 * eps * ph.ravel()[aux % n]
            return v.reshape(sh)
    if t == "L2Proj":
        eps = cn["eps"]
        off = cn["Y0"] if cn["Y0"] is not None else 0
        nr = _slice_norms(b, cn["axes"])
        safe = np.where(nr > 0, nr, 1.0)
        if cls == "interior":
            v = b * (eps / 2 / float(nr.max())) if nr.max() > 0 else b
        elif cls == "boundary":
            v = b * (eps / safe)
        elif cls == "boundary-exact":   # one entry of modulus eps per slice
            ax = tuple(range(b.ndim)) if cn["axes"] is None else tuple(sorted(x % b.ndim for x in cn["axes"]))
            first = np.ones(sh, bool)
            for d in ax:
                ix = [slice(None)] * b.ndim
                ix[d] = slice(1, None)
                first[tuple(ix)] = False
            v = np.where(first, eps * (np.round(ph) if b.dtype.kind != "c" else ph), 0)
        elif cls == "outside":
            v = b * (eps * [1.5, 4.0, 50.0][aux % 3] / safe) + np.where(nr > 0, 0, 2 * eps)
        elif cls == "mixed":
            med = float(np.median(nr))
            v = b * (eps / med) if med > 0 else b
        else:
            raise HarnessError("class %s for %s" % (cls, t))
        return v + off
    if t == "BoxConstraint":
        lo, up = cn["L"] * np.ones(sh), cn["Uu"] * np.ones(sh)
        m = _mask(aux, n, sh)
        if cls == "interior":
            return (lo + up) / 2
        if cls == "bounds":
            return np.where(m, lo, up)
        if cls == "outside":
            return np.where(m, up + np.abs(b) + 0.125, lo - np.abs(b) - 0.125)
    raise HarnessError("class %s for %s" % (cls, t))


def pull(cn, a):
    """Input of the program such that every leaf receives its labelled class (up to rounding)."""
    t = cn["t"]
    if t == "Conj":
        return a * pull(cn["p"], 1.0 / a)
    if t == "Stack":
        return np.concatenate([np.asarray(pull(p, a)).ravel() for p in cn["ps"]])
    if t == "Unitary":
        return u_apply(cn, pull(cn["p"], a), adj=True)
    if t == "L2Reg" and cn.get("proxh") is not None:
        la = cn["lam"] * a
        return (1 + la) * pull(cn["proxh"], a / (1 + la)) - (la * cn["Z"] if cn["Z"] is not None else 0)
    return leaf_input(cn, a)


# =============================================================== evaluation of the implementation


def _repeated(y):
    w = np.linalg.eigvalsh(_herm(np.asarray(y, dtype=np.complex128)))
    if w.size < 2:
        return False
    return bool(np.min(np.diff(w)) <= 1e-6 * (1.0 + float(np.abs(w).max())))


def _key(cn, kind, a, y, name=None):
    """Root-cause key of failure `kind` at node cn with node input y (name: thresh function when called directly)."""
    t = cn["t"]
    if t == "L1Proj" and kind in ("raises", "shape") and y.ndim >= 2 and np.linalg.norm(y.ravel(), 1) < cn["eps"]:
        return "l1_proj:shape-feasible"
    if t == "PsdProj":
        if kind == "dtype-complex":
            return "psd_proj:dtype-complex"
        if kind in ("values", "raises") and _repeated(y):
            return "psd_proj:repeated-eigenvalue"
    if kind == "dtype-complex" and t in SOFT_BASED:
        return "soft_thresh:dtype-history"
    return "%s:%s" % (name or t, kind)


def _status(cn, a, y, tol):
    """Run the sub-program cn on (a, y); return (out or None, set of failure kinds, message)."""
    kinds = {}
    try:
        out = cn["P"](a, y)
    except Exception as e:
        c = e
        while c.__cause__ is not None:
            c = c.__cause__
        return None, {"raises": "%s: %s" % (type(c).__name__, str(c)[:200])}
    o = np.asarray(out)
    if o.shape != y.shape:
        kinds["shape"] = "output shape %s for input shape %s" % (o.shape, y.shape)
        return out, kinds
    if y.dtype.kind != "c" and o.dtype.kind == "c":
        kinds["dtype-complex"] = "real input (%s) gave %s output" % (y.dtype, o.dtype)
    want = ref(cn, a, y.astype(np.complex128 if y.dtype.kind == "c" else np.float64))
    err = _nrm(o - want)
    bound = tol * (1.0 + _nrm(y) + pscale_arrays(cn))
    if not err <= bound:
        kinds["values"] = "||P(alpha,y) - ref|| = %.3e > %.3e (alpha=%r)" % (err, bound, a)
    return out, kinds


def pscale_arrays(cn):
    s = 0.0
    for k in ("Z", "Y0", "B"):
        if cn.get(k) is not None:
            s += _nrm(cn[k] * np.ones(cn["shape"]))
    for k in ("L", "Uu"):
        if cn.get(k) is not None:
            s += _nrm(cn[k] * np.ones(cn["shape"]))
    if "eps" in cn:
        s += cn["eps"] * A.prod(cn["shape"]) ** 0.5
    for ch in _kids(cn):
        s += pscale_arrays(ch)
    return s


def _postorder(cn, acc):
    for ch in _kids(cn):
        _postorder(ch, acc)
    acc.append(cn)
    return acc


HARD = ("raises", "shape", "values")


def _localise(cn, a, y, group, kinds, tol, seen):
    """Deepest sub-program that fails (with a kind in `group`) on the (alpha, input) it actually received
    during the failing call of cn (recorded by the wrappers installed in build); the root itself otherwise.
    Returns (node, alpha, input, kind, message)."""
    for node, call in seen:
        if node is cn or call is None:
            continue
        _, k2 = _status(node, call[0], call[1], tol)
        for kind in group:
            if kind in k2:
                return node, call[0], call[1], kind, k2[kind]
    for kind in group:
        if kind in kinds:
            return cn, a, y, kind, kinds[kind]


def evaluate(r, cn, a, y, tol, dt, tag=""):
    """Run the program, record keyed findings; returns (output or None, primary key or None)."""
    nodes = _postorder(cn, [])
    for nd_ in nodes:
        nd_.pop("seen", None)
    out, kinds = _status(cn, a, y, tol)
    seen = [(nd_, nd_.get("seen")) for nd_ in nodes]
    primary = None
    for group in (HARD, ("dtype-complex",)):
        if any(k in kinds for k in group):
            node, an, yn, kind, msg = _localise(cn, a, y, group, kinds, tol, seen)
            key = _key(node, kind, an, yn)
            where = ""
            if node is not cn:
                first = [kinds[k] for k in group if k in kinds][0]
                where = " [localised to %s%s inside %s, which shows: %s]" % (node["t"], node["shape"], cn["t"], first)
            inp = ""
            if yn.size <= 16:
                inp = " node input=%s" % np.array2string(yn, precision=6).replace("\n", "")
            r.fail(key, "%s%s%s;%s node alpha=%r" % (tag, msg, where, inp, an))
            if primary is None:
                primary = key
    if out is None or "shape" in kinds:
        return None, primary
    return np.asarray(out), primary


# =============================================================== the program check


def _labels(r, n, depth=0):
    t = n["t"]
    if "y" in n:
        r.label("leaf:" + t, "cls:%s/%s" % (t, n["y"]["cls"]), "leaf-ndim%d" % len(n["shape"]))
        if t == "L2Proj" and n.get("axes") is not None:
            r.label("L2Proj:axes")
        for k in ("z", "y0", "bias"):
            if k in n and n[k] is not None:
                r.label("param:" + ("scalar" if "s" in n[k] else "array"))
        if t == "BoxConstraint":
            r.label("box:" + ("scalar" if "s" in n["l"] else "array"))
    else:
        r.label("comb:" + ("L2Reg+proxh" if t == "L2Reg" else t))
        if t == "Unitary":
            r.label("U:" + n["U"]["u"])
    d = depth
    for ch in ([n["p"]] if t in ("Conj", "Unitary") else n["ps"] if t == "Stack"
               else [n["proxh"]] if t == "L2Reg" and n.get("proxh") is not None else []):
        d = max(d, _labels(r, ch, depth + 1))
    return d


def _leaf_classes(n, acc):
    if "y" in n:
        acc.append((n["t"], n["y"]["cls"]))
    for ch in ([n["p"]] if n["t"] in ("Conj", "Unitary") else n["ps"] if n["t"] == "Stack"
               else [n["proxh"]] if n["t"] == "L2Reg" and n.get("proxh") is not None else []):
        _leaf_classes(ch, acc)
    return acc


def _snapshot(cn, acc):
    for k in ("z_sp", "y0_sp", "b_sp", "l_sp", "u_sp", "Q"):
        v = cn.get(k)
        if isinstance(v, np.ndarray):
            acc.append((cn["t"], k, v, v.copy()))
    for ch in _kids(cn):
        _snapshot(ch, acc)
    return acc


def check_prog(case):
    import sigpy as sp
    r = R()
    dt = case["dtype"]
    field = "complex" if np.dtype(dt).kind == "c" else "real"
    tol = _tol(dt)
    a = case["alpha"]
    a_impl = np.float64(a) if case.get("alpha_np") else float(a)
    cn = compile_node(case["prog"], dt, field)
    build(cn)
    root = cn["t"]
    y = np.ascontiguousarray(pull(cn, float(a))).astype(dt).reshape(cn["shape"])
    y0 = y.copy()
    snaps = _snapshot(cn, [])
    yd = y.astype(np.complex128 if field == "complex" else np.float64)
    ny = _nrm(yd)

    depth = _labels(r, case["prog"])
    r.label("depth%d" % depth, dt, "ndim%d" % y.ndim)

    x, primary = evaluate(r, cn, a_impl, y, tol, dt)
    r.check(np.array_equal(y, y0), root + ":mutates-input", "input changed by the call")
    if x is not None and primary is None:
        # The SAME prox object is used again: (i) with another step size and input in between, (ii) on an equal y
        # held in another memory layout (Fortran / strided / reversed view). P(alpha, y) must not depend on what the
        # object did before, nor on how the caller's array is laid out.
        lay = case.get("layout", "c")
        try:
            other = np.ascontiguousarray(y0[::-1] * 2 + 1).astype(dt)
            cn["P"](2.5 * a_impl, other)
            y2 = A.relayout(y0.copy(), lay)
            y2c = y2.copy()
            o1 = cn["P"](a_impl, y2)
            if isinstance(o1, np.ndarray) and not np.may_share_memory(o1, y2):
                A.scribble(o1)          # the caller owns a returned array; overwriting it must not affect later calls
            x2 = np.asarray(cn["P"](a_impl, y2))
            if x2.shape != np.shape(x) or not _nrm(x2.astype(np.complex128) - np.asarray(x).astype(np.complex128)) <= tol * (1.0 + _nrm(y0) + pscale_arrays(cn)):
                r.fail(root + ":second-call-differs", "second call on the same object (after another call; y as a '%s' array) "
                       "differs from the first by %.3e" % (lay, _nrm(x2.astype(np.complex128) - np.asarray(x).astype(np.complex128))
                                                           if x2.shape == np.shape(x) else float("nan")))
            r.check(np.array_equal(y2, y2c), root + ":mutates-input", "input (%s layout) changed by the call" % lay)
            if lay != "c":
                r.label("layout:" + lay)
        except Exception as e:
            c = e
            while c.__cause__ is not None:
                c = c.__cause__
            r.fail(root + ":second-call-raises", "%s: %s (y as a '%s' array)" % (type(c).__name__, str(c)[:200], lay))
    for t, k, v, v0 in snaps:
        r.check(np.array_equal(v, v0), t + ":mutates-parameter", "parameter %s changed by the call" % k)

    want = ref(cn, float(a), yd)
    active = _nrm(want - yd) > tol * (1 + ny)
    classes = _leaf_classes(case["prog"], [])
    special = any(c in BOUNDARY_CLS for _, c in classes)
    if active:
        r.label("active")
    else:
        r.label("inactive")
    ind = is_indicator(cn)
    r.label("g:indicator" if ind else "g:finite-or-mixed")

    gy = geval(cn, yd)
    if gy is None:
        r.label("g-unknown")
    if x is not None and gy is not None:
        if field == "real" and x.dtype.kind == "c":
            xd = np.real(x).astype(np.float64)   # the imaginary part is already judged by the reference comparison
        else:
            xd = x.astype(np.complex128 if field == "complex" else np.float64)
        P = pscale(cn)
        nx = _nrm(xd)
        sc1 = 1.0 + ny + nx + P

        def sec(kind, msg):
            # a secondary symptom of an already keyed root cause keeps that key
            r.fail(primary if primary is not None else "%s:%s" % (root, kind), msg)

        gx = geval(cn, xd)
        if not gx[1] <= tol * sc1:
            sec("infeasible", "P(alpha,y) violates the constraint of g by %.3e" % gx[1])
        Fx = 0.5 * _nrm(xd - yd) ** 2 + a * gx[0]
        # competitors: always in dom g (they are reference prox values of perturbed problems)
        rng = np.random.default_rng(case["cseed"])
        worst = None
        used = 0
        zs = []
        for k in range(32):
            sig = [0.0, 1e-3, 1e-2, 0.1, 0.5, 1.0, 2.0, 4.0][k % 8] * (1.0 + ny) / max(1.0, yd.size ** 0.5)
            ak = a * [1.0, 0.5, 2.0, 1.0][k // 8]
            nz = rng.standard_normal(yd.shape)
            if field == "complex":
                nz = nz + 1j * rng.standard_normal(yd.shape)
            base = yd if k // 8 < 3 else np.zeros_like(yd)
            z = ref(cn, ak, base + sig * nz)
            gz = geval(cn, z)
            nzn = _nrm(z)
            if gz[1] > 1e-9 * (1.0 + nzn + P + ny):
                continue
            used += 1
            zs.append(z)
            Fz = 0.5 * _nrm(z - yd) ** 2 + a * gz[0]
            slack = tol * (1.0 + ny ** 2 + nx ** 2 + nzn ** 2 + a * (abs(gx[0]) + abs(gz[0])) + a * P * (1 + ny + nx + nzn))
            if Fx > Fz + slack and (worst is None or Fx - Fz > worst[0]):
                worst = (Fx - Fz, k, Fx, Fz, slack)
        if used < 16:
            raise HarnessError("only %d of 32 competitors are feasible" % used)
        if worst is not None:
            sec("objective", "objective at P(alpha,y) = %.12g exceeds the objective %.12g at feasible competitor #%d by %.3e "
                             "(slack %.1e)" % (worst[2], worst[3], worst[1], worst[0], worst[4]))
        if ind:
            # projection: fixed points, idempotence, variational inequality
            if gy[1] == 0.0:
                r.label("feasible-input")
                if not _nrm(xd - yd) <= tol * sc1:
                    sec("moves-feasible-point", "y is feasible but ||P(y) - y|| = %.3e" % _nrm(xd - yd))
            x2, p2 = evaluate(r, cn, a_impl, np.ascontiguousarray(xd).astype(dt), tol, dt,
                              tag="second application P(P(y)): ")
            if x2 is not None:
                d2 = _nrm(np.asarray(x2) - xd)
                if not d2 <= 4 * tol * sc1:
                    r.fail(primary or p2 or root + ":idempotence", "||P(P(y)) - P(y)|| = %.3e" % d2)
            wv = None
            for k, z in enumerate(zs):
                v = _rdot(yd - xd, z - xd)
                sl = tol * (1.0 + ny + nx + _nrm(z) + P) ** 2
                if v > sl and (wv is None or v > wv[0]):
                    wv = (v, sl, k)
            if wv is not None:
                sec("variational-inequality", "Re<y-Py, z-Py> = %.3e > %.1e for feasible z (#%d)" % wv)

    # direct call of the wrapped thresh function for plain leaves
    if root in ("L1Proj", "L2Proj", "LInfProj", "PsdProj", "L1Reg"):
        _direct(r, sp, cn, a, y, want, tol)

    r.nontrivial = bool(active or special)
    r.sig = json.dumps([skeleton(case["prog"]), dt, a], sort_keys=True, default=str)
    return r


def _direct(r, sp, cn, a, y, want, tol):
    t = cn["t"]
    th = sp.thresh
    name = {"L1Proj": "l1_proj", "L2Proj": "l2_proj", "LInfProj": "linf_proj", "PsdProj": "psd_proj",
            "L1Reg": "soft_thresh"}[t]
    y1 = y.copy()
    try:
        if t == "L1Proj":
            out = th.l1_proj(cn["eps"], y1)
        elif t == "L2Proj":
            v = y1 - cn["y0_sp"] if cn["y0_sp"] is not None else y1
            out = th.l2_proj(cn["eps"], v, cn["axes"]) if cn["axes"] is not None else th.l2_proj(cn["eps"], v)
            if cn["y0_sp"] is not None:
                out = out + cn["y0_sp"]
        elif t == "LInfProj":
            if cn["b_sp"] is None:
                out = th.linf_proj(cn["eps"], y1)
            elif (y1.size + int(round(float(a) * 8))) % 2:
                out = th.linf_proj(cn["eps"], y1, cn["b_sp"])      # documented positional order (eps, input, bias)
            else:
                out = th.linf_proj(cn["eps"], y1, bias=cn["b_sp"])
        elif t == "PsdProj":
            out = th.psd_proj(y1)
        else:
            out = th.soft_thresh(cn["lam"] * a, y1)
    except Exception as e:
        r.fail(_key(cn, "raises", a, y, name), "%s raised %s: %s" % (name, type(e).__name__, e))
        return
    o = np.asarray(out)
    r.check(np.array_equal(y1, y), name + ":mutates-input", "input changed by %s" % name)
    if o.shape != y.shape:
        r.fail(_key(cn, "shape", a, y, name), "%s returned shape %s for input shape %s (input %s)"
               % (name, o.shape, y.shape, np.array2string(y, precision=5).replace("\n", "") if y.size <= 16 else "..."))
        return
    if y.dtype.kind != "c" and o.dtype.kind == "c":
        r.fail(_key(cn, "dtype-complex", a, y, name), "%s: real input (%s) gave %s output" % (name, y.dtype, o.dtype))
    err = _nrm(o - want)
    bound = tol * (1.0 + _nrm(y) + pscale_arrays(cn))
    if not err <= bound:
        r.fail(_key(cn, "values", a, y, name), "%s: ||out - ref|| = %.3e > %.3e" % (name, err, bound))


# =============================================================== soft / hard threshold called directly


@st.composite
def st_thresh(draw):
    field = draw(st.sampled_from(["real", "real", "complex"]))
    dt = draw(st.sampled_from(RDT if field == "real" else CDT))
    shape = draw(A.shapes(1, 3, 1, 5, 30))
    ddt = "complex128" if field == "complex" else "float64"
    lk = draw(st.sampled_from(["float", "float", "np64", "np32", "arr", "arr", "arr-bcast"]))
    lam = {"kind": lk}
    if lk in ("float", "np64", "np32"):
        lam["val"] = draw(st.integers(0, 32)) / 8
    else:
        lsh = list(shape) if lk == "arr" else [shape[-1]]
        lam["arr"] = draw(A.arrays(lsh, draw(st.sampled_from(["float64", "float64", "float32"]))))
    return {"fn": draw(st.sampled_from(["soft", "hard"])), "dtype": dt, "shape": shape, "lam": lam,
            "x": {"cls": draw(st.sampled_from(["raw", "raw", "zeros", "threshold", "threshold", "ties", "outside"])),
                  "base": draw(A.arrays(shape, ddt)), "aux": draw(st.integers(0, 255))}}


def check_thresh(case):
    import sigpy as sp
    r = R()
    dt = case["dtype"]
    tol = _tol(dt)
    sh = tuple(case["shape"])
    lk = case["lam"]["kind"]
    if lk == "float":
        lam = float(case["lam"]["val"])
    elif lk == "np64":
        lam = np.float64(case["lam"]["val"])
    elif lk == "np32":
        lam = np.float32(case["lam"]["val"])
    else:
        lam = np.abs(A.arr(case["lam"]["arr"]))
    lamd = np.asarray(lam, dtype=np.float64) * np.ones(sh)
    b = A.arr(case["x"]["base"])
    cls, aux = case["x"]["cls"], case["x"]["aux"]
    ph = _phase(b)
    if cls == "zeros":
        xin = np.zeros_like(b)
    elif cls == "threshold":
        xin = np.where(_mask(aux, b.size, sh), lamd * ph, b)
    elif cls == "ties":
        xin = lamd.flat[aux % lamd.size] * [0.5, 1.0, 2.0][aux % 3] * ph
    elif cls == "outside":
        xin = b + lamd * ph
    else:
        xin = b
    x = np.ascontiguousarray(xin).astype(dt)
    x0 = x.copy()
    lam0 = lam.copy() if isinstance(lam, np.ndarray) else None
    name = case["fn"] + "_thresh"
    fn = sp.thresh.soft_thresh if case["fn"] == "soft" else sp.thresh.hard_thresh
    r.label(name, "lam:" + lk, "x:" + cls, dt, "ndim%d" % x.ndim, "prelude:" + str(case.get("prelude")))
    xd = x.astype(np.complex128 if x.dtype.kind == "c" else np.float64)
    mag = np.abs(xd)
    try:
        out = np.asarray(fn(lam, x))
    except Exception as e:
        r.fail(name + ":raises", "%s: %s" % (type(e).__name__, e))
        out = None
    if out is not None:
        if out.shape != x.shape:
            r.fail(name + ":shape", "output shape %s for input %s (lamda %s)" % (out.shape, x.shape, np.shape(lam)))
        else:
            if x.dtype.kind != "c" and out.dtype.kind == "c":
                r.fail(name + ":dtype-history", "real input (%s, lamda %s) gave %s output in a process whose first "
                       "threshold call was %s" % (x.dtype, lk, out.dtype, case.get("prelude")))
            scale = tol * (1.0 + _nrm(xd))
            if case["fn"] == "soft":
                err = _nrm(out - _soft(xd, lamd))
                r.check(err <= scale, name + ":values", "||soft_thresh - closed form|| = %.3e > %.3e" % (err, scale))
            else:
                tie = np.abs(mag - lamd) <= (1e-6 if tol > 1e-6 else 1e-12) * (1.0 + lamd)
                want = np.where(mag > lamd, xd, 0)
                bad = (np.abs(out - want) > scale) & ~(tie & ((np.abs(out) <= scale) | (np.abs(out - xd) <= scale)))
                r.check(not bad.any(), name + ":values", "%d entries differ from x*[|x|>lamda], first at %s"
                        % (int(bad.sum()), np.argwhere(bad)[0].tolist() if bad.any() else None))
    r.check(np.array_equal(x, x0), name + ":mutates-input", "input changed")
    if lam0 is not None:
        r.check(np.array_equal(lam, lam0), name + ":mutates-parameter", "lamda array changed")
    act = bool(np.any(mag <= lamd) and np.any(mag > 0))
    r.nontrivial = act or cls in ("threshold", "ties")
    r.sig = "%s|%s|%s|%s|%s|%s" % (name, list(sh), dt, lk, case["lam"].get("val"), cls)
    return r


# =============================================================== cross-implementation relations


@st.composite
def st_rel(draw):
    rel = draw(st.sampled_from(["conjconj", "conjconj", "conj-l1", "enet"]))
    field = draw(st.sampled_from(["real", "complex"]))
    dt = draw(st.sampled_from(RDT if field == "real" else CDT))
    out = {"rel": rel, "dtype": dt, "alpha": draw(st.integers(1, 64)) / 8}
    if rel == "conjconj":
        mode = draw(st.integers(0, 3))
        if mode == 0:
            n = draw(st.integers(1, 4))
            shape = [n, n]
        elif mode == 1:
            shape = [draw(st.integers(1, 12))]
        else:
            shape = draw(A.shapes(1, 3, 1, 5, 24))
        out["prog"] = _node(draw, shape, dt, field, draw(st.sampled_from([0, 0, 1, 2])))
    else:
        shape = draw(A.shapes(1, 3, 1, 5, 24))
        ddt = "complex128" if field == "complex" else "float64"
        out["shape"] = shape
        out["lam"] = _dy(draw)
        out["y"] = _inp(draw, "L1Reg", shape, ddt)
        if rel == "enet":
            out["mu"] = _dy(draw)
            out["z"] = _param(draw, shape, dt, field)
    return out


def check_rel(case):
    r = R()
    dt = case["dtype"]
    field = "complex" if np.dtype(dt).kind == "c" else "real"
    tol = _tol(dt)
    a = float(case["alpha"])
    rel = case["rel"]
    r.label("rel:" + rel, dt)
    if rel == "conjconj":
        p = case["prog"]
        c1 = compile_node(p, dt, field)
        c2 = compile_node({"t": "Conj", "shape": p["shape"], "p": {"t": "Conj", "shape": p["shape"], "p": p}}, dt, field)
        build(c1)
        build(c2)
        y = np.ascontiguousarray(pull(c1, a)).astype(dt).reshape(c1["shape"])
        _labels(r, p)
        x1, k1 = evaluate(r, c1, a, y, tol, dt, tag="P: ")
        x2, k2 = evaluate(r, c2, a, y.copy(), tol, dt, tag="Conj(Conj(P)): ")
        if x1 is not None and x2 is not None:
            d = _nrm(x1 - x2)
            bound = 4 * tol * (1.0 + _nrm(y) + pscale_arrays(c1))
            if not d <= bound:
                r.fail(k1 or k2 or "relation:conj-conj", "||Conj(Conj(P))(y) - P(y)|| = %.3e > %.3e" % (d, bound))
        want = ref(c1, a, y.astype(np.complex128 if field == "complex" else np.float64))
        r.nontrivial = _nrm(want - y) > tol * (1 + _nrm(y)) or any(c in BOUNDARY_CLS for _, c in _leaf_classes(p, []))
        r.sig = json.dumps(["conjconj", skeleton(p), dt, a], default=str)
        return r
    sh = case["shape"]
    lam = case["lam"]
    leaf = {"t": "L1Reg", "shape": sh, "lam": lam, "y": case["y"]}
    if rel == "conj-l1":
        # Conj(L1Reg(lam)) is the projection onto the l-inf ball of radius lam
        c1 = compile_node({"t": "Conj", "shape": sh, "p": leaf}, dt, field)
        c2 = compile_node({"t": "LInfProj", "shape": sh, "eps": lam, "bias": None, "y": case["y"]}, dt, field)
        build(c1)
        build(c2)
        y = np.ascontiguousarray(pull(c1, a)).astype(dt).reshape(sh)
        x1, k1 = evaluate(r, c1, a, y, tol, dt, tag="Conj(L1Reg): ")
        x2, k2 = evaluate(r, c2, a, y.copy(), tol, dt, tag="LInfProj: ")
        if x1 is not None and x2 is not None:
            d = _nrm(x1 - x2)
            bound = 4 * tol * (1.0 + _nrm(y))
            if not d <= bound:
                r.fail(k1 or k2 or "relation:conj-l1-linf", "||Conj(L1Reg(lam))(y) - LInfProj(lam)(y)|| = %.3e > %.3e" % (d, bound))
        r.nontrivial = bool(np.any(np.abs(y) > lam)) or case["y"]["cls"] in BOUNDARY_CLS
    else:
        mu = case["mu"]
        leaf = dict(leaf, lam=mu)
        c1 = compile_node({"t": "L2Reg", "shape": sh, "lam": lam, "z": case["z"], "proxh": leaf}, dt, field)
        build(c1)
        y = np.ascontiguousarray(pull(c1, a)).astype(dt).reshape(sh)
        yd = y.astype(np.complex128 if field == "complex" else np.float64)
        x1, k1 = evaluate(r, c1, a, y, tol, dt, tag="L2Reg(proxh=L1Reg): ")
        # elastic net: argmin 1/2|x-y|^2 + a*lam/2 |x-z|^2 + a*mu |x|_1, separable closed form
        z = 0 if c1["Z"] is None else c1["Z"]
        want = _soft((yd + a * lam * z) / (1 + a * lam), a * mu / (1 + a * lam))
        if x1 is not None:
            d = _nrm(x1 - want)
            bound = tol * (1.0 + _nrm(y) + pscale_arrays(c1))
            if not d <= bound:
                r.fail(k1 or "relation:elastic-net", "||L2Reg(lam,z,proxh=L1Reg(mu))(y) - elastic-net closed form|| = %.3e > %.3e"
                       % (d, bound))
        r.nontrivial = True
        r.label("enet-z:" + ("none" if case["z"] is None else "scalar" if "s" in case["z"] else "array"))
    r.label("cls:" + case["y"]["cls"])
    r.sig = json.dumps([rel, sh, dt, a, lam, case.get("mu"), case["y"]["cls"]], default=str)
    return r


PARTS = [
    Part("prox", check_prog, {"quick": 37500, "thorough": 400000}, strategy=st_prog),
    Part("thresh", check_thresh, {"quick": 9375, "thorough": 80000}, strategy=st_thresh),
    Part("relations", check_rel, {"quick": 7500, "thorough": 60000}, strategy=st_rel),
]
