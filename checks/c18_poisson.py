"""C18 - sigpy.mri.poisson: binary, calibrated, cropped, reproducible masks that hit
the requested acceleration or raise, and leave NumPy's global RNG untouched.

Every case calls ``poisson`` twice with identical arguments but two different
prior states of ``numpy.random`` and looks at the mask and at
``numpy.random.get_state()``.

Non-termination is a violation and is detected structurally, never by the
clock: ``sigpy.mri.samp._poisson`` (the numba kernel that ``poisson`` calls once
per bisection step) is replaced, for the duration of the call, by a counting
wrapper.  The bisection interval [0, max(nx, ny)] halves every step, so a
float64 midpoint cannot move any more after at most 7 + 1074 + 1 = 1082 steps
(measured on the pinned tree: 1079..1082 for requests below the reachable
acceleration).  Step 1101 raises a private exception which becomes the finding
``poisson:non-termination``: the loop body is a deterministic function of
(slope_min, slope_max) for an integer seed, so a loop that is still running then
runs forever.

To make 1100 steps cheap the wrapper serves a step whose kernel arguments are
byte-identical to those of the previous step from the previous result (the
kernel seeds its generator from ``seed`` on entry, so it is a function of its
arguments).  That premise is certified in every call: the first such repeat is
recomputed with the real kernel and compared; a difference switches the
shortcut off and is itself reported (``poisson:reproducible:kernel``).
"""
import signal
import warnings

import numpy as np
from hypothesis import strategies as st

from vlib.runner import Part, R

PROPERTY = "C18"
RULE = ("Hypothesis-generated (img_shape 16..128 square/rectangular, accel in (1,12] int or float, calib (0,0) or "
        "1..n//2 per axis, tol in [0.01,0.3], int seed, crop_corner, dtype, two prior numpy.random states = seed + "
        "number of uniform draws + optional cached gaussian); poisson is called twice with equal arguments and "
        "different prior global RNG state. Oracle: values in {0,1}; |size/count - accel| < tol (the code's own "
        "inequality, same float operations); a fully sampled calib-shaped block at one of the <=4 floor/ceil centre "
        "placements; with crop_corner no sample strictly outside the (calib-adjusted) inscribed ellipse, decided in "
        "integer arithmetic; both calls give the identical mask; numpy.random.get_state() equal field by field "
        "before/after each call (return and raise path); the only accepted exception is ValueError; more than 1100 "
        "bisection steps (counted at the kernel) = non-termination. non-trivial: calib != (0,0) or rectangular or "
        "the raise path was reached. distinct = distinct (shape, accel, calib, tol, seed, crop, dtype).")
ASSUMPTIONS = [
    "seed is a Python int in [0, 2**31-1] (documented type; seed=None asks for a non-reproducible mask and is outside 'depends only on the arguments and seed')",
    "calib is (0,0) or has 1 <= calib[i] <= img_shape[i]//2 on both axes, or (small images) 60-85 % of each axis with an acceleration below size/calib-area (calib equal to the image makes the code's radius 0/0)",
    "max_attempts and return_density are left at their defaults; img_shape and calib are passed as tuples of Python ints",
    "cost restriction: accel < 2 (at or below the densest reachable pattern, ~60 dense kernel runs of 4-15 ms) only for images of <= 640 pixels; images with an axis > 64 use accel >= 3; axis lengths > 64 are 1/7 of the cases",
    "crop_corner: only samples STRICTLY outside the ellipse are violations (points exactly on it are decided by rounding in the code's float r < 1); for calib != (0,0) the ellipse is the code's radius (|x-nx/2|-cx/2)+/(nx/2-cx/2), which contains the image's inscribed ellipse (DESIGN section 7)",
    "calibration block: any of the <= 4 floor/ceil centre placements is accepted (the docstring fixes none)",
    "sigpy.mri.samp._poisson is called exactly once per bisection step and, for an int seed, is a deterministic function of its arguments (certified per call by recomputing the first repeated-argument step); if _poisson is missing or not called (refactored tree) steps cannot be counted: non-termination is then not decidable, calls exceeding a 60 s budget are labelled inconclusive (never a finding) and all other claims are still checked",
    "a bisection step count > 1100 is taken as non-termination: interval [0, max(nx,ny) <= 128] halves per step, float64 exhausts after <= 1082 halvings",
]

STEP_LIMIT = 1100
UNCOUNTED_BUDGET_S = 60
_UNCOUNTED = {"on": False, "timeouts": 0}
DTYPES = ("complex128", "float32", "int32", "bool", "float64", "complex64", "uint8")


class _NonTermination(BaseException):
    """Private: raised by the counting wrapper at bisection step STEP_LIMIT + 1."""


def _same_args(a, b):
    if len(a) != len(b):
        return False
    for u, v in zip(a, b):
        if isinstance(u, np.ndarray) or isinstance(v, np.ndarray):
            if not (isinstance(u, np.ndarray) and isinstance(v, np.ndarray)):
                return False
            if u.shape != v.shape or u.dtype != v.dtype or not np.array_equal(u, v):
                return False
        elif type(u) is not type(v) or u != v:
            return False
    return True


class _Counter:
    """Counts bisection steps at the kernel; repeats of identical arguments are not recomputed."""

    def __init__(self, kern):
        self.kern = kern
        self.steps = 0          # calls made by poisson (= bisection steps)
        self.real = 0           # calls forwarded to the real kernel
        self.run = 0            # length of the current run of identical-argument steps
        self.prev_args = None
        self.prev_out = None
        self.memo = True
        self.certified = False
        self.nondet = None

    def __call__(self, *args, **kw):
        self.steps += 1
        if self.steps > STEP_LIMIT:
            raise _NonTermination()
        if self.memo and not kw and self.prev_args is not None and _same_args(args, self.prev_args):
            self.run += 1
            if self.certified:
                return self.prev_out.copy()
            out = self.kern(*args)
            self.real += 1
            self.certified = True
            if not (isinstance(out, np.ndarray) and out.shape == self.prev_out.shape
                    and np.array_equal(out, self.prev_out)):
                self.memo = False
                self.nondet = "step %d repeated the arguments of step %d but the kernel returned a different mask" % (
                    self.steps, self.steps - 1)
            return out
        self.run = 0
        out = self.kern(*args, **kw)
        self.real += 1
        if self.memo and not kw and isinstance(out, np.ndarray):
            self.prev_args = tuple(a.copy() if isinstance(a, np.ndarray) else a for a in args)
            self.prev_out = out.copy()  # the caller multiplies the returned mask in place
        else:
            self.prev_args = None
        return out


def _set_prior(p):
    np.random.seed(p["seed"])
    if p["draws"]:
        np.random.random_sample(p["draws"])
    if p["gauss"]:
        np.random.standard_normal()  # leaves has_gauss = 1 and a cached value in the state


def _state_equal(a, b):
    return (len(a) == len(b) and a[0] == b[0] and np.array_equal(a[1], b[1])
            and all(x == y for x, y in zip(a[2:], b[2:])))


def _kwargs(case):
    kw = {"calib": tuple(case["calib"]), "dtype": np.dtype(case["dtype"]).type,
          "crop_corner": case["crop"], "seed": case["seed"], "tol": case["tol"]}
    if case.get("use_defaults"):
        # leave out every argument that equals the documented default
        dflt = {"calib": (0, 0), "dtype": np.complex128, "crop_corner": True, "seed": 0, "tol": 0.1}
        kw = {k: v for k, v in kw.items() if v != dflt[k]}
    return kw


def _one_call(samp, case, prior):
    """poisson(...) under the counting wrapper; returns a plain dict describing what happened."""
    kern = getattr(samp, "_poisson", None)
    counted = kern is not None and callable(kern) and not _UNCOUNTED["on"]
    cnt = _Counter(kern if counted else None)
    out = {"kind": None, "mask": None, "exc": None}
    _set_prior(prior)
    before = np.random.get_state()
    old_handler = old_left = None
    if counted:
        samp._poisson = cnt
    else:
        # The kernel is not where the pinned tree has it (renamed/inlined by a refactor): steps cannot be counted.
        # Non-termination can then not be PROVED; a call that exceeds a generous budget is recorded as
        # inconclusive (never a finding) and every other claim is still checked on the calls that return.
        if _UNCOUNTED["timeouts"] >= 3:
            out.update(kind="inconclusive", steps=0, real=0, run=0, nondet=None, state_same=True)
            return out

        def _on_alarm(signum, frame):
            raise _NonTermination()
        old_left = signal.alarm(0)
        old_handler = signal.signal(signal.SIGALRM, _on_alarm)
        signal.alarm(UNCOUNTED_BUDGET_S)
    try:
        with warnings.catch_warnings():
            warnings.simplefilter("ignore")  # divide-by-zero of an empty trial mask is handled by the bisection
            try:
                if case.get("positional"):
                    # documented order poisson(img_shape, accel, calib, dtype, crop_corner, return_density, seed, max_attempts, tol)
                    out["mask"] = samp.poisson(tuple(case["shape"]), case["accel"], tuple(case["calib"]),
                                               np.dtype(case["dtype"]).type, case["crop"], False, case["seed"], 30, case["tol"])
                else:
                    out["mask"] = samp.poisson(tuple(case["shape"]), case["accel"], **_kwargs(case))
                out["kind"] = "mask"
            except _NonTermination:
                out["kind"] = "hang" if counted else "inconclusive"
                if not counted:
                    _UNCOUNTED["timeouts"] += 1
            except ValueError as e:
                out["kind"] = "ValueError"
                out["exc"] = str(e)
            except Exception as e:
                out["kind"] = "raises:" + type(e).__name__
                out["exc"] = "%s: %s" % (type(e).__name__, e)
    finally:
        if counted:
            samp._poisson = kern
        else:
            signal.alarm(0)
            signal.signal(signal.SIGALRM, old_handler)
            if old_left:
                signal.alarm(old_left)
    after = np.random.get_state()
    out.update(steps=cnt.steps, real=cnt.real, run=cnt.run, nondet=cnt.nondet,
               state_same=_state_equal(before, after))
    if counted and out["kind"] == "mask" and cnt.steps == 0:
        # poisson no longer goes through samp._poisson: fall back to uncounted operation for this process
        _UNCOUNTED["on"] = True
    return out


def _outside_ellipse(ys, xs, ny, nx, cy, cx):
    """Exact: ((|2x-nx|-cx)+/(nx-cx))^2 + ((|2y-ny|-cy)+/(ny-cy))^2 > 1 (all quantities doubled)."""
    ax = np.maximum(np.abs(2 * xs.astype(np.int64) - nx) - cx, 0)
    ay = np.maximum(np.abs(2 * ys.astype(np.int64) - ny) - cy, 0)
    dx, dy = nx - cx, ny - cy
    return ax * ax * dy * dy + ay * ay * dx * dx > dx * dx * dy * dy


def _check_mask(r, case, mask):
    ny, nx = case["shape"]
    cy, cx = case["calib"]
    accel, tol = case["accel"], case["tol"]
    if not (isinstance(mask, np.ndarray) and mask.shape == (ny, nx)):
        r.fail("poisson:shape", "returned %s of shape %s for img_shape %s"
               % (type(mask).__name__, getattr(mask, "shape", None), (ny, nx)))
        return
    r.check(mask.dtype == np.dtype(case["dtype"]), "poisson:dtype",
            "dtype %s, requested %s" % (mask.dtype, case["dtype"]))
    binary = bool(np.all((mask == 0) | (mask == 1)))
    if not binary:
        bad = mask[~((mask == 0) | (mask == 1))]
        r.fail("poisson:binary", "%d values outside {0,1}, e.g. %r" % (bad.size, bad.ravel()[0]))
    on = mask != 0
    n = int(np.count_nonzero(on))
    actual = (nx * ny) / n if n else float("inf")
    r.check(abs(actual - accel) < tol, "poisson:accel",
            "returned a mask with %d samples of %d: acceleration %.6g, requested %r, tol %r"
            % (n, nx * ny, actual, accel, tol))
    if cy and cx:
        ok = False
        for y0 in {(ny - cy) // 2, -((cy - ny) // 2)}:
            for x0 in {(nx - cx) // 2, -((cx - nx) // 2)}:
                ok = ok or bool(on[y0:y0 + cy, x0:x0 + cx].all())
        if not ok:
            y0, x0 = (ny - cy) // 2, (nx - cx) // 2
            blk = on[y0:y0 + cy + 1, x0:x0 + cx + 1]
            r.fail("poisson:calib", "no fully sampled %dx%d block at the centre of %dx%d (rows %d.., cols %d..: "
                   "%d of %d sampled)" % (cy, cx, ny, nx, y0, x0, int(blk.sum()), blk.size))
    if case["crop"]:
        ys, xs = np.nonzero(on)
        out = _outside_ellipse(ys, xs, ny, nx, cy, cx)
        if out.any():
            i = int(np.argmax(out))
            r.fail("poisson:crop", "crop_corner=True but %d samples lie strictly outside the inscribed ellipse, "
                   "e.g. (y=%d, x=%d) in %dx%d calib %s" % (int(out.sum()), ys[i], xs[i], ny, nx, (cy, cx)))
        if (cy or cx) and _outside_ellipse(ys, xs, ny, nx, 0, 0).any():
            # observation only: allowed by the code's calib-adjusted radius, outside the image's own ellipse
            r.label("crop:calib-sample-outside-image-ellipse")


def _describe(case):
    return "poisson(%s, %r, %s)" % (tuple(case["shape"]), case["accel"],
                                    ", ".join("%s=%s" % (k, getattr(v, "__name__", v))
                                              for k, v in _kwargs(case).items()))


def check_case(case):
    import sigpy.mri.samp as samp
    r = R()
    ny, nx = case["shape"]
    cy, cx = case["calib"]
    saved = np.random.get_state()
    try:
        a = _one_call(samp, case, case["prior"])
        # a request that never returns is not repeated: same arguments, same deterministic loop
        if a["kind"] == "mask" and isinstance(a["mask"], np.ndarray):
            # the caller owns the returned mask and may edit it in place; the second call must not see that
            returned = a["mask"]
            a["mask"] = returned.copy()
            if returned.flags.writeable:
                returned[...] = ~returned.astype(bool) if returned.dtype.kind != "c" else 1 - returned
        b = _one_call(samp, case, case["prior2"]) if a["kind"] not in ("hang", "inconclusive") else None
    finally:
        np.random.set_state(saved)
    calls = [c for c in (a, b) if c is not None]

    for i, c in enumerate(calls):
        if c["kind"] == "hang":
            r.fail("poisson:non-termination",
                   "%s: bisection still running after %d kernel calls (float64 interval [0,%d] is exhausted after "
                   "<= 1082 halvings); the last %d steps passed byte-identical arguments to the kernel, so the loop "
                   "state no longer changes and the call never returns (documented failure mode: ValueError)"
                   % (_describe(case), STEP_LIMIT, max(nx, ny), c["run"]))
        elif c["kind"].startswith("raises:"):
            r.fail("poisson:" + c["kind"], "%s raised %s (only ValueError is documented)" % (_describe(case), c["exc"]))
        if c["nondet"]:
            r.fail("poisson:reproducible:kernel", "%s: %s" % (_describe(case), c["nondet"]))
        if c["kind"] not in ("hang", "inconclusive") and not c["state_same"]:
            r.fail("poisson:rng-state:" + ("return" if c["kind"] == "mask" else "raise"),
                   "%s (call %d, prior numpy.random state %s) changed numpy.random.get_state()"
                   % (_describe(case), i + 1, case["prior" if i == 0 else "prior2"]))
    if a["kind"] == "mask":
        _check_mask(r, case, a["mask"])
    if b is not None:
        if a["kind"] != b["kind"]:
            r.fail("poisson:reproducible", "%s: first call -> %s, second call with another prior numpy.random state -> %s"
                   % (_describe(case), a["kind"], b["kind"]))
        elif a["kind"] == "mask":
            ma, mb = a["mask"], b["mask"]
            same = (isinstance(mb, np.ndarray) and isinstance(ma, np.ndarray) and ma.shape == mb.shape
                    and ma.dtype == mb.dtype and np.array_equal(ma, mb))
            if not same:
                nd = int(np.sum(ma != mb)) if getattr(ma, "shape", 0) == getattr(mb, "shape", 1) else -1
                r.fail("poisson:reproducible", "%s: two calls with equal arguments (prior numpy.random states %s / %s) "
                       "differ in %d pixels" % (_describe(case), case["prior"], case["prior2"], nd))

    # ---- classes
    big = max(ny, nx)
    r.label("outcome:" + {"mask": "returns", "ValueError": "raises-ValueError", "hang": "non-termination",
                          "inconclusive": "inconclusive(step counter unavailable, budget exceeded)"}.get(
        a["kind"], "raises-other"))
    if _UNCOUNTED["on"] or not callable(getattr(samp, "_poisson", None)):
        r.label("step-counter-unavailable")
    r.label("square" if ny == nx else "rect")
    r.label("axis<=32" if big <= 32 else "axis<=64" if big <= 64 else "axis>64")
    if not (cy or cx):
        r.label("calib:none")
    else:
        r.label("calib:mixed-parity" if ((ny - cy) % 2 or (nx - cx) % 2) else "calib:same-parity")
        if 2 * cy >= ny - 1 or 2 * cx >= nx - 1:
            r.label("calib:half-image")
    r.label("crop" if case["crop"] else "no-crop")
    r.label("dtype:" + case["dtype"])
    r.label("accel:int" if isinstance(case["accel"], int) else "accel:float")
    if case["accel"] < 2:
        r.label("accel<2")
    if case["seed"] == 0:
        r.label("seed=0")
    if case["tol"] < 0.05:
        r.label("tol<0.05")
    if case["prior"]["gauss"] or case["prior2"]["gauss"]:
        r.label("prior:cached-gaussian")
    if case["prior"]["draws"] >= 624 or case["prior2"]["draws"] >= 624:
        r.label("prior:draws>=624")
    if case.get("use_defaults"):
        r.label("defaults-omitted")
    if a["steps"] > 12 and a["kind"] == "mask":
        r.label("returns-after>12-steps")
    r.nontrivial = bool(cy or cx) or ny != nx or a["kind"] == "ValueError"
    r.sig = "%s|%r|%s|%r|%d|%s|%s" % (case["shape"], case["accel"], case["calib"], case["tol"], case["seed"],
                                      case["crop"], case["dtype"])
    return r


# ---------------------------------------------------------------------- generator


@st.composite
def st_prior(draw):
    return {"seed": draw(st.integers(0, 2 ** 32 - 1)), "draws": draw(st.integers(0, 700)),
            "gauss": draw(st.booleans())}


@st.composite
def st_case(draw):
    size = draw(st.sampled_from(("s", "s", "s", "m", "m", "m", "l")))
    lo, hi = {"s": (16, 32), "m": (33, 64), "l": (65, 128)}[size]
    ny = draw(st.integers(lo, hi))
    if draw(st.booleans()):
        nx = ny
    else:
        nx = draw(st.integers(16, hi))
        if draw(st.booleans()):
            ny, nx = nx, ny
    kinds = ["int", "float"] + (["low"] if ny * nx <= 640 else [])
    kind = draw(st.sampled_from(kinds))
    amin = 3 if size == "l" else 2
    if kind == "int":
        accel = draw(st.integers(amin, 12))
    elif kind == "float":
        accel = draw(st.floats(amin, 12, allow_nan=False))
    else:
        accel = draw(st.floats(1, 2, exclude_min=True, allow_nan=False))
    if draw(st.integers(0, 2)) == 0:
        calib = [0, 0]
    else:
        calib = [draw(st.integers(1, ny // 2)), draw(st.integers(1, nx // 2))]
    if ny * nx <= 1024 and draw(st.sampled_from([False, False, True])):
        # a LARGE calibration region (60-85 % of each axis) with an acceleration it still leaves reachable
        fy, fx = draw(st.integers(60, 85)) / 100.0, draw(st.integers(60, 85)) / 100.0
        calib = [max(1, min(ny - 2, int(fy * ny))), max(1, min(nx - 2, int(fx * nx)))]
        amax = (ny * nx) / float(calib[0] * calib[1])
        accel = 1.0 + draw(st.sampled_from([30, 60, 80, 90, 95, 95, 97])) / 100.0 * (amax - 1.0)
    tol = draw(st.one_of(st.sampled_from((0.1, 0.2, 0.05, 0.3, 0.01)), st.floats(0.01, 0.3, allow_nan=False)))
    seed = draw(st.one_of(st.just(0), st.integers(0, 100), st.integers(0, 2 ** 31 - 1)))
    crop = draw(st.booleans())
    dtype = draw(st.sampled_from(DTYPES))
    use_defaults = draw(st.booleans())
    prior, prior2 = draw(st_prior()), draw(st_prior())
    if prior2 == prior:  # the second call must start from another global RNG state
        prior2 = dict(prior2, draws=prior2["draws"] + 1)
    return {"shape": [ny, nx], "accel": accel, "calib": calib, "tol": tol, "seed": seed, "crop": crop,
            "dtype": dtype, "use_defaults": use_defaults, "prior": prior, "prior2": prior2,
            "positional": draw(st.sampled_from([False, False, True]))}


PARTS = [Part("poisson", check_case, {"quick": 1200, "thorough": 16000}, strategy=st_case)]
