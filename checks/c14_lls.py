"""C14 - LinearLeastSquares returns the documented minimiser whatever the solver.

One case = one problem (A, y, lamda, z, proxg, G, x0, step-size arguments given or defaulted); every
solver option {None, ConjugateGradient, GradientMethod, PrimalDualHybridGradient, ADMM} is run on it.
Oracle: objective F evaluated by the harness from dense matrices; F* bracketed by a certified
primal/dual reference (vlib.refsolve). Outcome lattice: documented unsupported pairs must raise
ValueError; any other exception, mutation of y/z/operator arrays, or an objective gap above tolerance
is a violation.
"""
import warnings

import numpy as np
from hypothesis import strategies as st

from vlib import arrays as A
from vlib.refsolve import Problem
from vlib.runner import Part, R

PROPERTY = "C14"
RULE = ("Hypothesis-generated configurations: A in {dense MatMul, Identity, diagonal Multiply, FFT, composition} x lamda in "
        "{0,>0} x z in {None, array} x proxg in {None, L1Reg, L2Reg, Box(0 in box)} x G in {None, dense square, dense "
        "non-square, FiniteDifference} x step arguments {given, defaulted} x x0 {given, None} x {real, complex}; all five "
        "solver options run on each problem; oracle: harness-evaluated objective gap F(x_out)-F* <= 1e-3*max(F(x0)-F*, "
        "|F*|, 1e-9) with F* from a primal/dual-certified dense reference, box feasibility 1e-4, ValueError for "
        "CG+proxg and GradientMethod+G, no other exception, y/z/captured arrays unchanged. non-trivial: G given, or "
        "lamda>0 with z, or proxg given. distinct = configuration signature. In 4 of 7 cases a SECOND problem (lamda raised by "
        "2 / lowered / equal, new observation) is then solved with the very same operator, prox and array objects "
        "(history: nothing cached on shared objects may leak into a later solve).")
ASSUMPTIONS = [
    "conditioning is controlled by construction (singular values of A in [1/4,1] (quick) or [1/30,1] (thorough class), ||G|| <= 2) so that "
    "the iteration budgets below suffice: CG n+2, GradientMethod 800, PDHG 3000, ADMM max(500, log(1e-3)/log(q)) with q = rho||G||^2/(rho||G||^2 + lambda_min(A^H A + lamda I)) (x10 CG each; ADMM not run when that exceeds 40000)",
    "BoxConstraint only for real data (numpy clip on complex numbers is not a projection)",
    "z is None or an array (the property's quantifier); the Hessian A^H A + lamda I is nonsingular (full column rank A)",
    "cases whose reference optimum cannot be certified (duality gap > 1e-8) are skipped and counted",
]

SOLVERS = [None, "ConjugateGradient", "GradientMethod", "PrimalDualHybridGradient", "ADMM"]
import os as _os
_SC = float(_os.environ.get("C14_ITER_SCALE", "1"))
MAX_ITER = {"ConjugateGradient": None, "GradientMethod": int(800 * _SC), "PrimalDualHybridGradient": int(3000 * _SC), "ADMM": int(500 * _SC)}


def _rand_unitary(rng, n, cplx):
    M = rng.standard_normal((n, n)) + (1j * rng.standard_normal((n, n)) if cplx else 0)
    q, _ = np.linalg.qr(M)
    return q


def build_problem(case):
    import sigpy as sp
    rng = np.random.default_rng(case["seed"])
    n, m = case["n"], case["m"]
    cplx = case["cplx"]
    dt = np.complex128 if cplx else np.float64
    lo = case["smin"]
    kind = case["A"]
    if kind == "dense":
        m = max(m, n)
        U = _rand_unitary(rng, m, cplx)[:, :n]
        V = _rand_unitary(rng, n, cplx)
        s = np.exp(rng.uniform(np.log(lo), 0, size=n))
        s[0] = 1.0
        Am = (U * s) @ V.conj().T
        Aop = sp.linop.MatMul([n, 1], Am.astype(dt))
        if case.get("adjform"):
            Aop = sp.linop.MatMul([n, 1], np.ascontiguousarray(Am.conj().T).astype(dt), adjoint=True)
    elif kind == "identity":
        Am = np.eye(n, dtype=dt)
        Aop = sp.linop.Identity([n, 1])
        m = n
    elif kind == "diag":
        d = np.exp(rng.uniform(np.log(lo), 0, size=n)) * (np.exp(2j * np.pi * rng.uniform(size=n)) if cplx else rng.choice([-1.0, 1.0], size=n))
        Am = np.diag(d).astype(dt)
        Aop = sp.linop.Multiply([n, 1], d.reshape(n, 1).astype(dt))
        m = n
    elif kind == "circulant":
        # periodic (shift-invariant) operator: A = F^H diag(s) F. Every Fourier vector, the constant one included,
        # is an eigenvector of A^H A; the constant vector's eigenvalue |s_0|^2 is the SMALLEST here.
        Fm = np.fft.fft(np.eye(n), axis=0, norm="ortho")
        mod = np.exp(rng.uniform(np.log(lo), 0, size=n))
        mod[0] = lo
        if n > 1:
            mod[1] = 1.0
        if cplx:
            sv = mod * np.exp(2j * np.pi * rng.uniform(size=n))
        else:
            sv = mod.astype(complex)
            for kk in range(1, n):          # conjugate-symmetric spectrum -> real circulant matrix
                sv[kk] = mod[min(kk, n - kk)] * (np.exp(2j * np.pi * rng.uniform()) if kk < n - kk else 1.0)
            for kk in range(1, n):
                if kk > n - kk:
                    sv[kk] = np.conj(sv[n - kk])
        Am = Fm.conj().T @ np.diag(sv) @ Fm
        Am = (Am if cplx else np.real(Am)).astype(dt)
        Aop = sp.linop.MatMul([n, 1], Am)
        m = n
    elif kind == "fft":
        F = np.fft.fftshift(np.fft.fft(np.fft.ifftshift(np.eye(n), axes=0), axis=0, norm="ortho"), axes=0)
        Am = F.astype(np.complex128)
        Aop = sp.linop.FFT([n, 1], axes=[0])
        m = n
        cplx = True
        dt = np.complex128
    else:  # composition dense * diag
        U = _rand_unitary(rng, n, cplx)
        s = np.exp(rng.uniform(np.log(lo), 0, size=n))
        d = rng.choice([-1.0, 1.0], size=n) * np.exp(rng.uniform(np.log(max(lo, 0.5)), 0, size=n))
        Bm = (U * s).astype(dt)
        Am = Bm @ np.diag(d)
        Aop = sp.linop.MatMul([n, 1], Bm) * sp.linop.Multiply([n, 1], d.reshape(n, 1).astype(dt))
        m = n
    y = (rng.standard_normal(m) + (1j * rng.standard_normal(m) if cplx else 0)).astype(dt).reshape(m, 1)
    c = float(case.get("ascale", 1.0))
    if c != 1.0 and kind in ("dense", "diag", "comp", "circulant"):
        # the equivalent problem in other units: A' = cA, x' = x/c, mu' = c mu, lamda' = c^2 lamda, z' = z/c (c a power
        # of two: the same iterates up to exact scaling for every scale-covariant solver configuration)
        Am = Am * c
        if kind == "dense" or kind == "circulant":
            Aop = sp.linop.MatMul([n, 1], Am.astype(dt))
        elif kind == "diag":
            Aop = sp.linop.Multiply([n, 1], (d * c).reshape(n, 1).astype(dt))
        else:
            Aop = sp.linop.MatMul([n, 1], (Bm * c).astype(dt)) * sp.linop.Multiply([n, 1], d.reshape(n, 1).astype(dt))
    else:
        c = 1.0
    lamda = case["lamda"] * c * c
    z = None
    if case["z"]:
        z = ((rng.standard_normal(n) + (1j * rng.standard_normal(n) if cplx else 0)) / c).astype(dt).reshape(n, 1)
    gk = case["G"] if c == 1.0 else None
    Gm = None
    Gop = None
    if gk == "square":
        Gm = rng.integers(-2, 3, size=(n, n)) / 2.0 + (1j * rng.integers(-2, 3, size=(n, n)) / 2.0 if cplx else 0)
    elif gk == "wide":
        Gm = rng.integers(-2, 3, size=(max(1, n - 1), n)) / 2.0
    elif gk == "tall":
        Gm = rng.integers(-2, 3, size=(n + 1, n)) / 2.0
    if Gm is not None:
        if not Gm.any():
            Gm[0, 0] = 1
        Gm = (Gm / max(1.0, np.linalg.norm(Gm, 2) / 2)).astype(dt)
        Gop = sp.linop.MatMul([n, 1], Gm)
    elif gk == "findiff":
        Gop = sp.linop.FiniteDifference([n, 1], axes=[0])
        Gm = (np.eye(n) - np.roll(np.eye(n), 1, axis=0)).astype(dt)
    gshape = [n, 1] if Gop is None else list(Gop.oshape)
    pk = case["proxg"]
    gpar = case["mu"] * (c if pk == "l1" else c * c if pk == "l2" else 1.0 / c if pk == "box" else 1.0)
    proxg = None
    if pk == "l1":
        proxg = sp.prox.L1Reg(gshape, gpar)
    elif pk == "l2":
        proxg = sp.prox.L2Reg(gshape, gpar)
    elif pk == "box":
        proxg = sp.prox.BoxConstraint(gshape, -gpar, gpar)
    x0 = None
    if case["x0"]:
        x0 = (0.5 / c * (rng.standard_normal(n) + (1j * rng.standard_normal(n) if cplx else 0))).astype(dt).reshape(n, 1)
        if pk == "box" and Gop is None:
            x0 = np.clip(x0.real, -gpar, gpar).astype(dt)
    y = _lay(y, case.get("layout", "c"))
    prob = Problem(Am, y, lamda, z, Gm, pk, gpar)
    return dict(Aop=Aop, Am=Am, y=y, z=z, Gop=Gop, Gm=Gm, proxg=proxg, x0=x0, prob=prob, n=n, m=m, dt=dt, lamda=lamda,
                ascale=c, gpar=gpar)


def step_kwargs(case, P, solver):
    """explicit step-size / preconditioner arguments when case['given'] says so"""
    import sigpy as sp
    kw = {}
    if not case["given"]:
        return kw
    n = P["n"]
    Am, Gm, lam = P["Am"], P["Gm"], P["lamda"]
    H = Am.conj().T @ Am + lam * np.eye(n)
    if solver in ("ConjugateGradient", "ADMM", None) and case["which"] in ("P", "all"):
        d = 1.0 / np.real(np.diag(H))
        kw["P"] = sp.linop.Multiply([n, 1], d.reshape(n, 1))
    if solver == "GradientMethod":
        kw["alpha"] = case["stepc"] / np.linalg.eigvalsh(H)[-1]
        kw["accelerate"] = case["accelerate"]
    if solver == "PrimalDualHybridGradient":
        K = Am if Gm is None else np.vstack([Am, Gm])
        nk = np.linalg.norm(K, 2)
        sig = case["sigma"]
        tau = case["stepc"] / (sig * nk ** 2)
        if case["which"] in ("all", "P"):
            kw["tau"] = tau
            kw["sigma"] = sig
        elif case["which"] == "tau":
            kw["tau"] = tau
        else:
            kw["sigma"] = sig
    if solver == "ADMM":
        kw["rho"] = case["rho"]
        kw["max_cg_iter"] = n + 2
    return kw


def check_case(case):
    warnings.simplefilter("ignore")
    r = R()
    P = build_problem(case)
    if case.get("layout", "c") != "c":
        r.label("layout:" + case["layout"])
    if P.get("ascale", 1.0) != 1.0:
        r.label("A-scale:2^%d" % int(round(np.log2(P["ascale"]))))
    r.label("A:" + case["A"], "G:" + str(case["G"]), "prox:" + str(case["proxg"]), "lamda>0" if case["lamda"] else "lamda=0",
            "z" if case["z"] else "no-z", "given" if case["given"] else "defaulted", "cplx" if case["cplx"] else "real")
    r.sig = "|".join("%s=%s" % (k, case[k]) for k in sorted(case) if k not in ("part", "prelude", "seed"))
    r.nontrivial = case["G"] is not None or (case["lamda"] > 0 and case["z"]) or case["proxg"] is not None
    ok = _solve_all(r, case, P, "")
    if not ok:
        r.nontrivial = False
        return r
    if case.get("reuse"):
        # the SAME operator / prox / array objects are used for a second, different problem (another lamda and
        # another observation): nothing a previous solve left behind on them may leak into this one
        rng = np.random.default_rng(case["seed"] + 1)
        c2 = P.get("ascale", 1.0) ** 2
        lam2 = {"up": P["lamda"] + 2.0 * c2, "down": 0.0 if P["lamda"] else 0.25 * c2, "same": P["lamda"]}[case["reuse"]]
        y2 = (rng.standard_normal(P["y"].shape) + (1j * rng.standard_normal(P["y"].shape) if np.iscomplexobj(P["y"]) else 0)).astype(P["dt"])
        P2 = dict(P, y=y2, lamda=lam2, z=P["z"] if lam2 > 0 else None)
        P2["prob"] = Problem(P["Am"], y2, lam2, P2["z"], P["Gm"], case["proxg"], P["gpar"])
        r.label("reuse:" + case["reuse"])
        _solve_all(r, case, P2, ":reused-objects")
    return r


def _lay(v, layout):
    """the caller's [n,1] array held as a view of a larger buffer (same values)"""
    if layout == "strided":
        big = np.zeros((2 * v.shape[0], 1), v.dtype)
        big[::2] = v
        return big[::2]
    if layout == "column":
        big = np.zeros((v.shape[0], 3), v.dtype)
        big[:, 1:2] = v
        return big[:, 1:2]
    return v


def _solve_all(r, case, P, tag):
    import sigpy as sp
    prob = P["prob"]
    ref = prob.solve()
    if not ref["certified"]:
        r.label("reference-uncertified")
        return False
    Fstar = ref["hi"]
    n = P["n"]
    x_start = np.zeros((n, 1), P["dt"]) if P["x0"] is None else P["x0"]
    F0 = prob.F(x_start)
    if not np.isfinite(F0):
        F0 = prob.F(np.zeros(n)) if np.isfinite(prob.F(np.zeros(n))) else Fstar + 1.0
    slack = 1e-3 * max(F0 - Fstar, abs(Fstar), 1e-9)
    results = {}
    for solver in SOLVERS:
        if P.get("ascale", 1.0) != 1.0 and solver in ("PrimalDualHybridGradient", "ADMM"):
            continue        # sigma / rho given in fixed units are not scale-covariant: budgets would not transfer
        name = solver or "default"
        eff = solver
        if solver is None:
            eff = "ConjugateGradient" if P["proxg"] is None else ("GradientMethod" if P["Gop"] is None else "PrimalDualHybridGradient")
        must_raise = (solver == "ConjugateGradient" and P["proxg"] is not None) or (solver == "GradientMethod" and P["Gop"] is not None)
        kw = step_kwargs(case, P, eff)
        mi = MAX_ITER[eff] or (n + 2)
        if case["smin"] < 0.2:
            mi *= 8
        if eff == "ADMM":
            # ADMM contracts like q = rho c / (rho c + lambda_min(A^H A + lamda I)) per update (c = ||G||^2, 1 without G):
            # the budget must cover q^N <= 1e-3 (objective gap ~ error^2), otherwise slow convergence on an
            # ill-conditioned instance would be reported as a wrong minimiser. Instances needing more than
            # 40000 updates are not run with ADMM (labelled, inconclusive).
            rho = kw.get("rho", 1)
            cG = 1.0 if P["Gm"] is None else max(float(np.linalg.norm(P["Gm"], 2)) ** 2, 1e-12)
            lmin = float(np.linalg.eigvalsh(P["Am"].conj().T @ P["Am"])[0]) + P["lamda"]
            q = rho * cG / (rho * cG + max(lmin, 1e-300))
            need = int(np.ceil(np.log(1e-3) / np.log(q))) if q < 1 else 10 ** 9
            if need > 40000:
                r.label("ADMM:not-run(conditioning)")
                continue
            mi = max(mi, need)
        y0, z0 = P["y"].copy(), None if P["z"] is None else P["z"].copy()
        G0 = None if P["Gm"] is None or case["G"] == "findiff" else P["Gop"].mat.copy()
        x_in = None if P["x0"] is None else _lay(P["x0"].copy(), case.get("layout", "c"))
        np.random.seed(case["seed"] % (2 ** 31))
        state = np.random.get_state()
        try:
            if case.get("positional"):
                # the documented positional order (A, y, x, proxg, lamda, G, g, z, solver, max_iter)
                app = sp.app.LinearLeastSquares(P["Aop"], P["y"], x_in, P["proxg"], P["lamda"], P["Gop"], None, P["z"], solver, mi,
                                                tol=0, show_pbar=False, **kw)
            else:
                app = sp.app.LinearLeastSquares(P["Aop"], P["y"], x=x_in, proxg=P["proxg"], lamda=P["lamda"], G=P["Gop"], z=P["z"],
                                                solver=solver, max_iter=mi, tol=0, show_pbar=False, **kw)
            x = app.run()
        except ValueError as e:
            if must_raise:
                r.label("raises-as-documented")
                continue
            r.fail("raises:%s:ValueError:%s%s" % (eff, _cfg(case), tag), "solver option %s: ValueError: %s" % (name, e))
            continue
        except Exception as e:
            r.fail("raises:%s:%s:%s%s" % (eff, type(e).__name__, _cfg(case), tag), "solver option %s: %s: %s" % (name, type(e).__name__, e))
            continue
        finally:
            np.random.set_state(state)
        if must_raise:
            r.fail("unsupported-combination-accepted:%s" % name, "solver %s with proxg=%s G=%s returned instead of raising"
                   % (solver, case["proxg"], case["G"]))
            continue
        if not np.array_equal(P["y"], y0):
            r.fail("mutates-y:%s:%s" % (eff, _cfg(case)), "the observation array y was modified (max change %.3e)" % np.max(np.abs(P["y"] - y0)))
            P["y"][...] = y0
        if z0 is not None and not np.array_equal(P["z"], z0):
            r.fail("mutates-z:%s" % name, "the bias array z was modified")
            P["z"][...] = z0
        if G0 is not None and not np.array_equal(P["Gop"].mat, G0):
            r.fail("mutates-G:%s" % name, "the array G was built from was modified")
        if x_in is not None and x is not x_in:
            r.fail("solution-not-in-callers-array:%s" % name, "run() returned a different array than the x passed in")
        x = np.asarray(x)
        if x.shape != (n, 1) or not np.all(np.isfinite(x)):
            r.fail("bad-output:%s%s" % (name, tag), "shape %s / non-finite" % (x.shape,))
            continue
        Fx = prob.F(x)
        results[name] = Fx
        if case["proxg"] == "box":
            v = (prob.G @ x.ravel())
            viol = float(np.max(np.maximum(np.abs(v.real) - P["gpar"], 0)))
            if viol > 1e-4 * P["gpar"] / case["mu"]:
                r.fail("infeasible:%s:%s%s" % (eff, _cfg(case), tag), "G x leaves the box by %.3e" % viol)
                continue
            # objective without the indicator for a slightly infeasible point
            Fx = prob.f_smooth(x.ravel())
        gap = Fx - Fstar
        if not gap <= slack and case["smin"] < 0.2 and eff != "ConjugateGradient" and np.isfinite(gap):
            # ill-conditioned class: first-order solvers may simply be slow. One more run with six times the budget decides:
            # a solver that minimises the documented objective gets (much) closer, one that minimises something else does not.
            try:
                np.random.seed(case["seed"] % (2 ** 31))
                x_in2 = None if P["x0"] is None else _lay(P["x0"].copy(), case.get("layout", "c"))
                app2 = sp.app.LinearLeastSquares(P["Aop"], P["y"], x=x_in2, proxg=P["proxg"], lamda=P["lamda"], G=P["Gop"], z=P["z"],
                                                 solver=solver, max_iter=6 * mi, tol=0, show_pbar=False, **kw)
                x2 = np.asarray(app2.run())
                Fx2 = prob.f_smooth(x2.ravel()) if case["proxg"] == "box" else prob.F(x2)
                r.label("ill-conditioned:re-run-with-6x-budget")
                if np.isfinite(Fx2) and Fx2 - Fstar <= slack:
                    gap = Fx2 - Fstar
                    Fx = Fx2
            except Exception:
                pass
        if not gap <= slack:
            r.fail("not-the-minimiser:%s:%s:prox=%s%s" % (eff, _cfg(case), case["proxg"], tag),
                   "F(x_out) = %.9g, F* = %.9g (gap %.3e > %.3e); solver option %s; objectives of the other solvers so far: %s"
                   % (Fx, Fstar, gap, slack, name, {k: round(v, 9) for k, v in results.items()}))
    return True


def _cfg(case):
    """coarse root-cause class of a configuration (finding keys must not enumerate the grid)"""
    f = []
    if case["G"]:
        f.append("G")
    if case["lamda"]:
        f.append("lamda")
    if case["A"] == "identity":
        f.append("A=Identity")
    return ",".join(f) or "plain"


@st.composite
def st_case(draw):
    thorough_cond = draw(st.integers(0, 9)) == 0
    c = {
        "seed": draw(st.integers(0, 10 ** 6)), "n": draw(st.integers(1, 5)), "m": draw(st.integers(1, 6)),
        "cplx": draw(st.booleans()),
        "A": draw(st.sampled_from(["dense", "dense", "identity", "diag", "fft", "comp", "circulant"])),
        "lamda": draw(st.sampled_from([0, 0, 0.25, 1.0])), "z": draw(st.booleans()),
        "proxg": draw(st.sampled_from([None, "l1", "l2", "box"])),
        "G": draw(st.sampled_from([None, None, "square", "wide", "tall", "findiff"])),
        "mu": draw(st.sampled_from([0.125, 0.5, 1.0])),
        "x0": draw(st.booleans()), "given": draw(st.booleans()),
        "which": draw(st.sampled_from(["all", "P", "tau", "sigma"])),
        "stepc": draw(st.sampled_from([1.0, 0.9, 0.5])), "sigma": draw(st.sampled_from([1.0, 0.5, 2.0])),
        "rho": draw(st.sampled_from([1, 0.5, 2.0])), "accelerate": draw(st.booleans()),
        "smin": 1 / 30.0 if thorough_cond and draw(st.booleans()) else 0.25,
        "reuse": draw(st.sampled_from([None, None, None, "up", "up", "down", "same"])),
        # memory layout of the caller's x (when given) and y: contiguous or a view of a larger buffer
        "layout": draw(st.sampled_from(["c", "c", "strided", "column"])),
        # overall magnitude of A (the same problem in other units), exact powers of two
        "ascale": draw(st.sampled_from([1.0] * 5 + [2.0 ** -17, 2.0 ** -17, 2.0 ** 17])),
        "positional": draw(st.sampled_from([False, False, True])),
        # A = MatMul(S, adjoint=True) with S = A^H (the same map, the other constructor form)
        "adjform": draw(st.sampled_from([False, False, False, True])),
    }
    if c["proxg"] == "box":
        c["cplx"] = False
        if c["A"] == "fft":
            c["A"] = "dense"
    if c["A"] == "fft":
        c["cplx"] = True
    if c["lamda"] == 0:
        c["z"] = False
    return c


PARTS = [
    Part("lls", check_case, {"quick": 320, "thorough": 16000}, strategy=st_case, shrink={"quick": False, "thorough": True}),
]
