"""C09 - resize / flip / circshift / downsample / upsample / array_to_blocks /
blocks_to_array move exactly the documented elements.

Oracle: closed index formulas evaluated with explicit Python loops on labelled
arrays (labels 1..N are unique, so one call decides the whole index map);
accumulating functions use small random integers and exact equality.
"""
import itertools

import numpy as np
from hypothesis import strategies as st

from vlib import arrays as A
from vlib.runner import Part, R, make_sweep

PROPERTY = "C09"
RULE = ("Hypothesis-generated (shape, parameters, dtype) per function; inputs are unique labels 1..N "
        "(or small random integers for accumulation) so the index map is decided exactly; "
        "oracle = closed index formula in explicit loops, exact equality. non-trivial: resize pads one axis "
        "and crops another / odd-even mix / explicit shifts; circshift/flip on a strict axes subset or negative "
        "axis; down/upsample factor>1 with shift>0 or untouched trailing axes; blocks with overlap (S<B), gap "
        "(S>B) or stride not dividing N-B, or batch dims. distinct = distinct parameter signature.")
ASSUMPTIONS = [
    "CPU numpy backend only",
    "circshift follows numpy.roll's direction (out[(i+s) mod n] = in[i])",
    "resize is generated with both shifts None or both given and in range; equal ndim for input and output; explicit shifts only when oshape != ishape",
    "Downsample/Upsample linops are built with one factor per axis (the functions also with fewer factors than axes)",
    "array_to_blocks requires blk_shape <= array extent per axis (otherwise the block count is not positive)",
]

DT = ("float64", "complex128", "float32", "complex64", "int64", "int32", "int16", "uint16")


def _arr(spec):
    lay = spec.get("layout", "c")
    if spec["dtype"] == "int64":
        s = dict(spec)
        s["dtype"] = "float64"
        return A.relayout(A.arr(s).astype(np.int64), lay)
    return A.relayout(A.arr(spec), lay)


LAY = st.sampled_from(A.LAYOUTS)


def _eq(r, key, got, want, extra=""):
    got = np.asarray(got)
    if got.shape != want.shape:
        r.fail(key + ":shape", "shape %s, expected %s %s" % (got.shape, want.shape, extra))
        return False
    if got.dtype != want.dtype:
        r.fail(key + ":dtype", "dtype %s, expected %s %s" % (got.dtype, want.dtype, extra))
        return False
    if not np.array_equal(got, want):
        bad = np.argwhere(got != want)
        r.fail(key + ":values", "%d elements differ, first at %s: got %s want %s %s"
               % (len(bad), bad[0].tolist(), got[tuple(bad[0])], want[tuple(bad[0])], extra))
        return False
    return True


def _call(r, key, fn):
    try:
        return True, r.twice(key, fn)
    except Exception as e:  # the property says these inputs are computed, not rejected
        r.fail(key + ":raises", "%s: %s" % (type(e).__name__, e))
        return False, None


# ------------------------------------------------------------------ resize


@st.composite
def st_resize(draw):
    ish = draw(A.shapes(1, 3, 1, 7, 200))
    if draw(st.sampled_from([False] * 14 + [True])):
        # one LONG axis (far beyond the small sizes used elsewhere), optionally next to a short one
        ish = [draw(st.integers(65, 400))] + ([draw(st.integers(1, 3))] if draw(st.booleans()) else [])
        ish = list(draw(st.permutations(ish)))
    osh = [draw(st.integers(1, 8)) if i <= 8 else draw(st.one_of(st.integers(1, 8), st.integers(i - 3, i + 3))) for i in ish]
    # equal shapes with explicit shifts are outside the property's quantifier ("output shapes larger/
    # smaller per axis"): there resize is a plain reshape that ignores the shifts (DESIGN.md section 7)
    explicit = draw(st.integers(0, 3)) == 0 and ish != osh
    ishift = oshift = None
    if explicit:
        ishift = [draw(st.integers(0, i - 1)) for i in ish]
        oshift = [draw(st.integers(0, o - 1)) for o in osh]
    dt = draw(st.sampled_from(DT))
    return {"f": "resize", "x": {"k": "lab", "shape": ish, "dtype": dt, "layout": draw(LAY)}, "oshape": osh,
            "ishift": ishift, "oshift": oshift, "as_tuple": draw(st.booleans())}


def ref_resize(x, oshape, ishift, oshift):
    out = np.zeros(oshape, x.dtype)
    ish = x.shape
    if ishift is None:
        # index n//2 of the input is aligned with index m//2 of the output
        for idx in np.ndindex(*ish):
            o = tuple(m // 2 + (i - n // 2) for i, n, m in zip(idx, ish, oshape))
            if all(0 <= oo < m for oo, m in zip(o, oshape)):
                out[o] = x[idx]
    else:
        cp = [min(n - si, m - so) for n, si, m, so in zip(ish, ishift, oshape, oshift)]
        for t in np.ndindex(*cp):
            out[tuple(so + tt for so, tt in zip(oshift, t))] = x[tuple(si + tt for si, tt in zip(ishift, t))]
    return out


def check_resize(case):
    import sigpy as sp
    r = R()
    x = _arr(case["x"])
    osh, ishift, oshift = case["oshape"], case["ishift"], case["oshift"]
    want = ref_resize(x, osh, ishift, oshift)
    cast = tuple if case["as_tuple"] else list
    x0 = x.copy()
    ok, got = _call(r, "resize", lambda: sp.resize(x, cast(osh), None if ishift is None else cast(ishift),
                                                   None if oshift is None else cast(oshift)))
    if ok:
        _eq(r, "resize", got, want)
    r.check(np.array_equal(x, x0), "resize:mutates-input")
    # linop wrapper
    ok, op = _call(r, "Resize.ctor", lambda: sp.linop.Resize(osh, list(x.shape), ishift=ishift, oshift=oshift))
    if ok:
        r.check(list(op.oshape) == list(osh) and list(op.ishape) == list(x.shape), "Resize:advertised-shape",
                "%s %s" % (op.oshape, op.ishape))
        if x.dtype.kind != "i":
            ok, got = _call(r, "Resize.apply", lambda: op(x))
            if ok:
                _eq(r, "Resize.apply", got, want)
    pads = [m > n for n, m in zip(x.shape, osh)]
    crops = [m < n for n, m in zip(x.shape, osh)]
    par = {(n % 2, m % 2) for n, m in zip(x.shape, osh) if n != m}
    r.label("explicit-shift" if ishift is not None else "centred")
    if any(pads) and any(crops):
        r.label("pad+crop")
    if len(par) > 1 or (1, 0) in par or (0, 1) in par:
        r.label("parity-mix")
    r.nontrivial = (any(pads) and any(crops)) or ((1, 0) in par or (0, 1) in par) or ishift is not None
    r.sig = "resize|%s|%s|%s|%s|%s" % (list(x.shape), osh, ishift, oshift, case["x"]["dtype"])
    return r


# ------------------------------------------------------------------ flip / circshift


@st.composite
def st_flip(draw):
    sh = draw(A.shapes(1, 4, 1, 5, 200))
    axes = draw(A.axes_subset(len(sh), allow_empty=True))
    return {"f": "flip", "x": {"k": "lab", "shape": sh, "dtype": draw(st.sampled_from(DT)), "layout": draw(LAY)}, "axes": axes}


def check_flip(case):
    import sigpy as sp
    r = R()
    x = _arr(case["x"])
    axes = case["axes"]
    nd = x.ndim
    ax = set(range(nd)) if axes is None else {a % nd for a in axes}
    want = np.zeros_like(x)
    for idx in np.ndindex(*x.shape):
        j = tuple(n - 1 - i if d in ax else i for d, (i, n) in enumerate(zip(idx, x.shape)))
        want[j] = x[idx]
    x0 = x.copy()
    ok, got = _call(r, "flip", lambda: sp.flip(x, axes))
    if ok:
        _eq(r, "flip", np.array(got), want)
    r.check(np.array_equal(x, x0), "flip:mutates-input")
    if x.dtype.kind != "i":
        ok, op = _call(r, "Flip.ctor", lambda: sp.linop.Flip(list(x.shape), axes=axes))
        if ok:
            r.check(list(op.oshape) == list(x.shape) == list(op.ishape), "Flip:advertised-shape")
            ok, got = _call(r, "Flip.apply", lambda: op(x))
            if ok:
                _eq(r, "Flip.apply", np.array(got), want)
    neg = axes is not None and any(a < 0 for a in axes)
    if neg:
        r.label("negative-axis")
    if axes is not None and len(ax) < nd:
        r.label("strict-subset")
    r.nontrivial = (axes is not None and len(ax) < nd) or neg
    r.sig = "flip|%s|%s|%s" % (list(x.shape), axes, case["x"]["dtype"])
    return r


@st.composite
def st_circshift(draw):
    sh = draw(A.shapes(1, 4, 1, 5, 200))
    axes = draw(A.axes_subset(len(sh), allow_empty=True))
    k = len(sh) if axes is None else len(axes)
    shifts = [draw(st.integers(-12, 12)) for _ in range(k)]
    return {"f": "circshift", "x": {"k": "lab", "shape": sh, "dtype": draw(st.sampled_from(DT)), "layout": draw(LAY)},
            "axes": axes, "shifts": shifts}


def check_circshift(case):
    import sigpy as sp
    r = R()
    x = _arr(case["x"])
    axes, shifts = case["axes"], case["shifts"]
    nd = x.ndim
    axl = list(range(nd)) if axes is None else [a % nd for a in axes]
    tot = [0] * nd
    for a, s in zip(axl, shifts):
        tot[a] += s
    want = np.zeros_like(x)
    for idx in np.ndindex(*x.shape):
        j = tuple((i + s) % n for i, s, n in zip(idx, tot, x.shape))
        want[j] = x[idx]
    x0 = x.copy()
    ok, got = _call(r, "circshift", lambda: sp.circshift(x, shifts, axes))
    if ok:
        _eq(r, "circshift", got, want)
    r.check(np.array_equal(x, x0), "circshift:mutates-input")
    if x.dtype.kind != "i":
        ok, op = _call(r, "Circshift.ctor", lambda: sp.linop.Circshift(list(x.shape), shifts, axes=axes))
        if ok:
            r.check(list(op.oshape) == list(x.shape) == list(op.ishape), "Circshift:advertised-shape")
            ok, got = _call(r, "Circshift.apply", lambda: op(x))
            if ok:
                _eq(r, "Circshift.apply", got, want)
    neg = axes is not None and any(a < 0 for a in axes)
    wrap = any(abs(s) >= n for s, n in zip(tot, x.shape))
    if neg:
        r.label("negative-axis")
    if wrap:
        r.label("multi-wrap")
    if any(s < 0 for s in shifts):
        r.label("negative-shift")
    r.nontrivial = any(s % n for s, n in zip(tot, x.shape)) and (neg or wrap or (axes is not None and len(axl) < nd)
                                                               or any(s < 0 for s in shifts))
    r.sig = "circshift|%s|%s|%s|%s" % (list(x.shape), axes, shifts, case["x"]["dtype"])
    return r


# ------------------------------------------------------------------ down / up sample


@st.composite
def st_downsample(draw):
    sh = draw(A.shapes(1, 4, 1, 7, 300))
    if draw(st.sampled_from([False] * 14 + [True])):
        # one LONG axis (far beyond the small sizes used elsewhere), optionally next to a short one
        sh = [draw(st.integers(65, 400))] + ([draw(st.integers(1, 3))] if draw(st.booleans()) else [])
        sh = list(draw(st.permutations(sh)))
    k = draw(st.integers(1, len(sh)))
    factors = [draw(st.integers(1, 4)) for _ in range(k)]
    shift = None
    if draw(st.booleans()):
        # any in-range start index ("takes every f-th element from the shift"): also shift >= factor, and
        # factor 1 with a non-zero shift
        shift = [draw(st.integers(0, (n if draw(st.booleans()) else min(f, n)) - 1)) for f, n in zip(factors, sh)]
    return {"f": "downsample", "x": {"k": "lab", "shape": sh, "dtype": draw(st.sampled_from(DT)), "layout": draw(LAY)},
            "factors": factors, "shift": shift}


def _down_shape(sh, factors, shift):
    out = list(sh)
    for d, f in enumerate(factors):
        s = 0 if shift is None else shift[d]
        out[d] = len(range(s, sh[d], f))
    return out


def check_downsample(case):
    import sigpy as sp
    r = R()
    x = _arr(case["x"])
    factors, shift = case["factors"], case["shift"]
    osh = _down_shape(x.shape, factors, shift)
    sh0 = [0] * len(factors) if shift is None else shift
    want = np.zeros(osh, x.dtype)
    for j in np.ndindex(*osh):
        i = tuple(sh0[d] + jj * factors[d] if d < len(factors) else jj for d, jj in enumerate(j))
        want[j] = x[i]
    x0 = x.copy()
    ok, got = _call(r, "downsample", lambda: sp.downsample(x, factors, shift))
    if ok:
        _eq(r, "downsample", np.array(got), want)
    r.check(np.array_equal(x, x0), "downsample:mutates-input")
    # upsample is the scatter back into zeros
    up = np.zeros(x.shape, x.dtype)
    for j in np.ndindex(*osh):
        i = tuple(sh0[d] + jj * factors[d] if d < len(factors) else jj for d, jj in enumerate(j))
        up[i] = want[j]
    ok, got = _call(r, "upsample", lambda: sp.upsample(want, list(x.shape), factors, shift))
    if ok:
        _eq(r, "upsample", got, up)
    # the Linop wrappers take one factor per axis (their shape formula zips ishape with factors)
    if x.dtype.kind != "i" and len(factors) == x.ndim:
        ok, op = _call(r, "Downsample.ctor", lambda: sp.linop.Downsample(list(x.shape), factors, shift=shift))
        if ok:
            r.check(list(op.oshape) == osh and list(op.ishape) == list(x.shape), "Downsample:advertised-shape",
                    "advertises %s for ishape %s factors %s shift %s; slicing gives %s"
                    % (op.oshape, list(x.shape), factors, shift, osh))
            ok, got = _call(r, "Downsample.apply", lambda: op(x))
            if ok:
                _eq(r, "Downsample.apply", np.array(got), want)
        ok, op = _call(r, "Upsample.ctor", lambda: sp.linop.Upsample(list(x.shape), factors, shift=shift))
        if ok:
            r.check(list(op.ishape) == osh and list(op.oshape) == list(x.shape), "Upsample:advertised-shape",
                    "advertises ishape %s for oshape %s factors %s shift %s; expected %s"
                    % (op.ishape, list(x.shape), factors, shift, osh))
            ok, got = _call(r, "Upsample.apply", lambda: op(want))
            if ok:
                _eq(r, "Upsample.apply", got, up)
    big = any(f > 1 for f in factors)
    if len(factors) < x.ndim:
        r.label("trailing-untouched")
    if shift is not None and any(shift):
        r.label("shifted")
    if any((n - (0 if shift is None else shift[d])) % f for d, (n, f) in enumerate(zip(x.shape, factors))):
        r.label("non-dividing")
    r.nontrivial = big and ((shift is not None and any(shift)) or len(factors) < x.ndim)
    r.sig = "down|%s|%s|%s|%s" % (list(x.shape), factors, shift, case["x"]["dtype"])
    return r


# ------------------------------------------------------------------ blocks


@st.composite
def st_blocks(draw):
    D = draw(st.integers(1, 3))
    nb = draw(st.integers(0, 2))
    batch = [draw(st.integers(1, 3)) for _ in range(nb)]
    hi = {1: 12, 2: 7, 3: 5}[D]
    N = [draw(st.integers(1, hi)) for _ in range(D)]
    B = [draw(st.integers(1, n)) for n in N]
    S = [draw(st.integers(1, b + 2)) for b in B]
    dt = draw(st.sampled_from(("float64", "complex128", "float32", "complex64")))
    return {"f": "blocks", "batch": batch, "N": N, "B": B, "S": S, "dtype": dt, "seed": draw(A.seeds), "layout": draw(LAY)}


def check_blocks(case):
    import sigpy as sp
    r = R()
    batch, N, B, S, dt = case["batch"], case["N"], case["B"], case["S"], case["dtype"]
    D = len(N)
    x = A.relayout(A.arr({"k": "lab", "shape": batch + N, "dtype": dt}), case.get("layout", "c"))
    nblk = [(n - b + s) // s for n, b, s in zip(N, B, S)]
    want = np.zeros(batch + nblk + B, x.dtype)
    for bi in np.ndindex(*batch):
        for nb in np.ndindex(*nblk):
            for o in np.ndindex(*B):
                src = tuple(k * s + oo for k, s, oo in zip(nb, S, o))
                want[bi + nb + o] = x[bi + src]
    x0 = x.copy()
    ok, got = _call(r, "array_to_blocks", lambda: sp.array_to_blocks(x, B, S))
    if ok:
        _eq(r, "array_to_blocks", got, want)
    r.check(np.array_equal(x, x0), "array_to_blocks:mutates-input")
    ok, op = _call(r, "ArrayToBlocks.ctor", lambda: sp.linop.ArrayToBlocks(batch + N, B, S))
    if ok:
        r.check(list(op.oshape) == batch + nblk + B and list(op.ishape) == batch + N,
                "ArrayToBlocks:advertised-shape", "%s" % (op.oshape,))
        ok, got = _call(r, "ArrayToBlocks.apply", lambda: op(x))
        if ok:
            _eq(r, "ArrayToBlocks.apply", got, want)
    # blocks_to_array: random small integers, accumulation is exact
    blk = A.relayout(A.arr({"k": "ri", "shape": batch + nblk + B, "dtype": dt, "seed": case["seed"], "lo": -9, "hi": 9}),
                     case.get("layout", "c"))
    acc = np.zeros(batch + N, blk.dtype)
    for bi in np.ndindex(*batch):
        for nb in np.ndindex(*nblk):
            for o in np.ndindex(*B):
                dst = tuple(k * s + oo for k, s, oo in zip(nb, S, o))
                acc[bi + dst] += blk[bi + nb + o]
    b0 = blk.copy()
    ok, got = _call(r, "blocks_to_array", lambda: sp.blocks_to_array(blk, batch + N, B, S))
    if ok:
        _eq(r, "blocks_to_array", got, acc)
    r.check(np.array_equal(blk, b0), "blocks_to_array:mutates-input")
    ok, op = _call(r, "BlocksToArray.ctor", lambda: sp.linop.BlocksToArray(batch + N, B, S))
    if ok:
        r.check(list(op.ishape) == batch + nblk + B and list(op.oshape) == batch + N,
                "BlocksToArray:advertised-shape", "%s" % (op.ishape,))
        ok, got = _call(r, "BlocksToArray.apply", lambda: op(blk))
        if ok:
            _eq(r, "BlocksToArray.apply", got, acc)
    ov = any(s < b for s, b in zip(S, B))
    gap = any(s > b for s, b in zip(S, B))
    nd = any((n - b) % s for n, b, s in zip(N, B, S))
    for nm, c in (("overlap", ov), ("gap", gap), ("non-dividing", nd), ("batch", bool(batch)), ("D%d" % D, True)):
        if c:
            r.label(nm)
    r.nontrivial = ov or gap or nd or bool(batch)
    r.sig = "blocks|%s|%s|%s|%s|%s" % (batch, N, B, S, dt)
    return r


def sweep_dispatch(case):
    return {"resize": check_resize, "downsample": check_downsample, "blocks": check_blocks, "circshift": check_circshift}[case["f"]](case)


def sweep_configs():
    """finite sub-domains enumerated completely: centred 1-D resize n -> m for n, m in 1..24; 2-D resize pairs over
    {1..5}^2 -> {1..5}^2 (pad one axis, crop the other, all parities); 1-D blocks N <= 14, B <= N, S <= B + 2; 1-D
    down/upsample n <= 14, factor <= 4, every shift < n; 1-D circshift n <= 8, shift in -9..9."""
    out = []
    for n in range(1, 25):
        for m in range(1, 25):
            out.append({"f": "resize", "x": {"k": "lab", "shape": [n], "dtype": "float64"}, "oshape": [m], "ishift": None,
                        "oshift": None, "as_tuple": False})
    for a in range(1, 6):
        for b in range(1, 6):
            for c in range(1, 6):
                for d in range(1, 6):
                    if (c - a) * (d - b) < 0:
                        out.append({"f": "resize", "x": {"k": "lab", "shape": [a, b], "dtype": "complex128"}, "oshape": [c, d],
                                    "ishift": None, "oshift": None, "as_tuple": True})
    for N in range(1, 15):
        for B in range(1, N + 1):
            for S in range(1, B + 3):
                out.append({"f": "blocks", "batch": [], "N": [N], "B": [B], "S": [S], "dtype": "float64", "seed": N * 100 + B * 10 + S})
    for n in range(1, 15):
        for f in range(1, 5):
            for sh in range(0, n):
                out.append({"f": "downsample", "x": {"k": "lab", "shape": [n], "dtype": "float64"}, "factors": [f],
                            "shift": [sh] if sh else None})
    for n in range(1, 9):
        for sft in range(-9, 10):
            out.append({"f": "circshift", "x": {"k": "lab", "shape": [n], "dtype": "float64"}, "axes": None, "shifts": [sft]})
    return out


def extra_coverage(tier):
    return {"exhaustive_subdomains": ["resize: all centred 1-D (n -> m), n, m in 1..24, and all 2-D pad+crop pairs over 1..5; blocks 1-D "
                                      "N <= 14 x B <= N x S <= B+2; down/upsample n <= 14 x f <= 4 x shift < n; circshift n <= 8 x "
                                      "shift -9..9 (%d configurations, part 'lengths')" % len(sweep_configs())]}


PARTS = [
    make_sweep("lengths", sweep_configs, sweep_dispatch),
    Part("resize", check_resize, {"quick": 32000, "thorough": 160000}, strategy=st_resize),
    Part("flip", check_flip, {"quick": 10000, "thorough": 40000}, strategy=st_flip),
    Part("circshift", check_circshift, {"quick": 14000, "thorough": 60000}, strategy=st_circshift),
    Part("downup", check_downsample, {"quick": 20000, "thorough": 100000}, strategy=st_downsample),
    Part("blocks", check_blocks, {"quick": 28000, "thorough": 150000}, strategy=st_blocks),
]

# thorough tier: the same Hypothesis tests driven by atheris/libFuzzer (coverage on sigpy.util/linop/block)
FUZZ = {"parts": ["resize", "downup", "blocks"], "runs": 320000}
