"""C05 - fft / ifft are the centred (or plain) DFT along the requested axes, mutually inverse,
unitary for norm='ortho', precision preserving for complex inputs; FFT/IFFT linops agree.

Oracle: explicit per-axis DFT matrices F[k, j] = exp(-+2 pi i (k-c)(j-c)/n) * s (c = n//2 when centred,
0 otherwise; phases reduced mod n in integer arithmetic) applied with tensordot in complex128 to the
harness's own centre pad/crop of the input (out[m//2 + t] = in[n//2 + t]).  numpy.fft is never used by
the oracle.
"""
import numpy as np
from hypothesis import strategies as st

from vlib import arrays as A
from vlib.runner import Part, R, make_sweep

PROPERTY = "C05"
RULE = ("Hypothesis draws shape (1-4 dims, lengths 1-9, axis order permuted), axes (None or a non-empty subset in any "
        "order with negative aliases, list or tuple), center, norm in {'ortho', None}, dtype in {c128, c64, f64, f32}, "
        "and (centred only) an oshape that is larger/smaller/equal per axis on ALL axes; the array is dyadic / gaussian / "
        "special. Each case calls both fft and ifft. Oracle = explicit per-axis DFT matrices (origin n//2 centred, 0 "
        "otherwise; scale 1/sqrt(n) for 'ortho', numpy convention 1 resp. 1/n for None) applied by tensordot in complex128 "
        "after the harness's own centre pad/crop; error measured in the 2-norm against ||resized x|| * operator norm. "
        "Also: ifft(fft(x)) = x = fft(ifft(x)), norm preservation ('ortho'), <fft x, y> = N^a <x, ifft y>, output dtype, "
        "FFT/IFFT linops (shapes, apply, .H). non-trivial: (a transformed axis has odd length > 1 and the axes are a "
        "strict subset) or oshape != shape or center=False or norm=None. distinct = distinct "
        "(shape, axes, center, norm, oshape, dtype).")
ASSUMPTIONS = [
    "CPU numpy backend only",
    "oshape is generated only with center=True (the property's scope) and with the same number of dims as the input",
    "oshape semantics as implemented and stated by the property: the input is centre-padded/cropped to oshape over ALL its "
    "axes (also the non-transformed ones), then transformed along `axes`",
    "norm=None follows the numpy convention the docstrings refer to (fft unscaled, ifft scaled by 1/N, N = product of the "
    "transformed output lengths)",
    "axes hold no repeated axis (after normalising negative aliases); the empty subset (identity) is generated; lengths >= 1 (no empty arrays)",
    "real inputs: the docstrings document no result precision, so only 'result is complex' and single-precision accuracy "
    "are asserted (the code casts real inputs, float64 included, to complex64)",
    "tolerances (2-norm of the error / (||resized x|| * operator norm)): 1e-12 for complex128, 2e-5 for complex64 and real "
    "inputs; round trip / norm / adjoint identities: 1e-11 resp. 1e-4 of the operand norms",
    "linops exist only for norm='ortho' without oshape; they are compared there",
]

DT = ("complex128", "complex64", "float64", "float32")


# ------------------------------------------------------------------ generator


@st.composite
def st_case(draw):
    sh = draw(A.shapes(1, 4, 1, 9, 1500))
    if draw(st.sampled_from([False] * 14 + [True])):
        # one LONG axis (far beyond the small sizes used elsewhere), optionally next to a short one
        sh = [draw(st.integers(65, 600))] + ([draw(st.integers(1, 3))] if draw(st.booleans()) else [])
        sh = list(draw(st.permutations(sh)))
    sh = list(draw(st.permutations(sh)))
    nd = len(sh)
    dt = draw(st.sampled_from(DT))
    axes = draw(A.axes_subset(nd))
    if draw(st.sampled_from([False] * 19 + [True])):
        axes = []           # the empty subset: the DFT over no axes is the identity (after the centre pad/crop)
    center = draw(st.integers(0, 3)) > 0
    norm = draw(st.sampled_from(["ortho", None]))
    oshape = None
    if center and draw(st.integers(0, 2)) > 0:
        oshape = []
        tot = 1
        for n in sh:
            mode = draw(st.sampled_from("elsr"))
            if mode == "l":
                o = n + draw(st.integers(1, 3))
            elif mode == "s" and n > 1:
                o = draw(st.integers(1, n - 1))
            elif mode == "r":
                o = draw(st.integers(1, 11))
            else:
                o = n
            o = max(1, min(o, 3000 // tot))
            tot *= o
            oshape.append(o)
    x = draw(A.arrays(sh, dt))
    return {"x": x, "axes": axes, "axes_tuple": draw(st.booleans()), "center": center, "norm": norm,
            "oshape": oshape, "oshape_tuple": draw(st.booleans()), "yseed": draw(A.seeds),
            "layout": draw(st.sampled_from(A.LAYOUTS)), "positional": draw(st.sampled_from([False, False, True])),
            "oshape_array": draw(st.sampled_from([False, False, False, True]))}


# ------------------------------------------------------------------ oracle


def ref_resize(x, oshape):
    """Centre pad/crop: out[m//2 + t] = in[n//2 + t] wherever both indices exist."""
    out = np.zeros(oshape, x.dtype)
    src, dst = [], []
    for n, m in zip(x.shape, oshape):
        lo = max(-(n // 2), -(m // 2))
        hi = min(n - n // 2, m - m // 2)  # exclusive bound on t
        src.append(slice(n // 2 + lo, n // 2 + hi))
        dst.append(slice(m // 2 + lo, m // 2 + hi))
    out[tuple(dst)] = x[tuple(src)]
    return out


def dft_matrix(n, center, inverse, norm):
    c = n // 2 if center else 0
    k = np.arange(n) - c
    ph = np.mod(np.outer(k, k), n)  # exact integer phase index
    F = np.exp((2j if inverse else -2j) * np.pi * ph / n)
    if norm == "ortho":
        F = F / np.sqrt(n)
    elif inverse:
        F = F / n
    return F


def ref_dft(xr, axn, center, inverse, norm):
    y = xr.astype(np.complex128)
    for a in axn:
        F = dft_matrix(y.shape[a], center, inverse, norm)
        y = np.moveaxis(np.tensordot(F, y, axes=([1], [a])), 0, a)
    return y


def _opnorm(shape, axn, inverse, norm):
    N = 1
    for a in axn:
        N *= shape[a]
    if norm == "ortho":
        return 1.0
    return N ** -0.5 if inverse else N ** 0.5


def _call(r, key, fn):
    try:
        return True, r.twice(key, fn)
    except Exception as e:  # every generated input is inside the property's domain
        r.fail(key + ":raises", "%s: %s" % (type(e).__name__, e))
        return False, None


def _nrm(a):
    return float(np.linalg.norm(np.asarray(a, dtype=np.complex128).ravel()))


def _cmp(r, key, got, want, scale, rel, want_dtype, extra):
    """shape, dtype, values (2-norm error <= rel * scale)."""
    got = np.asarray(got)
    ok = True
    if tuple(got.shape) != tuple(want.shape):
        r.fail(key.split(":")[0] + ":shape", "shape %s, expected %s; %s" % (got.shape, want.shape, extra))
        return False
    if want_dtype is not None:
        if got.dtype != want_dtype:
            ok = False
            r.fail(key.split(":")[0] + ":dtype", "result dtype %s, input dtype %s; %s" % (got.dtype, want_dtype, extra))
    elif got.dtype.kind != "c":
        ok = False
        r.fail(key.split(":")[0] + ":dtype", "result of a real input is not complex: %s; %s" % (got.dtype, extra))
    err = _nrm(got.astype(np.complex128) - want)
    if not (err <= rel * scale):  # also catches nan
        ok = False
        r.fail(key, "||got - DFT matrix oracle||_2 = %.3e > %.1e * %.3e (||x|| * operator norm); %s"
               % (err, rel, scale, extra))
    return ok


def check_case(case):
    import sigpy as sp
    r = R()
    # the caller's array in the generated memory layout (C, Fortran, strided view, negative stride): same values
    x = A.relayout(A.arr(case["x"]), case.get("layout", "c"))
    if case.get("layout", "c") != "c":
        r.label("layout:" + case["layout"])
    nd = x.ndim
    sh = list(x.shape)
    axes, center, norm, oshape = case["axes"], case["center"], case["norm"], case["oshape"]
    axn = list(range(nd)) if axes is None else [a % nd for a in axes]
    ax_arg = None if axes is None else (tuple(axes) if case["axes_tuple"] else list(axes))
    osh = list(sh) if oshape is None else list(oshape)
    os_arg = None if oshape is None else (tuple(oshape) if case["oshape_tuple"] else list(oshape))
    if oshape is not None and case.get("oshape_array"):
        os_arg = np.array(oshape)          # the docstring documents oshape as "None or array of ints"
    resized = osh != sh
    single = x.dtype in (np.dtype("complex64"), np.dtype("float32"), np.dtype("float64"))
    rel = 2e-5 if single else 1e-12
    rel2 = 1e-4 if single else 1e-11
    want_dtype = x.dtype if x.dtype.kind == "c" else None
    cfg = "shape=%s axes=%s center=%s norm=%r oshape=%s dtype=%s" % (sh, axes, center, norm, oshape, x.dtype)
    ck = "center" if center else "nocenter"

    xr = ref_resize(x.astype(np.complex128), osh)
    nx = _nrm(xr)
    N = 1
    for a in axn:
        N *= osh[a]

    outs = {}
    for name, fn, inverse in (("fft", sp.fft, False), ("ifft", sp.ifft, True)):
        want = ref_dft(xr, axn, center, inverse, norm)
        if case.get("positional"):
            # the documented positional order fft(input, oshape, axes, center, norm)
            ok, got = _call(r, name, lambda: fn(x, os_arg, ax_arg, center, norm))
        else:
            ok, got = _call(r, name, lambda: fn(x, oshape=os_arg, axes=ax_arg, center=center, norm=norm))
        if ok:
            key = "%s:values:%s%s" % (name, ck, ":oshape" if resized else "")
            _cmp(r, key, got, want, nx * _opnorm(osh, axn, inverse, norm), rel, want_dtype, cfg)
            outs[name] = np.asarray(got)
        outs[name + ":want"] = want

    if not resized:
        nrm_x = _nrm(x)
        # mutually inverse (both norms: the numpy convention makes ifft the inverse for None too)
        for a, b, fa, fb in (("fft", "ifft", sp.fft, sp.ifft), ("ifft", "fft", sp.ifft, sp.fft)):
            if a in outs and outs[a].shape == x.shape:
                ok, back = _call(r, "roundtrip", lambda: fb(outs[a], axes=ax_arg, center=center, norm=norm))
                if ok:
                    back = np.asarray(back)
                    if back.shape != x.shape:
                        r.fail("roundtrip:shape", "%s(%s(x)) has shape %s; %s" % (b, a, back.shape, cfg))
                    else:
                        err = _nrm(back.astype(np.complex128) - x)
                        r.check(err <= rel2 * nrm_x, "roundtrip:%s-of-%s:%s" % (b, a, ck),
                                "||%s(%s(x)) - x|| = %.3e > %.1e * ||x|| = %.3e; %s" % (b, a, err, rel2, nrm_x, cfg))
                    if want_dtype is not None:
                        r.check(back.dtype == want_dtype, "roundtrip:dtype", "%s -> %s; %s" % (x.dtype, back.dtype, cfg))
        # unitary for 'ortho'
        if norm == "ortho":
            for a in ("fft", "ifft"):
                if a in outs:
                    ny = _nrm(outs[a])
                    r.check(abs(ny - nrm_x) <= rel2 * nrm_x, "%s:norm-preserved:%s" % (a, ck),
                            "||%s(x)|| = %.9g, ||x|| = %.9g; %s" % (a, ny, nrm_x, cfg))
        # ifft is the (scaled) conjugate transpose of fft: <fft x, y> = N^a <x, ifft y>, a = 0 ('ortho') or 1 (None)
        y = A.arr({"k": "g", "shape": sh, "dtype": str(x.dtype), "seed": case["yseed"]})
        if "fft" in outs and outs["fft"].shape == x.shape:
            ok, iy = _call(r, "ifft", lambda: sp.ifft(y, axes=ax_arg, center=center, norm=norm))
            if ok and np.asarray(iy).shape == x.shape:
                lhs = np.vdot(y.astype(np.complex128), outs["fft"].astype(np.complex128))
                rhs = np.vdot(np.asarray(iy).astype(np.complex128), x.astype(np.complex128))
                fac = 1.0 if norm == "ortho" else float(N)
                sc = nrm_x * _nrm(y) * (1.0 if norm == "ortho" else N ** 0.5)
                r.check(abs(lhs - fac * rhs) <= rel2 * sc, "ifft:adjoint-of-fft:%s" % ck,
                        "<y, fft x> = %s but %g * <ifft y, x> = %s (scale %.3e); %s" % (lhs, fac, fac * rhs, sc, cfg))

    # linops: default 'ortho' scaling, no oshape
    lin = norm == "ortho" and oshape is None
    if lin:
        for cname, fwd, bwd in (("FFT", "fft", "ifft"), ("IFFT", "ifft", "fft")):
            cls = getattr(sp.linop, cname)
            ok, op = _call(r, cname + ".ctor", lambda: cls(list(sh) if not case["oshape_tuple"] else tuple(sh),
                                                           axes=ax_arg, center=center))
            if not ok:
                continue
            r.check(list(op.ishape) == sh and list(op.oshape) == sh, cname + ":advertised-shape",
                    "ishape %s oshape %s for %s" % (op.ishape, op.oshape, sh))
            ok, got = _call(r, cname + ".apply", lambda: op(x))
            if ok:
                _cmp(r, "%s.apply:values:%s" % (cname, ck), got, outs[fwd + ":want"], nx, rel, want_dtype, cfg)
            ok, opH = _call(r, cname + ".H", lambda: op.H)
            if ok:
                r.check(list(opH.ishape) == sh and list(opH.oshape) == sh, cname + ".H:advertised-shape",
                        "ishape %s oshape %s for %s" % (opH.ishape, opH.oshape, sh))
                ok, got = _call(r, cname + ".H.apply", lambda: opH(x))
                if ok:
                    _cmp(r, "%s.H.apply:values:%s" % (cname, ck), got, outs[bwd + ":want"], nx, rel, want_dtype, cfg)

    # ---- classes
    if axes is not None and len(axes) == 0:
        r.label("axes:empty")
    strict = len(set(axn)) < nd
    odd_t = any(osh[a] % 2 == 1 and osh[a] > 1 for a in axn)
    r.label("center" if center else "nocenter", "norm=%s" % norm, str(x.dtype), "ndim%d" % nd, "x:" + case["x"]["k"])
    r.label("axes:none" if axes is None else ("axes:strict-subset" if strict else "axes:all-explicit"))
    if axes is not None:
        if any(a < 0 for a in axes):
            r.label("axes:negative")
        if list(axes) != sorted(axes) or axn != sorted(axn):
            r.label("axes:unsorted")
    if odd_t:
        r.label("odd-transformed-axis")
    if odd_t and strict:
        r.label("odd-transformed+strict-subset")
    if any(osh[a] % 2 == 0 for a in axn) and odd_t:
        r.label("odd+even-transformed")
    if any(osh[a] == 1 for a in axn):
        r.label("length-1-transformed")
    if oshape is None:
        r.label("oshape:none")
    else:
        pads = [m > n for n, m in zip(sh, osh)]
        crops = [m < n for n, m in zip(sh, osh)]
        par = any((n - m) % 2 for n, m in zip(sh, osh))
        r.label("oshape:equal" if not resized else "oshape:pad+crop" if any(pads) and any(crops)
                else "oshape:pad" if any(pads) else "oshape:crop")
        if par:
            r.label("oshape:parity-change")
        if any(osh[d] != sh[d] for d in range(nd) if d not in axn):
            r.label("oshape:resizes-untransformed-axis")
    if lin:
        r.label("linops-compared")
    r.nontrivial = bool((odd_t and strict) or resized or not center or norm is None)
    r.sig = "%s|%s|%s|%s|%s|%s" % (sh, axes, center, norm, oshape, x.dtype)
    return r


def sweep_configs():
    """finite sub-domain enumerated completely: every 1-D length 1..64 x center x norm; every centred (n -> m) resize
    pair 1..24 x norm; 2-D [n,3] / [3,n] with a single (also negative) axis for n = 1..24."""
    out = []

    def case(shape, axes, center, norm, oshape, dtype="complex128"):
        return {"x": {"k": "g", "shape": shape, "dtype": dtype, "seed": 1000 + 7 * sum(shape)}, "axes": axes, "center": center,
                "norm": norm, "oshape": oshape, "axes_tuple": False, "oshape_tuple": False, "yseed": 5 + sum(shape)}
    for n in range(1, 65):
        for center in (True, False):
            for norm in ("ortho", None):
                out.append(case([n], None, center, norm, None))
    for n in range(1, 25):
        for m in range(1, 25):
            if m != n:
                for norm in ("ortho", None):
                    out.append(case([n], None, True, norm, [m]))
        for center in (True, False):
            out.append(case([n, 3], [0], center, "ortho", None))
            out.append(case([3, n], [-1], center, "ortho", None, "complex64"))
            out.append(case([n, 3], [-2], center, None, None))
    return out


def extra_coverage(tier):
    return {"exhaustive_subdomains": ["fft/ifft: all 1-D lengths 1..64 x center x norm, all centred resize pairs (n -> m), n, m in "
                                      "1..24, x norm, and 2-D single-axis transforms for n in 1..24 (%d configurations, part 'lengths')"
                                      % len(sweep_configs())]}


PARTS = [Part("fft", check_case, {"quick": 32000, "thorough": 400000}, strategy=st_case),
         make_sweep("lengths", sweep_configs, check_case)]
