"""C04 - the normal operator A.N is A^H A.

mat(T.N) is compared with mat(T.H) @ mat(T) (both from the implementation, so
the claim 'A.N(x) == A.H(A(x)) for all x' is decided as a matrix identity).
Toeplitz NUFFT normal operators are compared within the NUFFT accuracy against
the exact NUDFT Gram matrix. A consumer check solves a ridge problem through
LinearLeastSquares/CG (which works through A.N) and compares with the dense solution.
"""
import warnings

import numpy as np
from hypothesis import strategies as st

from vlib import arrays as A
from vlib import linops as LO
from vlib.runner import Part, R, make_sweep

PROPERTY = "C04"
RULE = ("Hypothesis-generated operator trees (all leaf classes; block operators with overlapping/gapped/non-tiling strides "
        "both as ArrayToBlocks and BlocksToArray; Toeplitz NUFFT with non-default oversamp/width, batch dims, 1-3-D); "
        ".N taken before or after .H was cached; oracle mat(T.N) == mat(T.H)@mat(T) to 1e-9*||M||_F^2 (2e-4 single); "
        "Toeplitz: ||A.N x - G x|| <= 3*eps(os,width)*||G||_2*||x|| with G the exact NUDFT Gram matrix built by the "
        "harness; consumer: LinearLeastSquares(A,y,lamda) by CG equals the dense ridge solution. non-trivial: A^H A is "
        "not the identity, or a Toeplitz NUFFT; distinct = tree signature.")
ASSUMPTIONS = [
    "CPU backend; dense spaces <= ~40 x 96; depth <= 2",
    "NUFFT accuracy levels eps: 0.03 (width>=4), 0.003 (oversamp=2,width>=4), 0.1 (width in [3,4)) as in C06",
]


def tol(dt):
    return 2e-4 if dt in ("complex64", "float32") else 1e-9


def node_failures(sp, dt, order):
    try:
        op = LO.build(sp)
    except Exception:
        return ["unbuildable"], None
    out = []
    try:
        with warnings.catch_warnings():
            warnings.simplefilter("ignore")
            if order == "N-first":
                Nop = op.N
                Hop = op.H
            else:
                Hop = op.H
                Nop = op.N
            M = LO.mat(op, op.ishape, dt, real_only=True)[0]
            Hm = LO.mat(Hop, Hop.ishape, dt, real_only=True)[0]
    except Exception:
        return ["forward-or-adjoint-unavailable"], None
    try:
        if list(Nop.ishape) != list(op.ishape) or list(Nop.oshape) != list(op.ishape):
            out.append("normal-shapes")
        with warnings.catch_warnings():
            warnings.simplefilter("ignore")
            Nm = LO.mat(Nop, Nop.ishape, dt, real_only=True)[0]
    except Exception as e:
        return out + ["raises:normal:%s" % type(e.__cause__ or e).__name__], None
    ref = Hm @ M
    if dt in ("complex64", "float32") and not (np.all(np.isfinite(ref)) and np.max(np.abs(ref), initial=0.0) < 1e30
                                               and np.all(np.isfinite(Nm))):
        # A^H A leaves the single-precision range (e.g. Kaiser-Bessel beta 13.5 wrapped many times around a 1x1 grid
        # gives entries 4e19, their squares 1.7e39 > 3.4e38): overflow of the dtype, not a statement about A.N
        return ["forward-or-adjoint-unavailable"], None
    scale = max(np.linalg.norm(M) * np.linalg.norm(Hm), 1e-30)
    if Nm.shape == ref.shape and not np.linalg.norm(Nm - ref) <= tol(dt) * scale:
        scale = max(scale, LO.tree_opscale(sp, dt) ** 2)     # operands' scale, not the cancelling result's
    if Nm.shape != ref.shape:
        out.append("normal-matrix-shape")
    elif not np.linalg.norm(Nm - ref) <= tol(dt) * scale:
        out.append("normal")
    else:
        # "for all x": the same must hold for REAL-dtype x (single-precision comparison: fft computes real input in
        # complex64) and for x held in a non-C memory layout; an operator that rejects real input is skipped
        try:
            with warnings.catch_warnings():
                warnings.simplefilter("ignore")
                Nr = LO.mat_real(Nop, Nop.ishape, dt)
            rs = max(scale, LO.tree_opscale(sp, dt) ** 2)
            if Nr is not None and (Nr.shape != ref.shape or not np.linalg.norm(Nr - ref) <= 2e-4 * rs):
                out.append("normal:real-x")
            if len(op.ishape) >= 2:
                rng = np.random.default_rng(A.prod(op.ishape))
                x = (rng.standard_normal(op.ishape) + 1j * rng.standard_normal(op.ishape)).astype(dt)
                with warnings.catch_warnings():
                    warnings.simplefilter("ignore")
                    yf = np.asarray(Nop(np.asfortranarray(x))).astype(np.complex128).ravel()
                if yf.shape != (ref.shape[0],) or not np.linalg.norm(yf - ref @ x.ravel().astype(np.complex128)) <= \
                        10 * tol(dt) * rs * max(np.linalg.norm(x.ravel()), 1e-30):
                    out.append("normal:fortran-x")
        except Exception as e:
            out.append("raises:normal:probe:%s" % type(e.__cause__ or e).__name__)
    return out, ref


def check_tree(case):
    LO.set_container(case.get("ct"))
    r = R()
    sp, dt, order = case["tree"], case["dtype"], case.get("order", "H-first")
    fails, ref = node_failures(sp, dt, order)
    for c in LO.classes(sp):
        r.label(c)
    r.label(order)
    real = [f for f in fails if f not in ("unbuildable", "forward-or-adjoint-unavailable")]
    if real:
        small = LO.localize(sp, lambda c: bool([f for f in node_failures(c, dt, order)[0]
                                                if f not in ("unbuildable", "forward-or-adjoint-unavailable")]))
        sf = [f for f in node_failures(small, dt, order)[0] if f not in ("unbuildable", "forward-or-adjoint-unavailable")] or real
        detail = ""
        if small["op"] in ("ArrayToBlocks", "BlocksToArray"):
            B, S, N = small["blk_shape"], small["blk_strides"], small["shape"][-len(small["blk_shape"]):]
            if any(s < b for s, b in zip(S, B)):
                detail = ":overlap"
            elif any(s > b for s, b in zip(S, B)):
                detail = ":gap"
            elif any((n - b) % s for n, b, s in zip(N, B, S)):
                detail = ":non-dividing"
        for f in sf:
            r.fail("%s:%s%s" % (f, small["op"], detail), "smallest failing subtree: %s" % LO.sig(small)[:1200])
    elif LO.count_nodes(sp) > 1:
        # .N of every inner node too: a combinator's or leaf's own normal shortcut is only reached when that node's
        # .N is taken directly (the root's generic A.H * A never calls it)
        seen = set()
        for sub in LO.subtrees(sp)[1:]:
            k = LO.sig(sub)
            if k in seen:
                continue
            seen.add(k)
            sf, _ = node_failures(sub, dt, order)
            for f in [f for f in sf if f not in ("unbuildable", "forward-or-adjoint-unavailable")]:
                r.fail("%s:%s(inner)" % (f, sub["op"]), "inner node: %s" % LO.sig(sub)[:1200])
    if ref is not None:
        n = ref.shape[0]
        r.nontrivial = not np.allclose(ref, np.eye(n), atol=1e-6)
    r.sig = order + "|" + LO.sig(sp)
    return r


NORMAL_FOCUS = ["ArrayToBlocks", "ArrayToBlocks", "Circshift", "FFT", "Transpose", "Reshape", "Identity", "Wavelet",
                "Resize", "Multiply", "NUFFT", "Interpolate", "ConvolveData", "Sense", "Slice", "Downsample", "MatMul",
                "FiniteDifference", "Sum", "Tile", "Embed", "Upsample", "Gridding", "NUFFTAdjoint", "ConvolveFilter", "Flip"]


@st.composite
def st_normal_tree(draw):
    c = draw(LO.st_tree(max_depth=2, names=NORMAL_FOCUS))
    c["order"] = draw(st.sampled_from(["H-first", "N-first"]))
    # half of the block operators are exercised as BlocksToArray (the .H of ArrayToBlocks)
    if c["tree"]["op"] == "ArrayToBlocks" and draw(st.booleans()):
        c["tree"] = dict(c["tree"], op="BlocksToArray")
    return c


# ------------------------------------------------------------------ Toeplitz NUFFT


def eps_for(oversamp, width):
    if width < 4:
        return 0.1
    if oversamp >= 2:
        return 0.003
    return 0.03


@st.composite
def st_toeplitz(draw):
    d = draw(st.integers(1, 3))
    hi = {1: 12, 2: 6, 3: 4}[d]
    grid = [draw(st.integers(1, hi)) for _ in range(d)]
    nb = draw(st.integers(0, 2))
    batch = [draw(st.integers(1, 2)) for _ in range(nb)]
    npts = draw(st.integers(1, 24))
    os_, w = LO._nufft_params(draw)
    coord = LO._coord(draw, grid, [npts], ("in", "in", "in", "out", "int", "tie"))
    dt = draw(st.sampled_from(["complex128", "complex128", "complex64"]))
    return {"tree": {"op": "NUFFT", "ishape": batch + grid, "coord": coord, "oversamp": os_, "width": w, "toeplitz": True},
            "dtype": dt, "order": draw(st.sampled_from(["H-first", "N-first"])), "xseed": draw(A.seeds)}


def nudft_matrix(grid, coord):
    """E[j, n] = prod_d N_d^{-1/2} exp(-2 pi i k_jd (n_d - N_d//2) / N_d)"""
    pts = coord.reshape(-1, len(grid))
    idx = np.stack(np.meshgrid(*[np.arange(n) - n // 2 for n in grid], indexing="ij"), -1).reshape(-1, len(grid))
    ph = (pts[:, None, :] * idx[None, :, :] / np.array(grid)[None, None, :]).sum(-1)
    return np.exp(-2j * np.pi * ph) / np.sqrt(A.prod(grid))


def check_toeplitz(case):
    r = R()
    sp, dt = case["tree"], case["dtype"]
    coord = A.arr(sp["coord"])
    d = coord.shape[-1]
    grid = sp["ishape"][-d:]
    batch = sp["ishape"][:-d]
    op = LO.build(sp)
    try:
        if case["order"] == "N-first":
            Nop = op.N
            op.H
        else:
            op.H
            Nop = op.N
        x = A.arr({"k": "g", "shape": sp["ishape"], "dtype": dt, "seed": case["xseed"]})
        x0 = x.copy()
        y = Nop(x)
    except Exception as e:
        r.fail("toeplitz:raises", "%s: %s" % (type(e).__name__, e.__cause__ or e))
        return r
    r.check(np.array_equal(x, x0), "toeplitz:mutates-input")
    r.check(list(y.shape) == list(sp["ishape"]), "toeplitz:shape", "%s" % (y.shape,))
    E = nudft_matrix(grid, coord)
    G = E.conj().T @ E
    gn = np.linalg.norm(G, 2)
    xb = x.reshape([-1, A.prod(grid)]).astype(np.complex128)
    yb = np.asarray(y).reshape([-1, A.prod(grid)]).astype(np.complex128)
    eps = eps_for(sp["oversamp"], sp["width"])
    worst = 0.0
    for k in range(xb.shape[0]):
        err = np.linalg.norm(yb[k] - G @ xb[k])
        bound = 3 * eps * gn * np.linalg.norm(xb[k]) + 1e-12
        worst = max(worst, err / bound)
        if not err <= bound:
            r.fail("toeplitz:accuracy", "||A.N x - Gx|| = %.3e > 3*eps*||G||*||x|| = %.3e (os=%s w=%s grid=%s)"
                   % (err, bound, sp["oversamp"], sp["width"], grid))
            break
    # and against the implementation's own A.H(A(x)) within twice that bound
    try:
        z = op.H(op(x))
        err = np.linalg.norm((np.asarray(y) - z).ravel().astype(np.complex128))
        bound = 6 * eps * gn * np.linalg.norm(x.ravel()) + 1e-12
        r.check(err <= bound, "toeplitz:vs-AHA", "||A.N x - A.H A x|| = %.3e > %.3e" % (err, bound))
    except Exception as e:
        r.fail("toeplitz:AHA-raises", str(e))
    r.label("d%d" % d, "batch" if batch else "nobatch", "os%s-w%s" % (sp["oversamp"], sp["width"]), dt)
    r.nontrivial = True
    r.sig = LO.sig(sp) + dt
    r.notes["worst_ratio"] = worst
    return r


# ------------------------------------------------------------------ consumer: LinearLeastSquares through A.N


@st.composite
def st_consumer(draw):
    c = draw(LO.st_tree(max_depth=1, names=NORMAL_FOCUS, dtypes=("complex128",), max_in=16))
    c["lamda"] = draw(st.sampled_from([0.5, 1.0, 2.0]))
    c["yseed"] = draw(A.seeds)
    if c["tree"]["op"] == "ArrayToBlocks" and draw(st.booleans()):
        c["tree"] = dict(c["tree"], op="BlocksToArray")
    return c


def check_consumer(case):
    LO.set_container(case.get("ct"))
    import sigpy as sp_
    r = R()
    sp, dt = case["tree"], case["dtype"]
    try:
        op = LO.build(sp)
        with warnings.catch_warnings():
            warnings.simplefilter("ignore")
            M = LO.mat(op, op.ishape, dt, real_only=True)[0]
            Hm = LO.mat(op.H, op.oshape, dt, real_only=True)[0]
    except Exception:
        r.label("unavailable")
        return r
    if not np.linalg.norm(Hm - M.conj().T) <= 1e-9 * max(np.linalg.norm(M), 1e-30):
        r.label("adjoint-wrong(C01)")
        return r
    n = M.shape[1]
    nrm = np.linalg.norm(M, 2)
    if not np.isfinite(nrm) or nrm == 0:
        r.label("zero-operator")
        return r
    # The operator object itself goes to the app (so that ITS .N is what the solver works through); lamda is taken
    # relative to ||A||^2, so conditioning depends on case["lamda"] only: kappa <= 1 + 1/lamda.
    tl = 2e-4 if dt in ("complex64", "float32") else 1e-6
    G = M.conj().T @ M
    for rnd, (lam, yseed) in enumerate(((case["lamda"] * nrm ** 2, case["yseed"]),
                                        (2.5 * case["lamda"] * nrm ** 2, case["yseed"] + 1))):
        y = A.arr({"k": "g", "shape": list(op.oshape), "dtype": dt, "seed": yseed})
        xref = np.linalg.solve(G + lam * np.eye(n), M.conj().T @ y.ravel().astype(np.complex128))
        try:
            with warnings.catch_warnings():
                warnings.simplefilter("ignore")
                if rnd == 0:
                    app = sp_.app.LinearLeastSquares(op, y.copy(), lamda=lam, max_iter=4 * n + 20, tol=0, show_pbar=False)
                else:
                    # the other solver that works through A.N (gradient A.N x - A^H y); kappa <= 1 + 1/lamda <= 3
                    np.random.seed(case["yseed"] % (2 ** 31))
                    app = sp_.app.LinearLeastSquares(op, y.copy(), lamda=lam, solver="GradientMethod", max_iter=400, tol=0, show_pbar=False)
                x = app.run()
        except Exception as e:
            r.fail("consumer:raises:%s" % sp["op"], "%s: %s" % (type(e).__name__, e))
            return r
        err = np.linalg.norm(np.asarray(x).ravel() - xref)
        ok = err <= tl * max(np.linalg.norm(xref), 1e-30) + 1e-12 * np.linalg.norm(y)
        if not ok:
            r.fail("consumer:wrong-minimiser:%s%s" % (sp["op"], "" if rnd == 0 else ":second-solve-same-operator"),
                   "||x - x_ref|| = %.3e, ||x_ref|| = %.3e, lamda %.4g, tree %s" % (err, np.linalg.norm(xref), lam, LO.sig(sp)[:800]))
            break
        # the solve must leave the operator's normal operator what it was: A^H A
        try:
            with warnings.catch_warnings():
                warnings.simplefilter("ignore")
                Nm = LO.mat(op.N, op.ishape, dt, real_only=True)[0]
            if Nm.shape != G.shape or not np.linalg.norm(Nm - G) <= (2e-4 if dt in ("complex64", "float32") else 1e-9) * max(np.linalg.norm(M) ** 2, 1e-30):
                if not any(l["op"] == "NUFFT" and l.get("toeplitz") for l in LO.leaves(sp)):
                    r.fail("consumer:normal-changed-by-solve:%s" % sp["op"],
                           "after LinearLeastSquares(A, y, lamda=%.4g).run() A.N differs from A^H A by %.3e (||A||_F^2 = %.3e)"
                           % (lam, np.linalg.norm(Nm - G) if Nm.shape == G.shape else float("nan"), np.linalg.norm(M) ** 2))
                    break
        except Exception as e:
            r.fail("consumer:normal-raises-after-solve:%s" % sp["op"], "%s: %s" % (type(e).__name__, e))
            break
    r.nontrivial = not np.allclose(M.conj().T @ M, np.eye(n), atol=1e-6)
    for c in LO.classes(sp):
        r.label(c)
    r.sig = LO.sig(sp)
    return r


@st.composite
def st_normal_mri(draw):
    c = draw(LO.st_mri())
    c["order"] = draw(st.sampled_from(["H-first", "N-first"]))
    return c


# ------------------------------------------------------------------ larger spaces: A.N x vs A^H (A x) on generated vectors


def big_failures(sp, dt, pseed):
    try:
        op = LO.build(sp)
    except Exception:
        return ["unbuildable"]
    if any(l["op"] == "NUFFT" and l.get("toeplitz") for l in LO.leaves(sp)):
        return ["unbuildable"]          # the Toeplitz approximation has its own part and tolerance
    rng = np.random.default_rng(pseed)
    out = []
    try:
        with warnings.catch_warnings():
            warnings.simplefilter("ignore")
            Nop = op.N
            Hop = op.H
            if list(Nop.ishape) != list(op.ishape) or list(Nop.oshape) != list(op.ishape):
                return ["normal-shapes"]
            for _ in range(3):
                x = (rng.standard_normal(op.ishape) + 1j * rng.standard_normal(op.ishape)).astype(dt)
                Ax = np.asarray(op(x))
                ref = np.asarray(Hop(Ax)).astype(np.complex128)
                y = np.asarray(Nop(x)).astype(np.complex128)
                if y.shape != ref.shape:
                    return ["normal-output-shape"]
                # operands' scale: ||A^H|| ||A x|| is bounded below by the result; use the larger of the two routes
                sc = max(np.linalg.norm(ref.ravel()), np.linalg.norm(y.ravel()), np.linalg.norm(np.asarray(Ax, dtype=np.complex128).ravel()), 1e-30)
                if not np.linalg.norm((y - ref).ravel()) <= 10 * tol(dt) * sc:
                    # relative to the operands' magnitude when the result cancels (A x = 0 up to rounding)
                    sc = max(sc, LO.tree_opscale_est(sp, dt, pseed) ** 2 * np.linalg.norm(x.astype(np.complex128).ravel()))
                if not np.linalg.norm((y - ref).ravel()) <= 10 * tol(dt) * sc:
                    out.append("normal")
                    return out
    except Exception as e:
        out.append("raises:%s" % type(e.__cause__ or e).__name__)
    return out


def check_big(case):
    LO.set_container(case.get("ct"))
    r = R()
    sp, dt = case["tree"], case["dtype"]
    fails = [f for f in big_failures(sp, dt, case["pseed"]) if f != "unbuildable"]
    cl = LO.classes(sp)
    for c in cl:
        r.label(c)
    if fails:
        small = LO.localize(sp, lambda c: bool([f for f in big_failures(c, dt, case["pseed"]) if f != "unbuildable"]))
        sf = [f for f in big_failures(small, dt, case["pseed"]) if f != "unbuildable"] or fails
        for f in sf:
            r.fail("%s:%s:large" % (f, small["op"]), "smallest failing subtree: %s" % LO.sig(small)[:1200])
    o, i = LO.shape_of(sp)
    r.label("in>%d" % (100 if A.prod(i) > 100 else 40 if A.prod(i) > 40 else 0))
    r.nontrivial = A.prod(i) > 40 and any(c not in LO.COMBINATORS and c not in ("Identity", "Reshape") for c in cl)
    r.sig = LO.sig(sp)
    return r


def block_configs():
    """block operators enumerated completely: 1-D N <= 12 x B <= N x S <= B + 2 and 2-D N in {2,3,4}^2 x B <= N x S <= B + 1,
    both as ArrayToBlocks and BlocksToArray (overlap, gap, exact tiling, non-dividing strides, and every coincidence of
    element counts between input and output)"""
    out = []
    for N in range(1, 13):
        for B in range(1, N + 1):
            for S in range(1, B + 3):
                for op in ("ArrayToBlocks", "BlocksToArray"):
                    out.append({"tree": {"op": op, "shape": [N], "blk_shape": [B], "blk_strides": [S]}, "dtype": "complex128",
                                "order": "H-first" if (N + B + S) % 2 else "N-first"})
    for N1 in (2, 3, 4):
        for N2 in (2, 3, 4):
            for B1 in range(1, N1 + 1):
                for B2 in range(1, N2 + 1):
                    for S1 in range(1, B1 + 2):
                        for S2 in range(1, B2 + 2):
                            for op in ("ArrayToBlocks", "BlocksToArray"):
                                out.append({"tree": {"op": op, "shape": [N1, N2], "blk_shape": [B1, B2], "blk_strides": [S1, S2]},
                                            "dtype": "complex128", "order": "N-first"})
    # 3-D blocks in the exact-tiling regime (stride == block size dividing the extent): where the Identity shortcut applies
    div = {1: [1], 2: [1, 2], 3: [1, 3], 4: [1, 2, 4]}
    for N1 in (1, 2, 3, 4):
        for N2 in (2, 3, 4):
            for N3 in (1, 2, 3, 4):
                for B1 in div[N1]:
                    for B2 in div[N2]:
                        for B3 in div[N3]:
                            for op in ("ArrayToBlocks", "BlocksToArray"):
                                out.append({"tree": {"op": op, "shape": [N1, N2, N3], "blk_shape": [B1, B2, B3], "blk_strides": [B1, B2, B3]},
                                            "dtype": "complex128", "order": "H-first"})
    # every wavelet family of the generator (incl. the non-orthogonal discrete Meyer filter) as a bare operator
    for wave in LO.WAVES:
        for shape in ([8], [7], [12], [4, 6], [5, 3]):
            for level in (None, 1, 2):
                for axes in ((None,) if len(shape) == 1 else (None, [0], [-1])):
                    out.append({"tree": {"op": "Wavelet", "ishape": shape, "axes": axes, "wave": wave, "level": level},
                                "dtype": "complex128", "order": "N-first"})
    return out


def extra_coverage(tier):
    return {"exhaustive_subdomains": ["ArrayToBlocks / BlocksToArray normal operators: every 1-D (N <= 12, B <= N, S <= B+2) and 2-D "
                                      "(N in {2,3,4}^2, B <= N, S <= B+1) configuration, every exact 3-D tiling over {1..4}^3, and every generator wavelet x 5 shapes x 3 levels "
                                      "x axes (%d operators, part 'blocks')" % len(block_configs())]}


PARTS = [
    make_sweep("blocks", block_configs, check_tree),
    Part("tree", check_tree, {"quick": 2400, "thorough": 40000}, strategy=st_normal_tree),
    Part("mri", check_tree, {"quick": 300, "thorough": 6000}, strategy=st_normal_mri),
    Part("toeplitz", check_toeplitz, {"quick": 500, "thorough": 10000}, strategy=st_toeplitz),
    Part("big", check_big, {"quick": 700, "thorough": 16000}, strategy=lambda: LO.st_big_tree(max_depth=1)),
    Part("consumer", check_consumer, {"quick": 600, "thorough": 10000}, strategy=st_consumer),
]
