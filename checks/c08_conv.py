"""C08 - convolve matches the convolution definition; adjoints are exact.

Oracle: the definition itself, enumerated with explicit loops.  Along one axis

    y[p] = sum_k d[s*p + off - k] * f[k]          (terms with an index outside the data are absent)

with off = 0, L = m+n-1 ('full': zero padded, every position) or off = min(m,n)-1, L = |m-n|+1
('valid': exactly the positions at which the shorter operand lies completely inside the longer one),
p = 0 .. ceil(L/s)-1; N-D is the product over axes, channels are summed over c_i, batch entries are
independent.  All values are dyadic rationals (k/8) so every sum is exact in both precisions.  The same
tap list gives the dense matrices of d -> y and f -> y; their conjugate transposes are the oracle for
convolve_data_adjoint / convolve_filter_adjoint (applied to basis vectors e_j and, for complex dtypes, i*e_j).
The tap enumeration is certified on every case against scipy.signal.convolve(method='direct') for the
single-channel stride-1 sub-problem (a mismatch is a harness error, not a finding).
"""
import itertools

import numpy as np
from hypothesis import strategies as st

from vlib import arrays as A
from vlib.runner import HarnessError, Part, R, make_sweep

PROPERTY = "C08"
RULE = ("Hypothesis draws D in 1..3, per-axis data/filter lengths 1..6 (full mode: independent; valid mode: "
        "data>=filter everywhere, filter>=data everywhere with one axis strictly longer, or strictly mixed), "
        "0-2 batch axes, multi_channel with c_i,c_o in 1..3, strides None or 1..3 per axis, one of four dtypes "
        "shared by data and filter, dyadic values. Oracle = explicit loops over the convolution definition "
        "(certified per case against scipy.signal.convolve direct for the 1-channel stride-1 sub-problem); "
        "forward compared on the drawn arrays and on basis vectors (data and filter side), both adjoints on basis "
        "vectors (e_j and i*e_j) against the conjugate transposes of the definition's matrices, returned shapes "
        "against the requested ones, the four Convolve* linops against the same oracle. Outcomes: full mode and "
        "valid mode with data>=filter must compute; valid with filter>=data may raise but must never return a wrong "
        "or EMPTY array; strictly mixed valid shapes must raise. non-trivial: some stride>1, or multi_channel with "
        "c_i*c_o>1, or filter longer than data on some axis. distinct = (mode, batch, channels, m, n, strides, dtype).")
ASSUMPTIONS = [
    "CPU numpy backend only (cuDNN paths are not reachable on this image)",
    "data and filter share one dtype (float32/float64/complex64/complex128); mixed real/complex operands are not generated",
    "shapes are passed as list or tuple, strides as None or a list/tuple of D ints in 1..3",
    "every axis length >= 1; prod(m) <= 36 and prod(n) <= 36 (each axis can still reach 6); batch axes 1..3 each",
    "scipy.signal.convolve(method='direct') is trusted for the single-channel stride-1 definition (certifies the oracle)",
    "rejection (any exception) is accepted only in valid mode when the filter is longer than the data on some axis; "
    "full mode and valid mode with data>=filter on every axis are treated as admitted AND supported "
    "(the repo's tests and docstrings use them), so an exception there is reported",
    "when an operator is too large to materialise within the time budget, a case-seeded subset of basis columns is used",
    "dtype of the returned arrays is not asserted (the property does not state it)",
]

DTYPES = ("complex128", "float64", "complex64", "float32")
INNER_BUDGET = 1200      # scipy calls per materialised matrix (about 40 us each)


# ------------------------------------------------------------------ generator


@st.composite
def _values(draw, shape, dtype):
    n = A.prod(shape)
    pick = draw(st.integers(0, 5))
    if pick <= 1 and n <= 24:
        return draw(A.dyadic(shape, dtype))
    if pick == 5:
        return {"k": "sp", "shape": list(shape), "dtype": dtype,
                "which": draw(st.sampled_from(["ones", "delta", "imag"])), "idx": draw(st.integers(0, 10 ** 6))}
    return draw(A.randint(shape, dtype, -16, 16))


@st.composite
def st_case(draw):
    D = draw(st.integers(1, 3))
    mode = draw(st.sampled_from(["full", "valid"]))
    if mode == "full":
        regime = "free"
    elif D == 1:
        regime = draw(st.sampled_from(["ge", "ge", "le", "le"]))
    else:
        regime = draw(st.sampled_from(["ge", "ge", "le", "le", "mixed", "mixed"]))
    m = [None] * D
    n = [None] * D
    order = list(range(D))
    special = {}
    if regime == "le":
        a = draw(st.integers(0, D - 1))
        special[a] = "lt"
        order.remove(a)
        order.insert(0, a)
    elif regime == "mixed":
        a = draw(st.integers(0, D - 1))
        b = draw(st.integers(0, D - 2))
        b = b if b < a else b + 1
        special[a] = "gt"
        special[b] = "lt"
        order = [a, b] + [x for x in order if x not in (a, b)]
    pm = pn = 1
    for ax in order:
        rm = max(1, min(6, 36 // pm))
        rn = max(1, min(6, 36 // pn))
        kind = special.get(ax, {"ge": "ge", "le": "le"}.get(regime, "free"))
        if kind == "lt":        # data strictly shorter than the filter
            nn = draw(st.integers(2, rn))
            mm = draw(st.integers(1, min(nn - 1, rm)))
        elif kind == "gt":      # data strictly longer
            mm = draw(st.integers(2, rm))
            nn = draw(st.integers(1, min(mm - 1, rn)))
        elif kind == "ge":
            mm = draw(st.integers(1, rm))
            nn = draw(st.integers(1, min(mm, rn)))
        elif kind == "le":
            nn = draw(st.integers(1, rn))
            mm = draw(st.integers(1, min(nn, rm)))
        else:
            mm = draw(st.integers(1, rm))
            nn = draw(st.integers(1, rn))
        m[ax], n[ax] = mm, nn
        pm *= mm
        pn *= nn
    strides = None
    if draw(st.integers(0, 3)) > 0:
        strides = [draw(st.integers(1, 3)) for _ in range(D)]
    mc = draw(st.booleans())
    ci = draw(st.integers(1, 3)) if mc else 1
    co = draw(st.integers(1, 3)) if mc else 1
    batch = [draw(st.integers(1, 3)) for _ in range(draw(st.integers(0, 2)))]
    dtype = draw(st.sampled_from(DTYPES))
    dshape = batch + ([ci] if mc else []) + m
    fshape = ([co, ci] if mc else []) + n
    return {"mode": mode, "m": m, "n": n, "strides": strides, "mc": mc, "ci": ci, "co": co, "batch": batch,
            "dtype": dtype, "as_tuple": draw(st.booleans()), "seed": draw(A.seeds),
            "d": draw(_values(dshape, dtype)), "f": draw(_values(fshape, dtype)),
            "dlayout": draw(st.sampled_from(A.LAYOUTS)), "flayout": draw(st.sampled_from(A.LAYOUTS)),
            "positional": draw(st.sampled_from([False, False, True])),
            "dscale": draw(st.sampled_from([1.0] * 6 + [2.0 ** -34, 2.0 ** -24, 2.0 ** 24] + ([2.0 ** -50] if dtype in ("float64", "complex128") else []))),
            "fscale": draw(st.sampled_from([1.0] * 6 + [2.0 ** -34, 2.0 ** -24, 2.0 ** 24] + ([2.0 ** -50] if dtype in ("float64", "complex128") else [])))}


# ------------------------------------------------------------------ oracle


def axis_taps(m, n, mode, s):
    """Definition along one axis: output length and every (p, k, q) with y[p] += d[q] * f[k]."""
    if mode == "full":
        off, length = 0, m + n - 1
    else:
        off, length = min(m, n) - 1, abs(m - n) + 1
    npos = 0
    while npos * s < length:
        npos += 1
    taps = []
    for p in range(npos):
        for k in range(n):
            q = s * p + off - k
            if 0 <= q < m:
                taps.append((p, k, q))
    return npos, taps


def nd_taps(m, n, mode, s):
    per = [axis_taps(md, nd, mode, sd) for md, nd, sd in zip(m, n, s)]
    pshape = tuple(x[0] for x in per)
    taps = []
    for combo in itertools.product(*[x[1] for x in per]):
        taps.append((tuple(c[0] for c in combo), tuple(c[1] for c in combo), tuple(c[2] for c in combo)))
    return pshape, taps


def ref_forward(d4, f4, pshape, taps):
    """d4 [B, ci, m...], f4 [co, ci, n...] -> y [B, co, p...]; sum over input channels and taps."""
    B, co = d4.shape[0], f4.shape[0]
    y = np.zeros((B, co) + pshape, np.result_type(d4.dtype, f4.dtype))
    sl = (slice(None), slice(None))
    for p, k, q in taps:
        y[sl + p] += np.einsum("bi,oi->bo", d4[sl + q], f4[sl + k])
    return y


def ref_matrices(d4, f4, m, n, pshape, taps):
    """Mf[o, P, i, Q] (matrix of d -> y per batch entry) and Md[b, P, i, K] (matrix of f -> y per output channel)."""
    B, ci = d4.shape[:2]
    co = f4.shape[0]
    Pn, Mn, Nn = A.prod(pshape), A.prod(m), A.prod(n)
    Mf = np.zeros((co, Pn, ci, Mn), f4.dtype)
    Md = np.zeros((B, Pn, ci, Nn), d4.dtype)
    sl = (slice(None), slice(None))
    for p, k, q in taps:
        P = int(np.ravel_multi_index(p, pshape))
        K = int(np.ravel_multi_index(k, n))
        Q = int(np.ravel_multi_index(q, m))
        Mf[:, P, :, Q] += f4[sl + k]
        Md[:, P, :, K] += d4[sl + q]
    return Mf, Md


def _certify(d4, f4, m, n, mode):
    """The tap enumeration must reproduce scipy's direct convolution for one channel, stride 1."""
    import scipy.signal
    pshape, taps = nd_taps(m, n, mode, (1,) * len(m))
    mine = ref_forward(d4[:1, :1], f4[:1, :1], pshape, taps)[0, 0]
    theirs = scipy.signal.convolve(d4[0, 0], f4[0, 0], mode=mode, method="direct")
    if mine.shape != theirs.shape or (mine.size and np.max(np.abs(mine - theirs)) > 1e-12):
        raise HarnessError("C08 oracle disagrees with scipy.signal.convolve(direct): m=%s n=%s mode=%s" % (m, n, mode))


# ------------------------------------------------------------------ helpers


def _vals(spec):
    a = A.arr(spec)
    if spec["k"] == "ri":
        a = (a / 8).astype(a.dtype)
    return a


def _norm(a):
    return float(np.sqrt(np.sum(np.abs(np.asarray(a, dtype=np.complex128)) ** 2)))


class _Ctx:
    def __init__(self, r, region, mode, tol):
        self.r, self.region, self.mode, self.tol = r, region, mode, tol
        self.failed = set()

    def fail(self, key, msg):
        if key not in self.failed:
            self.failed.add(key)
            self.r.fail(key, msg)

    def call(self, name, fn):
        """Outcome lattice: returns (True, value) only when the call returned and was allowed to."""
        try:
            v = self.r.twice(name, fn)
        except Exception as e:  # noqa: BLE001 - the code under test may raise anything
            if self.region == "must-compute":
                self.fail("%s:raises:%s" % (name, self.mode), "%s: %s" % (type(e).__name__, str(e)[:300]))
            elif self.region == "may-reject":
                self.r.label("valid-filter-longer/rejected")
            else:
                self.r.label("valid-mixed/rejected")
            return False, None
        if self.region == "must-reject":
            self.fail("valid-mixed:accepted", "%s returned %s for a shape combination valid mode cannot admit"
                      % (name, getattr(v, "shape", type(v).__name__)))
            return False, None
        if self.region == "may-reject":
            self.r.label("valid-filter-longer/returned:" + name.split("[")[0].split(".")[0])
        return True, v

    def cmp(self, name, got, want, scale, extra=""):
        got = np.asarray(got)
        if got.shape != want.shape:
            if self.region == "may-reject" and got.size == 0 and want.size > 0:
                self.fail("valid:filter-longer:empty-output",
                          "%s returned an EMPTY array of shape %s; the definition gives shape %s %s"
                          % (name, got.shape, want.shape, extra))
            else:
                self.fail("%s:shape:%s" % (name, self.mode), "shape %s, expected %s %s" % (got.shape, want.shape, extra))
            return False
        if got.size == 0:
            return True
        err = float(np.max(np.abs(got.astype(np.complex128) - want)))
        if not err <= self.tol * scale:
            i = np.unravel_index(int(np.argmax(np.abs(got.astype(np.complex128) - want))), want.shape)
            self.fail("%s:values:%s" % (name, self.mode), "max abs error %.3g (bound %.3g) at %s: got %s want %s %s"
                      % (err, self.tol * scale, list(i), got[i], want[i], extra))
            return False
        return True


def _cols(N, inner, rng):
    lim = max(6, INNER_BUDGET // max(1, inner))
    if N <= lim:
        return list(range(N)), True
    return sorted(int(x) for x in rng.choice(N, size=lim, replace=False)), False


def _basis(ctx, name, cols, in_shape, dt, apply, expect, out_shape, scale):
    """apply(e_j) (and apply(i e_j) for complex dtypes) against the oracle's column."""
    phases = (1.0, 1j) if dt.kind == "c" else (1.0,)
    for j in cols:
        want = expect(j).reshape(out_shape)
        for ph in phases:
            e = np.zeros(in_shape, dt)
            e.flat[j] = ph
            ok, v = ctx.call(name, lambda: apply(e))
            if not ok:
                return
            if not ctx.cmp(name, v, ph * want, scale, "(input = %s * e_%d)" % (ph, j)):
                return


def _linop(ctx, name, mk, ish, osh, xin, want, sx, adjname, yin, want_adj, sy):
    r = ctx.r
    ok, op = ctx.call(name + ".ctor", mk)
    if not ok:
        return
    if not (list(op.ishape) == list(ish) and list(op.oshape) == list(osh)):
        ctx.fail(name + ":advertised-shape", "advertises %s -> %s, expected %s -> %s"
                 % (op.ishape, op.oshape, list(ish), list(osh)))
    ok, v = ctx.call(name + ".apply", lambda: op(xin))
    if ok:
        ctx.cmp(name + ".apply", v, want, sx)
    ok, oph = ctx.call(name + ".H", lambda: op.H)
    if not ok:
        return
    r.check(type(oph).__name__ == adjname, name + ".H:type", "adjoint is %s" % type(oph).__name__)
    if not (list(oph.ishape) == list(osh) and list(oph.oshape) == list(ish)):
        ctx.fail(name + ".H:advertised-shape", "advertises %s -> %s, expected %s -> %s"
                 % (oph.ishape, oph.oshape, list(osh), list(ish)))
    ok, v = ctx.call(name + ".H.apply", lambda: oph(yin))
    if ok:
        ctx.cmp(name + ".H.apply", v, want_adj, sy)


# ------------------------------------------------------------------ the check


def check_case(case):
    import sigpy as sp
    r = R()
    m, n, mode = tuple(case["m"]), tuple(case["n"]), case["mode"]
    D = len(m)
    strides = case["strides"]
    s = (1,) * D if strides is None else tuple(strides)
    mc = case["mc"]
    ci, co = (case["ci"], case["co"]) if mc else (1, 1)
    batch = tuple(case["batch"])
    B = A.prod(batch)
    dt = np.dtype(case["dtype"])
    cast = tuple if case["as_tuple"] else list
    dshape = batch + ((ci,) if mc else ()) + m
    fshape = ((co, ci) if mc else ()) + n
    # the caller's data / filter arrays in the generated memory layouts (same values)
    # overall magnitude of data / filter (exact powers of two: the exact convolution simply scales; small units such as
    # 1e-9 T or a nearly-real complex filter are ordinary inputs)
    dsc, fsc = float(case.get("dscale", 1.0)), float(case.get("fscale", 1.0))
    d = A.relayout((_vals(case["d"]) * dsc).astype(dt), case.get("dlayout", "c"))
    f = A.relayout((_vals(case["f"]) * fsc).astype(dt), case.get("flayout", "c"))
    if dsc != 1.0 or fsc != 1.0:
        r.label("scaled:d=2^%d,f=2^%d" % (int(round(np.log2(dsc))), int(round(np.log2(fsc)))))
    if case.get("dlayout", "c") != "c" or case.get("flayout", "c") != "c":
        r.label("layout:data=%s,filt=%s" % (case.get("dlayout", "c"), case.get("flayout", "c")))
    assert d.shape == dshape and f.shape == fshape and d.dtype == dt and f.dtype == dt
    kw = {"mode": mode, "strides": None if strides is None else cast(strides), "multi_channel": mc}

    longer = [nd > md for md, nd in zip(m, n)]
    shorter = [nd < md for md, nd in zip(m, n)]
    if mode == "valid" and any(longer) and any(shorter):
        region = "must-reject"
    elif mode == "valid" and any(longer):
        region = "may-reject"
    else:
        region = "must-compute"
    ctx = _Ctx(r, region, mode, 1e-12 if dt.itemsize // (2 if dt.kind == "c" else 1) == 8 else 2e-5)

    # ---- oracle (exact: dyadic values, float64 accumulation)
    wide = np.complex128 if dt.kind == "c" else np.float64
    d4 = d.reshape((B, ci) + m).astype(wide)
    f4 = f.reshape((co, ci) + n).astype(wide)
    pshape, taps = nd_taps(m, n, mode, s)
    oshape = batch + ((co,) if mc else ()) + pshape
    rng = np.random.default_rng(case["seed"])
    y0 = (rng.integers(-16, 17, size=oshape) / 8.0).astype(wide)
    if dt.kind == "c":
        y0 = y0 + 1j * rng.integers(-16, 17, size=oshape) / 8.0
    y0 = y0.astype(dt)
    sd, sf, sy = _norm(d), _norm(f), _norm(y0)

    if region != "must-reject":
        _certify(d4, f4, m, n, mode)
        yref4 = ref_forward(d4, f4, pshape, taps)
        Mf, Md = ref_matrices(d4, f4, m, n, pshape, taps)
        Pn, Mn, Nn = A.prod(pshape), A.prod(m), A.prod(n)
        # the loop oracle and its matrices must agree exactly (self-certificate, section 2.5)
        if not (np.array_equal(np.einsum("opiq,biq->bop", Mf, d4.reshape(B, ci, Mn)), yref4.reshape(B, co, Pn))
                and np.array_equal(np.einsum("bpik,oik->bop", Md, f4.reshape(co, ci, Nn)), yref4.reshape(B, co, Pn))):
            raise HarnessError("C08 oracle matrices disagree with the loop oracle")
        yref = yref4.reshape(oshape)
        y04 = y0.reshape(B, co, Pn).astype(wide)
        xadj = np.einsum("opiq,bop->biq", Mf.conj(), y04).reshape(dshape)      # (d -> y)^H y0
        gadj = np.einsum("bpik,bop->oik", Md.conj(), y04).reshape(fshape)      # (f -> y)^H y0
    else:
        yref = xadj = gadj = None

    # ---- functions on the drawn arrays
    if case.get("positional"):
        # the documented positional order convolve(data, filt, mode, strides, multi_channel)
        ok, y = ctx.call("convolve", lambda: sp.convolve(d, f, kw["mode"], kw["strides"], kw["multi_channel"]))
    else:
        ok, y = ctx.call("convolve", lambda: sp.convolve(d, f, **kw))
    if ok:
        ctx.cmp("convolve", y, yref, sd * sf)
    if case.get("positional"):
        ok, x = ctx.call("data_adjoint", lambda: sp.convolve_data_adjoint(y0, f, cast(dshape), kw["mode"], kw["strides"], kw["multi_channel"]))
    else:
        ok, x = ctx.call("data_adjoint", lambda: sp.convolve_data_adjoint(y0, f, cast(dshape), **kw))
    if ok:
        ctx.cmp("data_adjoint", x, xadj, sy * sf)
    if case.get("positional"):
        ok, g = ctx.call("filter_adjoint", lambda: sp.convolve_filter_adjoint(y0, d, cast(fshape), kw["mode"], kw["strides"], kw["multi_channel"]))
    else:
        ok, g = ctx.call("filter_adjoint", lambda: sp.convolve_filter_adjoint(y0, d, cast(fshape), **kw))
    if ok:
        ctx.cmp("filter_adjoint", g, gadj, sy * sd)

    # ---- dense materialisation from basis vectors
    full_mat = True
    if region != "must-reject":
        inner = B * co * ci * (2 if dt.kind == "c" else 1)
        Nd, Nf, No = B * ci * Mn, co * ci * Nn, B * co * Pn

        def col_fwd_data(j):        # column of d -> y : y[b, o, P] = [b == b'] Mf[o, P, i, Q]
            b_, i_, q_ = np.unravel_index(j, (B, ci, Mn))
            out = np.zeros((B, co, Pn), wide)
            out[b_] = Mf[:, :, i_, q_]
            return out

        def col_adj_data(j):        # column of (d -> y)^H : x[b, i, Q] = [b == b'] conj(Mf[o, P, i, Q])
            b_, o_, p_ = np.unravel_index(j, (B, co, Pn))
            out = np.zeros((B, ci, Mn), wide)
            out[b_] = Mf[o_, p_].conj()
            return out

        def col_fwd_filt(j):        # column of f -> y : y[b, o, P] = [o == o'] Md[b, P, i, K]
            o_, i_, k_ = np.unravel_index(j, (co, ci, Nn))
            out = np.zeros((B, co, Pn), wide)
            out[:, o_] = Md[:, :, i_, k_]
            return out

        def col_adj_filt(j):        # column of (f -> y)^H : g[o, i, K] = [o == o'] conj(Md[b', P, i, K])
            b_, o_, p_ = np.unravel_index(j, (B, co, Pn))
            out = np.zeros((co, ci, Nn), wide)
            out[o_] = Md[b_, p_].conj()
            return out

        cd, a1 = _cols(Nd, inner, rng)
        cf, a2 = _cols(Nf, inner, rng)
        c1, a3 = _cols(No, inner, rng)
        c2, a4 = _cols(No, inner, rng)
        full_mat = a1 and a2 and a3 and a4
        _basis(ctx, "convolve[data-basis]", cd, dshape, dt, lambda e: sp.convolve(e, f, **kw), col_fwd_data, oshape, sf)
        _basis(ctx, "convolve[filter-basis]", cf, fshape, dt, lambda e: sp.convolve(d, e, **kw), col_fwd_filt, oshape, sd)
        _basis(ctx, "data_adjoint[basis]", c1, oshape, dt,
               lambda e: sp.convolve_data_adjoint(e, f, cast(dshape), **kw), col_adj_data, dshape, sf)
        _basis(ctx, "filter_adjoint[basis]", c2, oshape, dt,
               lambda e: sp.convolve_filter_adjoint(e, d, cast(fshape), **kw), col_adj_filt, fshape, sd)

    # ---- Linop wrappers agree with the same oracle and advertise the right shapes
    L = sp.linop
    _linop(ctx, "ConvolveData", lambda: L.ConvolveData(cast(dshape), f, **kw), dshape, oshape,
           d, yref, sd * sf, "ConvolveDataAdjoint", y0, xadj, sy * sf)
    _linop(ctx, "ConvolveDataAdjoint", lambda: L.ConvolveDataAdjoint(cast(dshape), f, **kw), oshape, dshape,
           y0, xadj, sy * sf, "ConvolveData", d, yref, sd * sf)
    _linop(ctx, "ConvolveFilter", lambda: L.ConvolveFilter(cast(fshape), d, **kw), fshape, oshape,
           f, yref, sd * sf, "ConvolveFilterAdjoint", y0, gadj, sy * sd)
    _linop(ctx, "ConvolveFilterAdjoint", lambda: L.ConvolveFilterAdjoint(cast(fshape), d, **kw), oshape, fshape,
           y0, gadj, sy * sd, "ConvolveFilter", f, yref, sd * sf)

    # ---- classes, non-triviality, signature
    r.label("D%d" % D, mode, case["dtype"], region)
    r.label("strides-None" if strides is None else ("stride>1" if any(x > 1 for x in s) else "strides-all-1"))
    if mc:
        r.label("multi_channel")
        if ci * co > 1:
            r.label("ci*co>1")
        if ci != co:
            r.label("ci!=co")
    if batch:
        r.label("batch")
    for nm, c in (("axis:filter-longer", any(longer)), ("axis:filter-equal", any(a == b for a, b in zip(m, n))),
                  ("axis:filter-shorter", any(shorter))):
        if c:
            r.label(nm)
    if region == "may-reject" and any(a == b for a, b in zip(m, n)):
        r.label("valid-filter-longer/with-equal-axis")
    if any(len(range(0, (md + nd - 1) if mode == "full" else abs(md - nd) + 1, sd_)) * sd_
           != ((md + nd - 1) if mode == "full" else abs(md - nd) + 1) for md, nd, sd_ in zip(m, n, s)):
        r.label("stride-not-dividing")
    r.label("full-materialisation" if full_mat else "sampled-columns")
    r.nontrivial = any(x > 1 for x in s) or (mc and ci * co > 1) or any(longer)
    r.sig = "%s|%s|%s|%d,%d|%s|%s|%s|%s" % (mode, list(batch), mc, ci, co, list(m), list(n), strides, case["dtype"])
    return r


def sweep_configs():
    """finite sub-domain enumerated completely: 1-D data length m and filter length n in 1..8, stride 1..3 or None, both modes;
    2-D (m, n) pairs over {1..3}^2 x {1..3}^2 in valid mode (every admissible / mixed shape relation), strides (1,1) and (2,1)."""
    out = []

    def case(mode, m, n, strides, seed):
        return {"mode": mode, "m": m, "n": n, "strides": strides, "mc": False, "ci": 1, "co": 1, "batch": [], "dtype": "complex128",
                "as_tuple": False, "seed": seed,
                "d": {"k": "ri", "shape": m, "dtype": "complex128", "seed": seed, "lo": -16, "hi": 16},
                "f": {"k": "ri", "shape": n, "dtype": "complex128", "seed": seed + 1, "lo": -16, "hi": 16}}
    for mode in ("full", "valid"):
        for m in range(1, 9):
            for n in range(1, 9):
                for s_ in (None, 1, 2, 3):
                    out.append(case(mode, [m], [n], None if s_ is None else [s_], 97 * m + 13 * n))
    for m0 in range(1, 4):
        for m1 in range(1, 4):
            for n0 in range(1, 4):
                for n1 in range(1, 4):
                    for strides in ([1, 1], [2, 1]):
                        out.append(case("valid", [m0, m1], [n0, n1], strides, 1000 + 27 * m0 + 9 * m1 + 3 * n0 + n1))
    return out


def extra_coverage(tier):
    return {"exhaustive_subdomains": ["convolve + both adjoints + linops: 1-D m, n in 1..8 x stride {None,1,2,3} x {full,valid}; 2-D valid-mode "
                                      "shape relations over {1..3}^4 x 2 stride sets (%d configurations, part 'lengths')" % len(sweep_configs())]}


PARTS = [Part("conv", check_case, {"quick": 6000, "thorough": 60000}, strategy=st_case),
         make_sweep("lengths", sweep_configs, check_case)]

# thorough tier: the same Hypothesis test driven by atheris/libFuzzer (coverage on sigpy.conv/linop plain-Python code)
FUZZ = {"parts": ["conv"], "runs": 64000}
