"""C17 - ESPIRiT maps are unit-norm or zero, phase-referenced, and recover true maps.

k-space is either complex Gaussian noise (invariants only) or synthesised as
centred orthonormal FFT(smooth maps x non-vanishing image).  ``EspiritCalib`` is
run once with ``output_eigenvalue=True`` (and, for a quarter of the cases, once
more in its default output mode) and the returned maps / eigenvalues are checked
voxel by voxel against the stated invariants.  On a sub-domain where the ESPIRiT
model is well posed (see ASSUMPTIONS) the magnitudes are compared with the true
root-sum-of-squares-normalised maps at every interior voxel.
"""
import numpy as np
from hypothesis import strategies as st

from vlib import arrays as A
from vlib.runner import Part, R, derive_seed

PROPERTY = "C17"
RULE = ("Hypothesis draws (data family, image shape 2-D 12..24 per axis [rectangular allowed] or 3-D 8..12, coils 2..8, "
        "dtype complex64/128, calib_width, kernel_width 2..6 <= calib_width <= min(shape), thresh in [0.005,0.1], crop in "
        "[0,0.99], max_iter in [2,100], each of thresh/crop/max_iter sometimes left at its default; a small class runs "
        "the all-default constructor). Data: complex Gaussian k-space, or centred FFT of (Gaussian-bump x linear-phase "
        "maps | sigpy birdcage_maps) x image with |image| in [0.5,1.5] and random phase, all from default_rng(case seed), "
        "times an overall scale in {1, 1e-3, 1e3} or (rarely) one whose squares under/overflow the dtype (1e-24, 1e20 in complex64; 1e-170, 1e160 in complex128). "
        "Oracle per voxel: l2 norm over coils is exactly 0 or within 1e-5 of 1; exactly 0 where the returned eigenvalue "
        "<= crop and non-zero where it is > crop; coil 0 has |imag| <= 1e-6 and real >= 0; eigenvalues in [-1e-6, 1+1e-5]; "
        "maps.shape == ksp.shape; all values finite. Recovery class (parameters by construction inside the well-posed "
        "domain): at every voxel of the central half of the field of view | |m_c| - |s_c|/rss(s) | <= 0.03. "
        "non-trivial: any calibration parameter differs from its default, or 3-D, or >= 1 cropped voxel. "
        "distinct = (family, shape, coils, dtype, parameters).")
ASSUMPTIONS = [
    "CPU numpy backend only; ksp is complex64 or complex128 (EspiritCalib computes in ksp.dtype, so single-precision runs are "
    "judged with the same absolute 1e-5 / 1e-6 tolerances, which are > 50 float32 ulps)",
    "max_iter >= 2: after one power step the 'eigenvalue' is |G.1| for the un-normalised start vector of ones and may reach "
    "sqrt(coils) (DESIGN C15/C17)",
    "EspiritCalib does not draw random numbers on this tree (start vector = ones); np.random is nevertheless seeded from the "
    "case and restored around every run so a future random start cannot make cases irreproducible",
    "the crop claim is evaluated with the eigenvalues returned by the same run; voxels with |eigenvalue - crop| <= 1e-6 are "
    "skipped ('>' versus '>=' is not observable: ties have measure zero)",
    "the eigenvalue array is accepted with shape image_shape or (1,)+image_shape (the latter is what the pinned tree returns)",
    "k-space values are finite, not identically zero, and coil 0 does not vanish at any voxel (0/0 in the phase reference "
    "otherwise); generated families satisfy this by construction",
    "calib_width <= min(image shape) except in the all-default class (calib_width=24 zero-pads, as the repo's own tests do; "
    "invariants only there)",
    "recovery is asserted only where ESPIRiT's model is well posed for the generated map families (measured, see final "
    "report): thresh = 0.02 (default), max_iter >= 30, crop <= 0.95, calibration rows (calib_width-kernel_width+1) >= "
    "kernel_width+5 i.e. calib_width >= 2*kernel_width+4 (design said 2*kernel_width: measured errors reach 0.06 there "
    "and 0.021 at 2*kernel_width+3), columns coils*kernel_width^d >= 1.7*(kernel_width+4)^d in 2-D (a null space must "
    "exist: kernel 4 -> >= 7 coils, kernel 5 -> >= 6, kernel 6 -> >= 5; kernel 2-3 or 2 coils give errors of 0.1-0.6 "
    "because no null space exists), and in 3-D kernel_width = 4, calib_width = 12, coils >= 6, shape 12^3 (larger 3-D kernels cost "
    "> 3 s per case)",
    "a third of the 2-D recovery cases multiply the image by a box of 40-70 % of each extent placed anywhere in the field of "
    "view (an object smaller than the field of view: the eigenvalue map is then neither constant nor symmetric under "
    "transposition); recovery is asserted there on the voxels of the central half of the field of view that lie at least 3 "
    "voxels inside the box - the maps are not identifiable where there is no signal - and not at all when that set is empty",
    "smooth-map families: (a) per coil exp(-|x-c|^2/w) * exp(i(p0 + p.x)) on the grid [-1,1]^d with c ~ U(-1.25,1.25)^d, "
    "w ~ U(2.5,5), p ~ U(-1,1) rad; (b) sigpy.mri.sim.birdcage_maps with its default radius 1.5. Narrower bumps (w down to "
    "1.5, centres out to 1.5) were measured at up to 0.0195 error inside the same parameter domain and are excluded to keep "
    "a >= 2x margin to the 0.03 bound (worst measured over 1546 recovery cases: 0.0138)",
    "interior = central half of every image axis [n//4, n - n//4)",
    "3-D cases are limited to coils*kernel_width^3 <= 520 (one Gram update per kernel; cost)",
    "birdcage_maps (sigpy.mri.sim) is trusted as a generator of smooth maps; the FFT used for synthesis is numpy's",
]

TOL_NORM = 1e-5
TOL_IMAG = 1e-6
TOL_EIG_LO = 1e-6
TOL_EIG_HI = 1e-5
TOL_REC = 0.03
CROP_BAND = 1e-6
DEFAULTS = {"calib_width": 24, "thresh": 0.02, "kernel_width": 6, "crop": 0.95, "max_iter": 100}


# ------------------------------------------------------------------ data synthesis


def cfft(x, nd):
    ax = tuple(range(-nd, 0))
    return np.fft.fftshift(np.fft.fftn(np.fft.ifftshift(x, axes=ax), axes=ax, norm="ortho"), axes=ax)


def bump_maps(nc, shape, rng):
    grids = np.meshgrid(*[np.linspace(-1, 1, n) for n in shape], indexing="ij")
    mps = np.zeros((nc,) + tuple(shape), np.complex128)
    for c in range(nc):
        ctr = rng.uniform(-1.25, 1.25, len(shape))
        ph = rng.uniform(-1, 1, len(shape) + 1)
        w = rng.uniform(2.5, 5)
        r2 = sum((g - c0) ** 2 for g, c0 in zip(grids, ctr))
        mps[c] = np.exp(-r2 / w) * np.exp(1j * (ph[0] + sum(p * g for p, g in zip(ph[1:], grids))))
    return mps


def make_data(case):
    """-> (ksp in case dtype, true maps or None)."""
    shape, nc = case["shape"], case["nc"]
    nd = len(shape)
    rng = np.random.default_rng(case["seed"])
    fam = case["family"]
    scale = case.get("scale", 1.0)  # ESPIRiT is invariant to the overall k-space scale (thresh is relative to s_max)
    if fam == "gauss":
        ksp = rng.standard_normal([nc] + shape) + 1j * rng.standard_normal([nc] + shape)
        return (scale * ksp).astype(case["dtype"]), None
    if fam == "bump":
        mps = bump_maps(nc, shape, rng)
    else:
        import sigpy.mri.sim as sim
        mps = np.asarray(sim.birdcage_maps([nc] + shape), np.complex128)
    img = rng.uniform(0.5, 1.5, shape) * np.exp(2j * np.pi * rng.uniform(0, 1, shape))
    if case.get("object"):        # an object smaller than the field of view: no signal outside the box
        box = np.zeros(shape)
        box[tuple(slice(a, b) for a, b in case["object"])] = 1
        img = img * box
    return (scale * cfft(mps * img, nd)).astype(case["dtype"]), mps


OBJ_MARGIN = 3


def recovery_region(case):
    """Voxels where recovery is asserted: the interior of the field of view, and inside the object (eroded) when there is one."""
    shape = case["shape"]
    lo = [s // 4 for s in shape]
    hi = [s - s // 4 for s in shape]
    if case.get("object"):
        lo = [max(l, a + OBJ_MARGIN) for l, (a, b) in zip(lo, case["object"])]
        hi = [min(h, b - OBJ_MARGIN) for h, (a, b) in zip(hi, case["object"])]
    if any(h <= l for l, h in zip(lo, hi)):
        return None
    return (slice(None),) + tuple(slice(l, h) for l, h in zip(lo, hi))


def rec_min_coils(kw, nd):
    if nd == 2:
        return int(np.ceil(1.7 * (kw + 4) ** 2 / kw ** 2 - 1e-9))
    return 6


def recovery_domain(case):
    """Pure function of the case: is the recovery claim asserted?"""
    if case["family"] == "gauss":
        return False
    p = case["params"]
    nd = len(case["shape"])
    kw = p.get("kernel_width", DEFAULTS["kernel_width"])
    cw = p.get("calib_width", DEFAULTS["calib_width"])
    if cw > min(case["shape"]) or cw < 2 * kw + 4:
        return False
    if p.get("thresh", 0.02) != 0.02 or p.get("max_iter", 100) < 30 or p.get("crop", 0.95) > 0.95:
        return False
    if nd == 2:
        return kw >= 4 and case["nc"] >= rec_min_coils(kw, 2)
    return kw == 4 and case["nc"] >= 6


# ------------------------------------------------------------------ strategy


st_crop = st.one_of(st.sampled_from([0.0, 0.5, 0.9, 0.95, 0.99]), st.floats(0.0, 0.99, allow_nan=False))
st_iter = st.one_of(st.integers(2, 6), st.integers(2, 100))
st_thresh = st.one_of(st.sampled_from([0.005, 0.02, 0.1]), st.floats(0.005, 0.1, allow_nan=False),
                      st.sampled_from([0.3, 0.5, 0.7]))      # large: few singular vectors kept, eigenvalues stay below 1


def _maybe(draw, strat, p_default=4):
    """None (leave the constructor default) once in p_default draws."""
    return None if draw(st.integers(0, p_default - 1)) == 0 else draw(strat)


@st.composite
def st_case(draw):
    cls = draw(st.sampled_from(["gauss"] * 5 + ["synth"] * 6 + ["rec"] * 8 + ["defaults"]))
    dtype = draw(st.sampled_from(["complex128", "complex128", "complex64"]))
    seed = draw(A.seeds)
    plain = draw(st.integers(0, 3)) == 0
    scale = draw(st.sampled_from([1.0, 1.0, 1e-3, 1e3, "tiny", "huge"]))
    if scale == "tiny":        # magnitudes whose SQUARES leave the dtype's range (the maps do not depend on the scale)
        scale = 1e-24 if dtype == "complex64" else 1e-170
    elif scale == "huge":
        scale = 1e20 if dtype == "complex64" else 1e160
    params = {}
    obj = None
    if cls == "defaults":
        fam = draw(st.sampled_from(["gauss", "bump", "bird"]))
        shape = [draw(st.integers(12, 24)) for _ in range(2)]
        nc = draw(st.integers(2, 8))
    elif cls == "rec":
        fam = draw(st.sampled_from(["bump", "bird"]))
        if draw(st.integers(0, 15)) == 0:  # 3-D, rare: 1-2 s each
            shape = [12, 12, 12]
            kw = 4
            nc = draw(st.integers(6, 8))
        else:
            kw = draw(st.sampled_from([4, 4, 5, 6]))
            lo = max(12, 2 * kw + 4)
            shape = [draw(st.integers(lo, 24)) for _ in range(2)]
            nc = draw(st.integers(rec_min_coils(kw, 2), 8))
        params["calib_width"] = draw(st.sampled_from(list(range(2 * kw + 4, min(shape) + 1))))
        params["kernel_width"] = kw
        if len(shape) == 2 and draw(st.integers(0, 2)) == 0:
            # object smaller than the field of view, anywhere in it: the eigenvalue map is then far from constant and not
            # symmetric under a transposition of the axes
            obj = []
            for n in shape:
                ln = draw(st.integers(max(2 * OBJ_MARGIN + 2, (2 * n + 4) // 5), (7 * n) // 10))
                a = draw(st.integers(0, n - ln))
                obj.append([a, a + ln])
        if draw(st.booleans()):
            params["thresh"] = 0.02
        c = _maybe(draw, st.one_of(st.sampled_from([0.0, 0.5, 0.9, 0.95]), st.floats(0.0, 0.95, allow_nan=False)))
        if c is not None:
            params["crop"] = c
        m = _maybe(draw, st.integers(30, 100))
        if m is not None:
            params["max_iter"] = m
    else:
        fam = "gauss" if cls == "gauss" else draw(st.sampled_from(["bump", "bird"]))
        if draw(st.integers(0, 7)) == 0:  # 3-D
            shape = [draw(st.integers(8, 12)) for _ in range(3)]
            kw = draw(st.sampled_from([2, 2, 3, 3, 4, 5, 6]))
            nc = draw(st.integers(2, min(8, 520 // kw ** 3)))
        else:
            shape = [draw(st.integers(12, 24)) for _ in range(2)]
            kw = draw(st.integers(2, 6))
            nc = draw(st.integers(2, 8))
        # calib_width: small surplus over the kernel (few calibration rows), or anything up to the image size
        hi = min(shape)
        params["calib_width"] = draw(st.one_of(st.sampled_from(list(range(kw, min(hi, kw + 3) + 1))),
                                              st.sampled_from(list(range(kw, hi + 1))),
                                              st.sampled_from(list(range(kw, hi + 1)))))
        params["kernel_width"] = kw
        for name, strat in (("thresh", st_thresh), ("crop", st_crop), ("max_iter", st_iter)):
            v = _maybe(draw, strat)
            if v is not None:
                params[name] = v
    return {"cls": cls, "family": fam, "shape": shape, "nc": nc, "dtype": dtype, "seed": seed,
            "scale": scale, "params": params, "plain_run": plain, "layout": draw(st.sampled_from(A.LAYOUTS)), "object": obj}


# ------------------------------------------------------------------ check


def _run(r, key, ksp, params, seed, **extra):
    import sigpy.mri as mr
    state = np.random.get_state()
    np.random.seed(seed % (2 ** 32))
    try:
        with np.errstate(all="ignore"):
            if seed % 3 == 0 and all(k in params for k in ("calib_width", "thresh", "kernel_width", "crop", "max_iter")):
                # documented positional order (ksp, calib_width, thresh, kernel_width, crop, max_iter)
                return True, mr.app.EspiritCalib(ksp, params["calib_width"], params["thresh"], params["kernel_width"], params["crop"],
                                                 params["max_iter"], show_pbar=False, **extra).run()
            return True, mr.app.EspiritCalib(ksp, show_pbar=False, **params, **extra).run()
    except Exception as e:  # every generated configuration is inside the documented domain
        r.fail(key + ":raises", "%s: %s" % (type(e).__name__, e))
        return False, None
    finally:
        np.random.set_state(state)


def _map_invariants(r, pre, mps, ksp):
    """shape / finite / unit-or-zero / phase reference.  Returns (ok_shape, norms, zero mask)."""
    mps = np.asarray(mps)
    if not r.check(mps.shape == ksp.shape, pre + "shape", "maps %s for k-space %s" % (mps.shape, ksp.shape)):
        return False, None, None
    fin = np.isfinite(mps)
    r.check(fin.all(), pre + "nonfinite", "%d non-finite map entries" % int((~fin).sum()))
    m = mps.astype(np.complex128)
    nrm = np.sqrt((np.abs(m) ** 2).sum(0))
    zero = (m == 0).all(0)
    unit = np.abs(nrm - 1) <= TOL_NORM
    bad = ~(zero | unit) & np.isfinite(nrm)
    if bad.any():
        i = np.unravel_index(np.argmax(np.where(bad, np.abs(nrm - 1), -1)), nrm.shape)
        r.fail(pre + "norm", "%d voxels have coil norm neither 0 nor 1 +- %g; worst %.9g at %s"
               % (int(bad.sum()), TOL_NORM, nrm[i], list(map(int, i))))
    im = np.abs(m[0].imag)
    im = np.where(np.isfinite(im), im, 0)
    r.check(im.max() <= TOL_IMAG, pre + "phase:coil0-imag", "max |imag(maps[0])| = %.3g > %g" % (im.max(), TOL_IMAG))
    re = np.where(np.isfinite(m[0].real), m[0].real, 0)
    r.check(re.min() >= 0, pre + "phase:coil0-negative", "min real(maps[0]) = %.3g < 0" % re.min())
    with np.errstate(invalid="ignore"):
        worst = float(np.nanmax(np.where(zero, 0, np.abs(nrm - 1)))) if nrm.size else 0.0
    return True, (nrm, worst, float(im.max())), zero


def check_case(case):
    r = R()
    shape, nc, params = case["shape"], case["nc"], dict(case["params"])
    nd = len(shape)
    ksp, true_maps = make_data(case)
    ksp = A.relayout(ksp, case.get("layout", "c"))       # caller's k-space in the generated memory layout (same values)
    seed = derive_seed("C17", case["seed"], case["nc"], *shape)
    eff = dict(DEFAULTS)
    eff.update(params)
    crop = eff["crop"]
    rec = recovery_domain(case)

    ok, out = _run(r, "espirit", ksp, params, seed, output_eigenvalue=True)
    ncrop = 0
    if ok:
        if not (isinstance(out, tuple) and len(out) == 2):
            r.fail("espirit:eig:missing", "output_eigenvalue=True did not return (maps, eigenvalues)")
            out = (out, None)
        mps, ev = out
        okshape, info, zero = _map_invariants(r, "espirit:", mps, ksp)
        if info is not None:
            r.notes["norm_dev_over_tol"] = info[1] / TOL_NORM
            r.notes["imag_over_tol"] = info[2] / TOL_IMAG
        evr = None
        if ev is not None:
            ev = np.asarray(ev)
            if ev.shape == (1,) + tuple(shape):
                ev = ev[0]
            if r.check(ev.shape == tuple(shape), "espirit:eig:shape",
                       "eigenvalues %s for image shape %s" % (ev.shape, shape)):
                if np.iscomplexobj(ev):
                    r.check(np.abs(ev.imag).max() == 0, "espirit:eig:complex", "eigenvalues have an imaginary part")
                evr = ev.real.astype(np.float64)
                r.check(np.isfinite(evr).all(), "espirit:eig:nonfinite", "non-finite eigenvalues")
                e = np.where(np.isfinite(evr), evr, 0.5)
                r.check(e.max() <= 1 + TOL_EIG_HI, "espirit:eig:above-one",
                        "max eigenvalue %.9g > 1 (max_iter=%d)" % (e.max(), eff["max_iter"]))
                r.check(e.min() >= -TOL_EIG_LO, "espirit:eig:negative", "min eigenvalue %.3g < 0" % e.min())
                r.notes["eig_excess_over_tol"] = float(e.max() - 1) / TOL_EIG_HI
        if okshape and evr is not None:
            below = evr <= crop - CROP_BAND   # does not exceed the threshold -> must be exactly zero
            above = evr >= crop + CROP_BAND   # exceeds -> must be kept (unit norm)
            r.check(zero[below].all(), "espirit:crop:kept-below-threshold",
                    "%d voxels with eigenvalue <= crop=%g are not zero" % (int((~zero[below]).sum()), crop))
            r.check(not zero[above].any(), "espirit:crop:zeroed-above-threshold",
                    "%d voxels with eigenvalue > crop=%g are zero" % (int(zero[above].sum()), crop))
            ncrop = int(below.sum())
            amb = int((~below & ~above).sum())
            if amb:
                r.label("crop-tie-skipped")
        # recovery on the well-posed sub-domain: every interior voxel (cropped voxels count as disagreement)
        sl = recovery_region(case) if rec else None
        if okshape and rec and sl is not None:
            ref = np.abs(true_maps) / np.sqrt((np.abs(true_maps) ** 2).sum(0))
            err = np.abs(np.abs(np.asarray(mps).astype(np.complex128)) - ref)[sl]
            err = np.where(np.isfinite(err), err, 1.0)
            worst = float(err.max())
            r.notes["rec_err_over_tol"] = worst / TOL_REC
            if evr is not None:
                r.notes["rec_min_interior_eig"] = float(evr[sl[1:]].min())
            if worst > TOL_REC:
                i = np.unravel_index(np.argmax(err), err.shape)
                r.fail("espirit:recovery", "interior | |m| - |s|/rss | = %.4f > %g at coil %d (eigenvalue there %s, crop %g)"
                       % (worst, TOL_REC, i[0], "n/a" if evr is None else "%.4f" % evr[sl[1:]][i[1:]], crop))
        # default output mode returns the maps alone with the same invariants and the same support
        if case["plain_run"]:
            ok2, mps2 = _run(r, "espirit:plain", ksp, params, seed)
            if ok2:
                if isinstance(mps2, tuple):
                    r.fail("espirit:plain:tuple", "output_eigenvalue=False returned a tuple")
                else:
                    ok3, _, zero2 = _map_invariants(r, "espirit:plain:", mps2, ksp)
                    if ok3 and okshape and evr is not None:
                        r.check(zero2[below].all() and not zero2[above].any(), "espirit:plain:crop",
                                "support of the maps differs from {eigenvalue > crop} in the default output mode")

    nondefault = any(eff[k] != DEFAULTS[k] for k in DEFAULTS)
    r.label(case["cls"], case["family"], "%dD" % nd, case["dtype"])
    if shape.count(shape[0]) != nd:
        r.label("rectangular")
    if rec:
        r.label("recovery-asserted")
    if case.get("object"):
        r.label("object-smaller-than-fov")
    if ok and ncrop:
        r.label("cropped-all" if ncrop == A.prod(shape) else "cropped-some")
    elif ok:
        r.label("cropped-none")
    if params.get("calib_width") == params.get("kernel_width"):
        r.label("calib==kernel")
    if eff["max_iter"] <= 6:
        r.label("iters<=6")
    if case["plain_run"]:
        r.label("plain-output-mode")
    r.nontrivial = nondefault or nd == 3 or ncrop > 0
    if case.get("scale", 1.0) != 1.0:
        r.label("scaled-kspace")
    r.sig = "%s|%s|%d|%s|%g|%s" % (case["family"], shape, nc, case["dtype"], case.get("scale", 1.0), sorted(params.items()))
    return r


PARTS = [Part("espirit", check_case, {"quick": 1500, "thorough": 15000}, strategy=st_case,
              shrink={"quick": False, "thorough": True})]
