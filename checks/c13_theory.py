"""C13 - proximal-gradient and primal-dual solvers converge as their theory guarantees.

History invariants evaluated after EVERY update against constants taken from the theorems
(Beck-Teboulle 2009 Thm 3.1 / 4.4 with L -> 1/alpha; He-Yuan / Chambolle-Pock proximal-point form of
PDHG in the M-norm; Chambolle-Pock 2011 Alg. 2 accelerated rate), with x*, F*, and the dual optimum
from a primal/dual-certified dense reference (vlib.refsolve).
"""
import warnings

import numpy as np
from hypothesis import strategies as st

from vlib.refsolve import Problem, prox_g
from vlib import arrays as A_
from vlib.runner import Part, R

PROPERTY = "C13"
RULE = ("Hypothesis-generated small composite problems f(Ax)+g(x): dense A (m x n <= 8 x 6, real/complex, kappa up to 1e3, "
        "Nesterov worst-case tridiagonal, correlated-column designs), g in {0, l1, l2^2, box}, admissible steps (scalar c/L, "
        "c in (0,1]; PDHG scalar or diagonal-preconditioned array steps), accelerate / gamma options; oracle after every "
        "update: (GM) monotone objective when not accelerated, F(x_k)-F* <= ||x0-x*||^2/(2 alpha k) resp. "
        "2||x0-x*||^2/(alpha (k+1)^2); (PDHG) proximal-point inequality ||w_{n+1}-w*||_M^2 <= ||w_n-w*||_M^2 - "
        "||w_{n+1}-w_n||_M^2, min-step bound, saddle point fixed, accelerated envelope tau_N^2(...); in-place updates. "
        "non-trivial: >= 10 updates checked with a non-vacuous bound (gap > 1e-12 scale) and (ill-conditioned or g != 0). "
        "distinct = instance signature.")
ASSUMPTIONS = [
    "bounds use 1/alpha in place of L (for alpha < 1/L the property's form with L would be stronger than the theorem)",
    "PDHG distance is the M-norm of the proximal-point form, M = [[1/tau, -A^H],[-A, 1/sigma]] on w_n = (x_n, u_{n+1}); the cross "
    "term cannot be dropped",
    "dual-accelerated envelope (gamma_dual > 0) is asserted with the calibrated constant C = 4 (measured 1.34 scalar, see evidence notes for arrays), the only "
    "non-theorem constant; array steps with primal acceleration: Chambolle-Pock Thm 2 in the rescaled variables (modulus gamma*min(tau0))",
    "reference optimum certified by duality gap <= 1e-8; uncertified instances are skipped and counted",
]


def _unitary(rng, n, cplx):
    M = rng.standard_normal((n, n)) + (1j * rng.standard_normal((n, n)) if cplx else 0)
    return np.linalg.qr(M)[0]


def make_A(case):
    rng = np.random.default_rng(case["seed"])
    n, m, cplx = case["n"], max(case["m"], case["n"]), case["cplx"]
    kind = case["A"]
    if kind == "identity":
        return np.eye(n) + (0j if cplx else 0)
    if kind == "spectrum":
        U = _unitary(rng, m, cplx)[:, :n]
        V = _unitary(rng, n, cplx)
        s = np.exp(rng.uniform(np.log(case["smin"]), 0, size=n))
        s[0] = 1.0
        return (U * s) @ V.conj().T
    if kind == "nesterov":
        # A^T A = tridiag(-1, 2, -1)/4 : the worst-case function for first-order methods
        T = (2 * np.eye(n) - np.eye(n, k=1) - np.eye(n, k=-1)) / 4.0
        return np.linalg.cholesky(T).conj().T + 0j if cplx else np.linalg.cholesky(T).T
    if kind == "correlated":
        base = rng.standard_normal((m, 1)) + (1j * rng.standard_normal((m, 1)) if cplx else 0)
        E = rng.standard_normal((m, n)) + (1j * rng.standard_normal((m, n)) if cplx else 0)
        Am = base + case["smin"] * 3 * E
        return Am / np.linalg.norm(Am, 2)
    Am = rng.integers(-4, 5, size=(m, n)) / 4.0 + (1j * rng.integers(-4, 5, size=(m, n)) / 4.0 if cplx else 0)
    Am = Am + 0.5 * np.eye(m, n)
    if not np.any(Am):
        Am[0, 0] = 1.0
    return Am


def make_g(sp, case, n, dt, rng):
    g = case["g"]
    mu = case["mu"]
    z = None
    if g == "l1":
        return sp.prox.L1Reg([n], mu), "l1", mu, None
    if g == "l2":
        z = (rng.standard_normal(n) + (1j * rng.standard_normal(n) if case["cplx"] else 0)).astype(dt)
        return sp.prox.L2Reg([n], mu, y=z), "l2z", mu, z
    if g == "box":
        return sp.prox.BoxConstraint([n], -mu, mu), "box", mu, None
    return None, None, 0.0, None


def reference(Am, y, gkind, mu, z):
    """min 1/2||Ax-y||^2 + g(x); l2z (mu/2||x-z||^2) is folded into lamda."""
    if gkind == "l2z":
        p = Problem(Am, y, lamda=mu, z=z)
    else:
        p = Problem(Am, y, gkind=gkind, gpar=mu)
    return p, p.solve()


# ------------------------------------------------------------------ GradientMethod


@st.composite
def st_gm(draw):
    c = {"seed": draw(st.integers(0, 10 ** 6)), "n": draw(st.integers(1, 6)), "m": draw(st.integers(1, 8)),
         "cplx": draw(st.booleans()), "A": draw(st.sampled_from(["spectrum", "spectrum", "nesterov", "correlated", "dyadic"])),
         "smin": draw(st.sampled_from([1.0, 0.3, 0.1, 1 / 30.0])), "g": draw(st.sampled_from(["none", "l1", "l2", "box"])),
         "mu": draw(st.sampled_from([0.05, 0.25, 1.0])), "c": draw(st.sampled_from([1.0, 1.0, 0.9, 0.5, 0.1])),
         "accelerate": draw(st.booleans()), "K": draw(st.sampled_from([1, 2, 3, 20, 60, 150, 300])),
         # precision of the caller's iterate: the system's (double) or single (updates are then rounded into it)
         "xsingle": draw(st.sampled_from([False] * 5 + [True])),
         "start": draw(st.sampled_from(["zero", "rand", "rand", "optimum"])), "func": draw(st.booleans()),
         # memory layout of the caller's x; "alias": f = 1/2||x||^2 handed over as gradf = lambda v: v (returns its argument)
         "layout": draw(st.sampled_from(["c", "c", "c", "strided", "revstride"])),
         "alias": draw(st.sampled_from([False] * 7 + [True])),
         # how the boolean flag is spelled by the caller: Python bool, numpy.bool_ (a comparison result), or 0/1
         "flag": draw(st.sampled_from(["bool", "bool", "np.bool_", "int"])),
         "positional": draw(st.sampled_from([False, False, True]))}
    if c["g"] == "box":
        c["cplx"] = False
    if c["alias"]:
        c["A"] = "identity"
    return c


def check_gm(case):
    import sigpy as sp
    warnings.simplefilter("ignore")
    r = R()
    rng = np.random.default_rng(case["seed"] + 1)
    Am = make_A(case)
    m, n = Am.shape
    cplx = case["cplx"]
    dt = np.complex128 if cplx else np.float64
    Am = Am.astype(dt)
    y = (rng.standard_normal(m) + (1j * rng.standard_normal(m) if cplx else 0)).astype(dt)
    if case.get("alias"):
        y = np.zeros(m, dt)
    proxg, gkind, mu, z = make_g(sp, case, n, dt, rng)
    prob, ref = reference(Am, y, gkind, mu, z)
    r.label("g:" + case["g"], "accel" if case["accelerate"] else "plain", "A:" + case["A"], "start:" + case["start"])
    r.sig = "|".join("%s=%s" % (k, case[k]) for k in sorted(case) if k not in ("part", "prelude"))
    if not ref["certified"]:
        r.label("reference-uncertified")
        return r
    xs, Fs = ref["x"], ref["hi"]
    L = np.linalg.norm(Am, 2) ** 2
    alpha = case["c"] / L
    if case["start"] == "zero":
        x = np.zeros(n, dt)
    elif case["start"] == "optimum":
        x = xs.astype(dt).copy()
    else:
        x = (rng.standard_normal(n) + (1j * rng.standard_normal(n) if cplx else 0)).astype(dt)
        if gkind == "box":
            x = np.clip(x, -mu, mu)
    single = bool(case.get("xsingle"))
    if single:
        x = x.astype(np.complex64 if cplx else np.float32)
        r.label("x:single-precision")
    eps_s = 1e4 if single else 1.0          # rounding of the iterate into single precision
    x = A_.relayout(x, case.get("layout", "c"))
    if case.get("layout", "c") != "c":
        r.label("x-layout:" + case["layout"])
    x_passed = x
    x_twin = np.array(x, copy=True)
    gradf = (lambda v: Am.conj().T @ (Am @ v - y))
    if case.get("alias"):
        gradf = (lambda v: v)
        r.label("gradf-returns-its-argument")
    pg = proxg if not case["func"] or proxg is None else (lambda a, v, _p=proxg: _p(a, v))
    acc = case["accelerate"]
    if case.get("flag") == "np.bool_":
        acc = np.bool_(acc)
    elif case.get("flag") == "int":
        acc = int(acc)
    if case.get("positional"):
        alg = sp.alg.GradientMethod(gradf, x, alpha, pg, acc, case["K"], 0)    # (gradf, x, alpha, proxg, accelerate, max_iter, tol)
    else:
        alg = sp.alg.GradientMethod(gradf, x, alpha, proxg=pg, accelerate=acc, max_iter=case["K"], tol=0)
    # the iterates must not depend on the iteration budget: a twin with a larger max_iter is advanced alongside
    if case.get("positional"):
        twin = sp.alg.GradientMethod(gradf, x_twin, alpha, pg, acc, case["K"] + 7, 0)
    else:
        twin = sp.alg.GradientMethod(gradf, x_twin, alpha, proxg=pg, accelerate=acc, max_iter=case["K"] + 7, tol=0)
    d0 = float(np.linalg.norm(x - xs) ** 2)
    # the reference optimum is certified by its duality gap only: ||x_ref - x*|| <= sqrt(2 gap / mu_F) with mu_F the
    # strong-convexity modulus of F; the prox-gradient map is non-expansive, so a start at x_ref may move by twice that
    muF = float(np.linalg.eigvalsh(Am.conj().T @ Am)[0]) + (mu if gkind == "l2z" else 0.0)
    gapc = max(float(ref.get("gap", 0.0)), 0.0) + 1e-15 * max(abs(float(ref["hi"])), 1.0)
    opt_tol = 1e-8 * eps_s * (1 + np.linalg.norm(xs)) + 2.0 * np.sqrt(2.0 * gapc / max(muF, 1e-300))
    F_prev = prob.F(x)
    scale = max(abs(Fs), abs(F_prev), 1e-12)
    slack = 1e-9 * scale + 1e-7 * max(F_prev - Fs, 0)
    if single:
        # an iterate held in single precision carries an error delta ~ 1e-6 (1 + ||x||); the objective then moves by
        # up to ||grad F|| delta + L delta^2 / 2 <= L (||x - x*|| + delta) delta: an ABSOLUTE term, not relative to F
        slack = slack * eps_s + 1e-5 * (L + 1.0) * (1.0 + float(np.linalg.norm(xs)) + float(np.linalg.norm(x.astype(dt)))) ** 2
    checked = 0
    nonvac = 0
    for k in range(1, case["K"] + 1):
        if alg.done():
            break
        try:
            alg.update()
        except Exception as e:
            r.fail("gm:update-raises", "%s: %s" % (type(e).__name__, e))
            return r
        if alg.x is not x_passed:
            r.fail("gm:not-in-place", "alg.x is no longer the caller's array after update %d" % k)
            return r
        if k <= 6:
            try:
                twin.update()
                if not np.linalg.norm((x_twin - x_passed).astype(np.complex128)) <= 1e-12 * eps_s * (1 + np.linalg.norm(x_passed.astype(np.complex128))):
                    r.fail("gm:iterate-depends-on-max_iter", "update %d with max_iter=%d differs from the same update with max_iter=%d by %.3e"
                           % (k, case["K"], case["K"] + 7, np.linalg.norm((x_twin - x_passed).astype(np.complex128))))
                    return r
            except Exception as e:
                r.fail("gm:update-raises", "%s: %s" % (type(e).__name__, e))
                return r
        Fk = prob.F(x_passed.astype(dt))
        if not np.isfinite(Fk):
            r.fail("gm:infeasible-or-nonfinite", "F(x_%d) = %s" % (k, Fk))
            return r
        if not case["accelerate"] and not Fk <= F_prev + slack:
            r.fail("gm:objective-increased:plain", "F(x_%d) = %.12g > F(x_%d) = %.12g (alpha = %.3g/L, g = %s)"
                   % (k, Fk, k - 1, F_prev, case["c"], case["g"]))
            return r
        if case["accelerate"]:
            bound = 2 * d0 / (alpha * (k + 1) ** 2)
        else:
            bound = d0 / (2 * alpha * k)
        gap = Fk - Fs
        if not gap <= bound * (1 + 1e-9) + slack:
            r.fail("gm:rate:%s" % ("accelerated" if case["accelerate"] else "plain"),
                   "F(x_%d)-F* = %.6e exceeds the bound %.6e (alpha = %.3g/L, g = %s, A = %s)"
                   % (k, gap, bound, case["c"], case["g"], case["A"]))
            return r
        if case["start"] == "optimum" and not np.linalg.norm(x_passed - xs) <= opt_tol:
            r.fail("gm:leaves-optimum", "started at x*, after update %d the iterate moved by %.3e"
                   % (k, np.linalg.norm(x_passed - xs)))
            return r
        checked += 1
        if gap > 1e-12 * scale:
            nonvac += 1
        F_prev = Fk
    r.notes["checked"] = checked
    r.nontrivial = nonvac >= 10 and (case["smin"] < 0.5 or case["g"] != "none" or case["A"] != "spectrum")
    return r


# ------------------------------------------------------------------ PDHG


@st.composite
def st_pdhg(draw):
    c = {"seed": draw(st.integers(0, 10 ** 6)), "n": draw(st.integers(1, 6)), "m": draw(st.integers(1, 8)),
         "cplx": draw(st.booleans()), "A": draw(st.sampled_from(["spectrum", "spectrum", "correlated", "dyadic", "identity"])),
         "smin": draw(st.sampled_from([1.0, 0.3, 0.1])),
         # how A and A^H are handed to the solver when A is the identity (denoising-type problems): fresh arrays,
         # the argument itself (lambda v: v), sigpy's Identity / Reshape operators (which return their input / a view)
         "form": draw(st.sampled_from(["fresh", "alias", "alias", "Identity", "Reshape"])),
         "f": draw(st.sampled_from(["l2", "l2", "l2", "l1"])),
         "g": draw(st.sampled_from(["none", "l1", "l2", "box"])), "mu": draw(st.sampled_from([0.05, 0.25, 1.0])),
         "steps": draw(st.sampled_from(["scalar", "scalar", "array"])), "c": draw(st.sampled_from([1.0, 1.0, 0.8, 0.3])),
         "ratio": draw(st.sampled_from([1.0, 0.1, 10.0])),
         "accel": draw(st.sampled_from([None, None, "primal", "dual"])), "K": draw(st.sampled_from([1, 2, 3, 20, 60, 150, 300])),
         "xsingle": draw(st.sampled_from([False] * 5 + [True])),
         "start": draw(st.sampled_from(["zero", "rand", "rand", "saddle"])), "func": draw(st.booleans()),
         "layout": draw(st.sampled_from(["c", "c", "c", "strided", "revstride"])),
         "positional": draw(st.sampled_from([False, False, True]))}
    if c["g"] == "box":
        c["cplx"] = False
    if c["f"] == "l1":
        c["g"] = "l2"          # g strongly convex: the saddle point is unique (ROF / TV-denoising shape)
        if c["accel"] == "dual":
            c["accel"] = "primal"
    if c["accel"] == "primal":
        c["g"] = "l2"
    if c["accel"] == "dual":
        c["f"] = "l2"
    return c


def mnorm2(dx, du, Am, tau, sigma):
    return float(np.sum(np.abs(dx) ** 2 / tau) + np.sum(np.abs(du) ** 2 / sigma) - 2 * np.real(np.vdot(du, Am @ dx)))


def check_pdhg(case):
    import sigpy as sp
    warnings.simplefilter("ignore")
    r = R()
    rng = np.random.default_rng(case["seed"] + 1)
    Am = make_A(case)
    m, n = Am.shape
    cplx = case["cplx"]
    dt = np.complex128 if cplx else np.float64
    Am = Am.astype(dt)
    y = (rng.standard_normal(m) + (1j * rng.standard_normal(m) if cplx else 0)).astype(dt)
    proxg, gkind, mu, z = make_g(sp, case, n, dt, rng)
    if proxg is None:
        proxg = sp.prox.NoOp([n])
    nu = 0.5
    if case["f"] == "l2":
        proxfc = sp.prox.L2Reg([m], 1, y=-y)
        prob, ref = reference(Am, y, gkind, mu, z)
        if ref["certified"]:
            xs = ref["x"]
            us = Am @ xs - y
    else:
        # f = nu*||.||_1 (f* = indicator of the l-inf ball), g = mu/2 ||x - z||^2
        proxfc = sp.prox.LInfProj([m], nu)
        prob = Problem(np.sqrt(mu) * np.eye(n, dtype=dt), np.sqrt(mu) * z, G=Am, gkind="l1", gpar=nu)
        ref = prob.solve()
        if ref["certified"]:
            xs = ref["x"]
            us = -np.linalg.lstsq(Am.conj().T, mu * (xs - z), rcond=None)[0] if False else ref["w"]
    r.label("f:" + case["f"], "g:" + case["g"], "steps:" + case["steps"], "accel:" + str(case["accel"]), "start:" + case["start"])
    r.sig = "|".join("%s=%s" % (k, case[k]) for k in sorted(case) if k not in ("part", "prelude"))
    if not ref["certified"]:
        r.label("reference-uncertified")
        return r
    # verify the saddle point itself (harness certificate): x* = prox_g(x* - tau A^H u*), u* = prox_f*(u* + sigma A x*)
    nrm = np.linalg.norm(Am, 2)
    if case["steps"] == "scalar":
        sigma = case["ratio"] / nrm
        tau = case["c"] / (sigma * nrm ** 2)
        tau_a, sig_a = np.full(n, tau), np.full(m, sigma)
    else:
        colsum = np.sum(np.abs(Am), axis=0)
        rowsum = np.sum(np.abs(Am), axis=1)
        tau_a = case["c"] / np.where(colsum > 0, colsum, 1.0)
        sig_a = 1.0 / np.where(rowsum > 0, rowsum, 1.0)
        tau, sigma = tau_a.copy(), sig_a.copy()
    xr = np.asarray(proxg(tau, xs - tau * (Am.conj().T @ us)))
    ur = np.asarray(proxfc(sigma, us + sigma * (Am @ xs)))
    kkt = max(np.linalg.norm(xr - xs), np.linalg.norm(ur - us)) / (1 + np.linalg.norm(xs) + np.linalg.norm(us))
    if not kkt <= 1e-7:
        r.label("saddle-uncertified")
        return r
    if case["start"] == "zero":
        x, u = np.zeros(n, dt), np.zeros(m, dt)
    elif case["start"] == "saddle":
        x, u = xs.astype(dt).copy(), us.astype(dt).copy()
    else:
        x = (rng.standard_normal(n) + (1j * rng.standard_normal(n) if cplx else 0)).astype(dt)
        u = (rng.standard_normal(m) + (1j * rng.standard_normal(m) if cplx else 0)).astype(dt)
    single = bool(case.get("xsingle")) and case["accel"] is None
    if single:
        x, u = x.astype(np.complex64 if cplx else np.float32), u.astype(np.complex64 if cplx else np.float32)
        r.label("xu:single-precision")
    eps_s = 1e4 if single else 1.0
    x, u = A_.relayout(x, case.get("layout", "c")), A_.relayout(u, case.get("layout", "c"))
    x_twin, u_twin = np.array(x, copy=True), np.array(u, copy=True)
    if case.get("layout", "c") != "c":
        r.label("xu-layout:" + case["layout"])
    x_passed, u_passed = x, u
    kw = {}
    gam = 0.0
    if case["accel"] == "primal":
        gam = mu
        kw["gamma_primal"] = mu
    elif case["accel"] == "dual":
        gam = 1.0
        kw["gamma_dual"] = 1.0
    pg = proxg if not case["func"] else (lambda a, v, _p=proxg: _p(a, v))
    pf = proxfc if not case["func"] else (lambda a, v, _p=proxfc: _p(a, v))
    Aop = (lambda v: Am @ v)
    AHop = (lambda v: Am.conj().T @ v)
    if case["A"] == "identity" and case.get("form", "fresh") != "fresh":
        r.label("A-form:" + case["form"])
        if case["form"] == "alias":
            Aop = AHop = (lambda v: v)
        elif case["form"] == "Identity":
            Aop = sp.linop.Identity([n])
            AHop = Aop.H
        else:
            Aop = sp.linop.Reshape([n], [n])
            AHop = Aop.H
    tau_arg = tau.copy() if isinstance(tau, np.ndarray) else tau
    sig_arg = sigma.copy() if isinstance(sigma, np.ndarray) else sigma
    if case.get("positional"):
        # (proxfc, proxg, A, AH, x, u, tau, sigma, theta, gamma_primal, gamma_dual, max_iter, tol)
        alg = sp.alg.PrimalDualHybridGradient(pf, pg, Aop, AHop, x, u, tau_arg, sig_arg, 1, kw.get("gamma_primal", 0),
                                              kw.get("gamma_dual", 0), case["K"], 0)
    else:
        alg = sp.alg.PrimalDualHybridGradient(pf, pg, Aop, AHop, x, u, tau_arg, sig_arg, max_iter=case["K"], tol=0, **kw)
    if case.get("positional"):
        twin = sp.alg.PrimalDualHybridGradient(pf, pg, Aop, AHop, x_twin, u_twin,
                                               tau.copy() if isinstance(tau, np.ndarray) else tau,
                                               sigma.copy() if isinstance(sigma, np.ndarray) else sigma, 1,
                                               kw.get("gamma_primal", 0), kw.get("gamma_dual", 0), case["K"] + 7, 0)
    else:
        twin = sp.alg.PrimalDualHybridGradient(pf, pg, Aop, AHop, x_twin, u_twin,
                                               tau.copy() if isinstance(tau, np.ndarray) else tau,
                                               sigma.copy() if isinstance(sigma, np.ndarray) else sigma,
                                               max_iter=case["K"] + 7, tol=0, **kw)
    x0, u0 = x.astype(dt), u.astype(dt)
    E0x, E0u = float(np.linalg.norm(x0 - xs) ** 2), float(np.linalg.norm(u0 - us) ** 2)
    prev_w = None
    d_prev = None
    steps_M = []
    tau_h = tau if np.isscalar(tau) else None
    sig_h = sigma if np.isscalar(sigma) else None
    checked = 0
    for k in range(1, case["K"] + 1):
        if alg.done():
            break
        x_before = x_passed.copy()
        try:
            alg.update()
        except Exception as e:
            r.fail("pdhg:update-raises", "%s: %s" % (type(e).__name__, e))
            return r
        if alg.x is not x_passed or alg.u is not u_passed:
            r.fail("pdhg:not-in-place", "alg.x / alg.u are no longer the caller's arrays after update %d" % k)
            return r
        if not (np.all(np.isfinite(x_passed)) and np.all(np.isfinite(u_passed))):
            r.fail("pdhg:non-finite", "iterate not finite after update %d" % k)
            return r
        if k <= 6:
            try:
                twin.update()
                dv = max(np.linalg.norm((x_twin - x_passed).astype(np.complex128)), np.linalg.norm((u_twin - u_passed).astype(np.complex128)))
                if not dv <= 1e-12 * eps_s * (1 + np.linalg.norm(x_passed.astype(np.complex128)) + np.linalg.norm(u_passed.astype(np.complex128))):
                    r.fail("pdhg:iterate-depends-on-max_iter", "update %d with max_iter=%d differs from the same update with max_iter=%d by %.3e"
                           % (k, case["K"], case["K"] + 7, dv))
                    return r
            except Exception as e:
                r.fail("pdhg:update-raises", "%s: %s" % (type(e).__name__, e))
                return r
        if gkind == "box" and not np.all(np.abs(np.real(x_passed)) <= mu * (1 + 1e-6) + 1e-12):
            r.fail("pdhg:iterate-outside-dom-g", "after update %d the primal iterate leaves the box |x| <= %g (max %.6g): it is not a "
                   "value of prox_g" % (k, mu, float(np.max(np.abs(np.real(x_passed))))))
            return r
        if case["start"] == "saddle" and k <= 2:
            mv = max(np.linalg.norm(x_passed - xs), np.linalg.norm(u_passed - us)) / (1 + np.linalg.norm(xs) + np.linalg.norm(us))
            # the reference saddle point is itself only a fixed point up to its certificate `kkt` (<= 1e-7, computed
            # above as the movement of one exact step); two updates may amplify that by the step operators' norms
            if not mv <= (1e-7 + 50 * kkt) * eps_s:
                r.fail("pdhg:saddle-not-fixed:%s" % (case["accel"] or "plain"), "started at the saddle point, update %d moved the iterate by %.3e (relative)" % (k, mv))
                return r
        if case["accel"] is None:
            w = (x_before, u_passed.copy())     # w_n = (x_n, u_{n+1})
            d = mnorm2(w[0] - xs, w[1] - us, Am, tau_a, sig_a)
            sl = 1e-7 * (abs(d) + E0x / np.min(tau_a) + E0u / np.min(sig_a) + 1e-12)
            if single:
                sl = sl * eps_s + 1e-5 * (1.0 / np.min(tau_a) + 1.0 / np.min(sig_a) + nrm) * (
                    1.0 + float(np.linalg.norm(xs)) + float(np.linalg.norm(us)) + np.sqrt(E0x) + np.sqrt(E0u)) ** 2
            if prev_w is not None:
                stepM = mnorm2(w[0] - prev_w[0], w[1] - prev_w[1], Am, tau_a, sig_a)
                steps_M.append(stepM)
                if not d <= d_prev - stepM + sl:
                    r.fail("pdhg:fejer:%s" % case["steps"],
                           "||w_%d-w*||_M^2 = %.9e > ||w_%d-w*||_M^2 - ||w_%d-w_%d||_M^2 = %.9e (g=%s f=%s c=%s)"
                           % (k - 1, d, k - 2, k - 1, k - 2, d_prev - stepM, case["g"], case["f"], case["c"]))
                    return r
                N = len(steps_M)
                if not min(steps_M) <= d_first / N + sl:
                    r.fail("pdhg:min-step-bound", "min step %.3e > ||w_0-w*||_M^2/N = %.3e at N=%d" % (min(steps_M), d_first / N, N))
                    return r
            else:
                d_first = d
            prev_w, d_prev = w, d
        else:
            # Harness's own step recursion (Chambolle-Pock 2011, Alg. 2).  For array (diagonal) steps the iteration is
            # Alg. 2 in the variables x' = T0^(-1/2) x, u' = Sigma0^(-1/2) u with unit scalar steps and strong-convexity
            # modulus gamma * min(tau0): the telescoped inequality of Thm 2 reads, for every N,
            #   sum |x_N - x*|^2 / tau0  <=  s_N^2 ( sum |x_0 - x*|^2 / tau0 + sum |u_0 - u*|^2 / sigma0 ),
            # s_0 = 1, s_{n+1} = s_n / sqrt(1 + 2 gamma min(tau0) s_n)  (scalar steps: the same with tau_n = s_n tau0).
            C0 = float(np.sum(np.abs(x0 - xs) ** 2 / tau_a) + np.sum(np.abs(u0 - us) ** 2 / sig_a))
            if k == 1:
                s_h = 1.0
            if case["accel"] == "primal":
                s_h = s_h / np.sqrt(1 + 2 * gam * float(np.min(tau_a)) * s_h)
                err = float(np.sum(np.abs(x_passed - xs) ** 2 / tau_a))
                C = 1.0
            else:
                s_h = s_h / np.sqrt(1 + 2 * gam * float(np.min(sig_a)) * s_h)
                err = float(np.sum(np.abs(u_passed - us) ** 2 / sig_a))
                C = 4.0
            bound = s_h ** 2 * C0
            r.notes["worst_accel_ratio"] = max(r.notes.get("worst_accel_ratio", 0.0), err / max(bound, 1e-300))
            if not err <= C * bound * (1 + 1e-9) + 1e-14 * (1 + C0) + 1e-7 * bound:
                r.fail("pdhg:accelerated-rate:%s:%s" % (case["accel"], case["steps"]),
                       "after %d updates the step-weighted squared error %.6e exceeds %s * s_N^2 * (initial weighted distance) = %.6e"
                       % (k, err, C, C * bound))
                return r
        checked += 1
    r.nontrivial = checked >= 10 and (case["g"] != "none" or case["smin"] < 0.5 or case["f"] == "l1")
    return r


PARTS = [
    Part("gm", check_gm, {"quick": 12800, "thorough": 150000}, strategy=st_gm),
    Part("pdhg", check_pdhg, {"quick": 12800, "thorough": 150000}, strategy=st_pdhg),
]
