"""C16 - SENSE operator equals the explicit multi-coil encoding; recons minimise it.

Part 'operator': Sense(mps, coord, weights, coil_batch_size) vs the explicit model
                 y_c = sqrt(w) * F(mps_c * x), F = centred unitary DFT matrix (Cartesian, exact) or exact
                 NUDFT (non-Cartesian, within the NUFFT accuracy); batched == unbatched forward and adjoint;
                 dense adjoint identity; real-dtype images.
Part 'recon'   : SenseRecon / TotalVariationRecon / L1WaveletRecon(haar, power-of-two shapes) with every
                 solver the app accepts: harness-evaluated documented objective vs certified reference
                 optimum; consistent fully determined data reproduce the image.
"""
import warnings

import numpy as np
from hypothesis import strategies as st

from vlib import arrays as A
from vlib import linops as LO
from vlib.refsolve import Problem
from vlib.runner import Part, R

PROPERTY = "C16"
RULE = ("(operator) Hypothesis-generated image shapes (2-D/3-D, lengths 1-5, odd/even), coils 1-4, coil_batch_size in "
        "1..nc incl. non-dividing, Cartesian or 4-24 non-Cartesian points incl. out of range, weights None/array, complex "
        "and real-dtype images; oracle: explicit sqrt(w)*F*(mps_c x) from the harness's DFT matrix (1e-9) or exact NUDFT "
        "(3% of sqrt(npts)*||mps_c x||), batched == unbatched for A and A.H (1e-12), mat(A.H) == mat(A)^H. (recon) "
        "SenseRecon/TotalVariationRecon/L1WaveletRecon(haar, 2^k shapes) x solver options: objective from the dense "
        "matrix of the operator the app built, optimum from a duality-certified reference, gap <= 1e-3*max(F(0)-F*,|F*|); "
        "consistent fully determined data: relative error <= 1e-3. non-trivial: weights with batching, 3-D, lamda>0, or "
        "non-Cartesian. distinct = configuration signature.")
ASSUMPTIONS = [
    "tseg / comm / transp_nufft are outside the property's quantifier and are not generated",
    "maps are root-sum-of-squares normalised in the recon part so that conditioning (and the iteration budgets: CG n+5, "
    "GradientMethod 500, PDHG 1500, ADMM 120) is controlled; instances with cond(A^H A + lamda I) > 20 are skipped and counted",
    "L1WaveletRecon only with wave_name='haar' on power-of-two shapes (W unitary, as the property says)",
    "weights are given per k-space position (shape of one coil's k-space), the form that works with every coil_batch_size",
]


def dft_matrix(shape):
    """Centred orthonormal DFT over all axes of `shape` as a dense matrix acting on C-order raveled arrays."""
    M = np.ones((1, 1), complex)
    for n in shape:
        k = np.arange(n) - n // 2
        F = np.exp(-2j * np.pi * np.outer(k, k) / n) / np.sqrt(n)
        M = np.kron(M, F)
    return M


def nudft_matrix(grid, coord):
    pts = coord.reshape(-1, len(grid))
    idx = np.stack(np.meshgrid(*[np.arange(n) - n // 2 for n in grid], indexing="ij"), -1).reshape(-1, len(grid))
    ph = (pts[:, None, :] * idx[None, :, :] / np.array(grid)[None, None, :]).sum(-1)
    return np.exp(-2j * np.pi * ph) / np.sqrt(A.prod(grid))


@st.composite
def st_operator(draw):
    nd = draw(st.sampled_from([2, 2, 3]))
    img = [draw(st.integers(1, 5 if nd == 2 else 3)) for _ in range(nd)]
    nc = draw(st.integers(1, 4))
    cart = draw(st.booleans())
    if draw(st.sampled_from([False] * 11 + [True])):
        # one long image axis (far beyond the small grids used elsewhere), non-Cartesian, few coils
        nd, nc, cart = 2, draw(st.integers(1, 2)), False
        img = [draw(st.integers(100, 260)), draw(st.integers(1, 4))]
        if draw(st.booleans()):
            img = img[::-1]
    coord = None
    if not cart:
        npts = draw(st.integers(4, 24))
        coord = LO._coord(draw, img, [npts], ("in", "in", "in", "out", "int", "tie"))
        kshape = [npts]
    else:
        kshape = list(img)
    weights = None
    if draw(st.booleans()):
        n = A.prod(kshape)
        weights = {"k": "dy", "shape": kshape, "dtype": "float64", "re": [draw(st.integers(0, 9)) for _ in range(n)],
                   "im": None, "den": 4}
    return {"img": img, "nc": nc, "coord": coord, "weights": weights,
            "cbs": draw(st.sampled_from([None] + list(range(1, nc + 1)))),
            "dtype": draw(st.sampled_from(["complex128", "complex128", "complex64"])),
            "layout": draw(st.sampled_from(A.LAYOUTS)),
            "mseed": draw(A.seeds), "xseed": draw(A.seeds)}


def check_operator(case):
    import sigpy as sp
    import sigpy.mri
    warnings.simplefilter("ignore")
    r = R()
    img, nc, dt = case["img"], case["nc"], case["dtype"]
    tol = 2e-4 if dt == "complex64" else 1e-9
    # the caller's arrays in the generated memory layout (C / Fortran / strided / reversed views of the same values)
    lay = case.get("layout", "c")
    mps = A.relayout(A.arr({"k": "g", "shape": [nc] + img, "dtype": dt, "seed": case["mseed"]}), lay)
    coord = None if case["coord"] is None else A.relayout(A.arr(case["coord"]), lay)
    w = None if case["weights"] is None else A.relayout(A.arr(case["weights"]), lay)
    x = A.relayout(A.arr({"k": "g", "shape": img, "dtype": dt, "seed": case["xseed"]}), lay)
    if lay != "c":
        r.label("layout:" + lay)
    npix = A.prod(img)
    label = "cart" if coord is None else "noncart"
    r.label(label, "weights" if w is not None else "no-weights", "batched" if case["cbs"] not in (None, nc) else "unbatched",
            "%dD" % len(img), dt)
    if case["cbs"] not in (None, nc) and nc % case["cbs"]:
        r.label("non-dividing-batch")
    try:
        Aop = sp.mri.linop.Sense(mps, coord=coord, weights=w, coil_batch_size=case["cbs"])
        A1 = sp.mri.linop.Sense(mps, coord=coord, weights=w)
    except Exception as e:
        r.fail("sense:ctor-raises", "%s: %s" % (type(e).__name__, e))
        return r
    kshape = list(img) if coord is None else list(coord.shape[:-1])
    r.check(list(Aop.ishape) == img and list(Aop.oshape) == [nc] + kshape, "sense:advertised-shape", "%s" % Aop)
    try:
        y = np.asarray(Aop(x))
        y1 = np.asarray(A1(x))
        yk = A.arr({"k": "g", "shape": [nc] + kshape, "dtype": dt, "seed": case["xseed"] + 1})
        z = np.asarray(Aop.H(yk))
        z1 = np.asarray(A1.H(yk))
    except Exception as e:
        r.fail("sense:apply-raises:%s" % label, "%s: %s" % (type(e).__name__, e.__cause__ or e))
        return r
    sc = max(np.linalg.norm(y1.ravel().astype(complex)), 1e-30)
    btol = 1e-5 if dt == "complex64" else 1e-12
    if y.shape != y1.shape or not np.linalg.norm((y - y1).ravel().astype(complex)) <= btol * sc:
        r.fail("sense:batched-forward-differs", "||A_batched x - A x|| = %.3e (rel) cbs=%s nc=%d"
               % (np.linalg.norm((y - y1).ravel()) / sc if y.shape == y1.shape else np.inf, case["cbs"], nc))
    sz = max(np.linalg.norm(z1.ravel().astype(complex)), 1e-30)
    if z.shape != z1.shape or not np.linalg.norm((z - z1).ravel().astype(complex)) <= btol * sz:
        r.fail("sense:batched-adjoint-differs", "||A_batched^H y - A^H y|| relative %.3e cbs=%s nc=%d"
               % (np.linalg.norm((z - z1).ravel()) / sz if z.shape == z1.shape else np.inf, case["cbs"], nc))
    # explicit model
    Fm = dft_matrix(img) if coord is None else nudft_matrix(img, coord)
    sq = np.ones(A.prod(kshape)) if w is None else np.sqrt(w.ravel().astype(float))
    worst = 0.0
    for c in range(nc):
        sx = (mps[c] * x).ravel().astype(complex)
        ref = sq * (Fm @ sx)
        got = y[c].ravel().astype(complex)
        err = np.linalg.norm(got - ref)
        if coord is None:
            bound = tol * max(np.linalg.norm(sx) * np.max(sq), 1e-30) * 10
        else:
            bound = 0.03 * np.sqrt(len(sq)) * np.linalg.norm(sx) * np.max(sq) + 1e-12
        worst = max(worst, err / max(bound, 1e-300))
        if not err <= bound:
            r.fail("sense:model:%s%s" % (label, ":weights" if w is not None else ""),
                   "coil %d: ||A x - sqrt(w) F (mps_c x)|| = %.3e > %.3e" % (c, err, bound))
            break
    # dense adjoint identity
    if npix <= 30:
        try:
            M = LO.mat(Aop, Aop.ishape, dt, real_only=True)[0]
            N = LO.mat(Aop.H, Aop.oshape, dt, real_only=True)[0]
            s2 = max(np.linalg.norm(M), 1e-30)
            if not np.linalg.norm(N - M.conj().T) <= tol * s2:
                r.fail("sense:adjoint", "||mat(A.H) - mat(A)^H|| / ||mat(A)|| = %.3e" % (np.linalg.norm(N - M.conj().T) / s2))
        except Exception as e:
            r.fail("sense:apply-raises:%s" % label, "%s: %s" % (type(e).__name__, e.__cause__ or e))
    # real-dtype image
    try:
        xr = x.real.copy()
        yr = np.asarray(Aop(xr))
        yc = np.asarray(Aop(xr.astype(dt)))
        if yr.shape != yc.shape or not np.linalg.norm((yr - yc).ravel().astype(complex)) <= 2e-4 * max(np.linalg.norm(yc.ravel().astype(complex)), 1e-30):
            r.fail("sense:real-image-differs", "real-dtype image gives a different result than its complex cast (batched=%s)" % case["cbs"])
    except Exception:
        r.label("real-image-rejected")
    r.notes["worst_model_ratio"] = worst
    r.nontrivial = (w is not None and case["cbs"] not in (None, nc)) or len(img) == 3 or coord is not None
    r.sig = "|".join("%s=%s" % (k, case[k] if k not in ("coord", "weights") else (None if case[k] is None else case[k]["shape"]))
                     for k in sorted(case) if k not in ("part", "prelude", "mseed", "xseed"))
    return r


# ------------------------------------------------------------------ recons

RECONS = ["SenseRecon", "SenseRecon", "TotalVariationRecon", "L1WaveletRecon"]
SOLVER_OPTS = {
    "SenseRecon": [None, "ConjugateGradient", "GradientMethod", "PrimalDualHybridGradient", "ADMM"],
    "TotalVariationRecon": [None, "PrimalDualHybridGradient", "ADMM"],
    "L1WaveletRecon": [None, "GradientMethod", "PrimalDualHybridGradient", "ADMM"],
}
ITERS = {"ConjugateGradient": None, "GradientMethod": 500, "PrimalDualHybridGradient": 1500, "ADMM": 120}


@st.composite
def st_recon(draw):
    app = draw(st.sampled_from(RECONS))
    if app == "L1WaveletRecon":
        img = draw(st.sampled_from([[2, 2], [4, 2], [2, 4], [4, 4], [2, 2, 2]]))
    else:
        nd = draw(st.sampled_from([2, 2, 2, 3]))
        img = [draw(st.integers(1, 4 if nd == 2 else 2)) for _ in range(nd)]
    nc = draw(st.integers(1, 3))
    cart = draw(st.booleans()) or app != "SenseRecon" and draw(st.booleans())
    npix = A.prod(img)
    coord = None
    mask = None
    if cart:
        full = draw(st.booleans())
        if not full:
            mask = [draw(st.integers(0, 3)) > 0 for _ in range(npix)]
            if not any(mask):
                mask[0] = True
    else:
        npts = draw(st.integers(npix, 2 * npix + 2))
        coord = LO._coord(draw, img, [npts], ("in", "in", "in", "int"))
    weights = draw(st.booleans())
    return {"app": app, "img": img, "nc": nc, "coord": coord, "mask": mask, "weights": weights,
            "lamda": draw(st.sampled_from([0, 0.25, 1.0] if app == "SenseRecon" else [0.05, 0.25, 1.0])),
            "cbs": draw(st.sampled_from([None, 1, nc])), "consistent": draw(st.booleans()),
            "precond": draw(st.booleans()), "seed": draw(A.seeds),
            "pdhg_tau": draw(st.sampled_from([None, None, 0.1, 0.3, 0.6]))}


def check_recon(case):
    import sigpy as sp
    import sigpy.mri
    warnings.simplefilter("ignore")
    r = R()
    rng = np.random.default_rng(case["seed"])
    img, nc, appname = case["img"], case["nc"], case["app"]
    npix = A.prod(img)
    mps = rng.standard_normal([nc] + img) + 1j * rng.standard_normal([nc] + img)
    mps = mps / np.sqrt(np.sum(np.abs(mps) ** 2, axis=0, keepdims=True))
    coord = None if case["coord"] is None else A.arr(case["coord"])
    kshape = list(img) if coord is None else list(coord.shape[:-1])
    xt = rng.standard_normal(img) + 1j * rng.standard_normal(img)
    w = None
    if case["weights"]:
        w = rng.integers(1, 5, size=kshape) / 2.0
    if case["mask"] is not None:
        mk = np.array(case["mask"], float).reshape(kshape)
        w = mk if w is None else w * mk
    E = sp.mri.linop.Sense(mps, coord=coord)
    y = np.asarray(E(xt))
    if not case["consistent"]:
        y = y + 0.3 * (rng.standard_normal(y.shape) + 1j * rng.standard_normal(y.shape))
    if case["mask"] is not None and not case["weights"]:
        # the documented usage: unsampled k-space positions are zero-filled, the app infers the sampling mask
        y = y * np.array(case["mask"], float).reshape(kshape)
        w_arg = None
    else:
        w_arg = w
    lam = case["lamda"]
    r.label(appname, "cart" if coord is None else "noncart", "weights" if case["weights"] else "no-weights",
            "mask" if case["mask"] is not None else "full", "consistent" if case["consistent"] else "noisy")
    r.sig = "|".join("%s=%s" % (k, case[k] if k != "coord" else (None if case[k] is None else case[k]["shape"]))
                     for k in sorted(case) if k not in ("part", "prelude", "seed"))
    first = True
    for solver in SOLVER_OPTS[appname]:
        eff = solver
        if solver is None:
            eff = {"SenseRecon": "ConjugateGradient", "TotalVariationRecon": "PrimalDualHybridGradient",
                   "L1WaveletRecon": "GradientMethod"}[appname]
        kw = {"max_iter": ITERS[eff] or (npix + 5), "show_pbar": False, "coil_batch_size": case["cbs"]}
        if solver is not None:
            kw["solver"] = solver
        if eff == "ConjugateGradient" and case.get("precond"):
            # the documented (rarely used) preconditioner argument P: any Hermitian positive-definite operator is valid
            dp = np.random.default_rng(case["seed"] + 3).uniform(0.5, 2.0, size=img)
            kw["P"] = sp.linop.Multiply(img, dp)
            r.label("preconditioned-CG")
        if eff == "ADMM":
            kw["max_cg_iter"] = npix + 5
        tau_given = eff == "PrimalDualHybridGradient" and case.get("pdhg_tau")
        if tau_given:
            # the documented solver option tau with sigma left to the app (sigma = 1 / (tau ||A||^2)): an admissible pair,
            # possibly slow - only finiteness and descent below F(0) are asserted for it
            kw["tau"] = case["pdhg_tau"]
            r.label("pdhg:tau-given")
        y_in = y.copy()
        np.random.seed(case["seed"] % (2 ** 31))
        try:
            if appname == "SenseRecon":
                app = sp.mri.app.SenseRecon(y_in, mps, lamda=lam, weights=None if w_arg is None else w_arg.copy(), coord=coord, **kw)
            elif appname == "TotalVariationRecon":
                app = sp.mri.app.TotalVariationRecon(y_in, mps, lam, weights=None if w_arg is None else w_arg.copy(), coord=coord, **kw)
            else:
                app = sp.mri.app.L1WaveletRecon(y_in, mps, lam, weights=None if w_arg is None else w_arg.copy(), coord=coord,
                                                wave_name="haar", **kw)
        except Exception as e:
            r.fail("recon:ctor-raises:%s:%s" % (appname, eff), "%s: %s" % (type(e).__name__, e))
            continue
        if first:
            # the documented objective, from the dense matrix of the operator the app built
            M = LO.mat(app.A, app.A.ishape, "complex128", real_only=True)[0]
            yw = np.asarray(app.y).ravel().astype(complex)
            # the operator and data the app works with must be the documented ones for the CALLER's weights: the SENSE
            # operator with sqrt(weights) (weights inferred from the zero-filled positions when none are given) and
            # sqrt(weights) * y  (both sides use the library's own NUFFT, so its approximation cancels)
            w_doc = w_arg if w_arg is not None else (np.array(case["mask"], float).reshape(kshape) if case["mask"] is not None else None)
            try:
                E_doc = sp.mri.linop.Sense(mps, coord=coord, weights=None if w_doc is None else w_doc.copy())
                M_doc = LO.mat(E_doc, E_doc.ishape, "complex128", real_only=True)[0]
                y_doc = (y if w_doc is None else np.sqrt(w_doc) * y).ravel().astype(complex)
                if M.shape != M_doc.shape or not np.linalg.norm(M - M_doc) <= 1e-9 * max(np.linalg.norm(M_doc), 1e-30):
                    r.fail("recon:operator-differs-from-documented:%s" % appname,
                           "the operator the app built differs from Sense(mps, coord, weights) by %.3e (relative)"
                           % (np.linalg.norm(M - M_doc) / max(np.linalg.norm(M_doc), 1e-30) if M.shape == M_doc.shape else float("nan")))
                if yw.shape != y_doc.shape or not np.linalg.norm(yw - y_doc) <= 1e-9 * max(np.linalg.norm(y_doc), 1e-30):
                    r.fail("recon:data-differs-from-documented:%s" % appname,
                           "the data the app works with differs from sqrt(weights) * y by %.3e (relative)"
                           % (np.linalg.norm(yw - y_doc) / max(np.linalg.norm(y_doc), 1e-30) if yw.shape == y_doc.shape else float("nan")))
            except Exception as e:
                r.fail("recon:documented-operator-raises:%s" % appname, "%s: %s" % (type(e).__name__, e))
            if appname == "SenseRecon":
                prob = Problem(M, yw, lamda=lam)
            elif appname == "TotalVariationRecon":
                Gm = LO.mat(sp.linop.FiniteDifference(img), img, "complex128", real_only=True)[0]
                prob = Problem(M, yw, G=Gm, gkind="l1", gpar=lam)
            else:
                W = sp.linop.Wavelet(img, wave_name="haar")
                Wm = LO.mat(W, img, "complex128", real_only=True)[0]
                if Wm.shape[0] != Wm.shape[1] or not np.allclose(Wm @ Wm.conj().T, np.eye(Wm.shape[0]), atol=1e-10):
                    r.label("wavelet-not-unitary")
                    return r
                prob = Problem(M, yw, G=Wm, gkind="l1", gpar=lam)
            try:
                cond = np.linalg.cond(prob.H)
            except Exception:
                cond = np.inf
            if not cond <= 20:
                r.label("ill-conditioned-skipped")
                return r
            ref = prob.solve()
            if not ref["certified"]:
                r.label("reference-uncertified")
                return r
            Fs = ref["hi"]
            F0 = prob.F(np.zeros(npix))
            slack = 1e-3 * max(F0 - Fs, abs(Fs), 1e-9)
            first = False
        try:
            x = np.asarray(app.run())
        except Exception as e:
            r.fail("recon:run-raises:%s:%s" % (appname, eff), "%s: %s" % (type(e).__name__, e))
            continue
        if list(x.shape) != list(img) or not np.all(np.isfinite(x)):
            r.fail("recon:bad-output:%s:%s" % (appname, eff), "shape %s" % (x.shape,))
            continue
        Fx = prob.F(x.ravel())
        if tau_given:
            if not Fx <= F0 + slack:
                r.fail("recon:no-descent:%s:%s:tau-given" % (appname, eff), "objective %.9g after %d updates exceeds F(0) = %.9g (tau = %s)"
                       % (Fx, kw["max_iter"], F0, kw["tau"]))
            continue
        if not Fx - Fs <= slack:
            r.fail("recon:not-the-minimiser:%s:%s" % (appname, eff),
                   "objective %.9g vs optimum %.9g (gap %.3e > %.3e), cond %.1f, lamda %s" % (Fx, Fs, Fx - Fs, slack, cond, lam))
        if appname == "SenseRecon" and lam == 0 and case["consistent"] and eff == "ConjugateGradient":
            err = np.linalg.norm(x - xt) / np.linalg.norm(xt)
            if not err <= 1e-3:
                r.fail("recon:consistent-data-not-reproduced", "relative error %.3e with consistent fully determined data (cond %.1f)" % (err, cond))
            r.label("recovery-checked")
    r.nontrivial = not first and (lam > 0 or coord is not None or len(img) == 3 or case["weights"])
    return r


PARTS = [
    Part("operator", check_operator, {"quick": 1200, "thorough": 24000}, strategy=st_operator),
    Part("recon", check_recon, {"quick": 96, "thorough": 4000}, strategy=st_recon, shrink={"quick": False, "thorough": True}),
]
