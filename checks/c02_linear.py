"""C02 - operators are linear over C, deterministic, and never mutate inputs.

Part 'linear'  : dense materialisation of generated operator programs: columns A(i e_j) must equal
                 i*A(e_j) (C-linearity), A(a x + y) = a A(x) + A(y), real-dtype inputs act like their
                 complex cast (nothing dropped on the way out).
Part 'history' : Hypothesis RuleBasedStateMachine per operator program: apply / apply_H / take_H / take_N /
                 apply_N / reapply in any order; invariants: every array ever passed in and every array reachable
                 from the operator tree is byte-identical afterwards; re-applying to the same input is bitwise
                 reproducible.
Part 'functions': table of public array functions and Prox classes called on contiguous and non-contiguous
                 (view) arguments; all argument arrays, their base buffers and captured parameters must be
                 byte-identical afterwards.
"""
import warnings

import numpy as np
from hypothesis import strategies as st

from vlib import arrays as A
from vlib import linops as LO
from vlib.runner import Part, R, make_sweep

PROPERTY = "C02"
RULE = ("(1) generated operator programs (as C01): dense columns A(i e_j) == i A(e_j), A(a x+y) == a A(x)+A(y) for "
        "complex a, real-dtype x vs complex cast; (2) RuleBasedStateMachine histories of apply/apply_H/take_H/take_N/"
        "apply_N/reapply on one operator object with byte snapshots of every input and every captured array after each "
        "step and bitwise reproducibility of repeated applications; (3) table of public array functions of sigpy / "
        "sigpy.mri.util and Prox classes called with contiguous and view arguments, snapshots before/after. "
        "non-trivial: (1) tree has a leaf other than Identity/Reshape; (2) history has a reapply after take_H/take_N; "
        "(3) a non-contiguous/view argument or a captured parameter array. distinct = program/history/call signature.")
ASSUMPTIONS = [
    "functions documented as in-place (axpy, xpay, backend.copyto) are excluded by name",
    "outputs that alias inputs (Identity, Reshape, Slice, Multiply by 1) are allowed: aliasing is not mutation",
    "real-dtype inputs are compared with the complex cast at single-precision tolerance (fft documents a cast to complex64)",
    "CPU backend, dense spaces <= ~40 x 96",
]


def tol(dt):
    return 2e-4 if dt in ("complex64", "float32") else 1e-9


def snap(a):
    return (a.tobytes(), str(a.dtype), a.shape, a.strides)


def poison(*arrays):
    """Fill recently-freed heap blocks of the sizes in play with 0xFF bytes (NaN as floats): an output buffer that is
    allocated uninitialised and not fully written then shows up as a result that differs between two applications."""
    sizes = set()
    for a in arrays:
        nb = int(getattr(a, "nbytes", 0))
        if nb:
            sizes.update((nb, 2 * nb, nb // 2))
    for nb in sizes:
        if 0 < nb <= 1 << 20:
            junk = [np.full(nb, 0xFF, dtype=np.uint8) for _ in range(8)]
            del junk


def captured_arrays(op, acc=None, seen=None, path="op"):
    """Every ndarray reachable from an operator tree (constructor parameters, cached adjoints/normals)."""
    acc = {} if acc is None else acc
    seen = set() if seen is None else seen
    if id(op) in seen:
        return acc
    seen.add(id(op))
    try:
        items = list(vars(op).items())
    except TypeError:
        return acc
    import sigpy
    for k, v in items:
        p = path + "." + k
        if isinstance(v, np.ndarray):
            acc[p] = v
        elif isinstance(v, sigpy.linop.Linop):
            captured_arrays(v, acc, seen, p)
        elif isinstance(v, (list, tuple)):
            for j, e in enumerate(v):
                if isinstance(e, sigpy.linop.Linop):
                    captured_arrays(e, acc, seen, "%s[%d]" % (p, j))
                elif isinstance(e, np.ndarray):
                    acc["%s[%d]" % (p, j)] = e
    return acc


# ------------------------------------------------------------------ part 1: linearity


def lin_failures(sp, dt, aseed):
    try:
        op = LO.build(sp)
    except Exception:
        return ["unbuildable"]
    out = []
    try:
        with warnings.catch_warnings():
            warnings.simplefilter("ignore")
            M, Mi = LO.mat(op, op.ishape, dt)
    except Exception:
        return ["unavailable"]
    scale = max(np.linalg.norm(M), 1e-30)
    if not np.linalg.norm(Mi - 1j * M) <= tol(dt) * scale:
        scale = max(scale, LO.tree_opscale(sp, dt))          # operands' scale, not the cancelling result's
    if not np.linalg.norm(Mi - 1j * M) <= tol(dt) * scale:
        # distinguish 'imaginary part dropped' from other non-linearity
        out.append("c-linearity")
    # the adjoint the operator hands out is an operator too: it must be C-linear as well (an anti-linear A.H passes
    # every real-probe adjoint test)
    try:
        H = op.H
        with warnings.catch_warnings():
            warnings.simplefilter("ignore")
            MH, MHi = LO.mat(H, H.ishape, dt)
        sh = max(np.linalg.norm(MH), 1e-30)
        if not np.linalg.norm(MHi - 1j * MH) <= tol(dt) * sh:
            sh = max(sh, LO.tree_opscale(sp, dt))
        if not np.linalg.norm(MHi - 1j * MH) <= tol(dt) * sh:
            out.append("c-linearity:adjoint")
    except Exception:
        pass            # an adjoint that cannot be built or applied is C01's finding
    # additivity / homogeneity on a random complex combination
    rng = np.random.default_rng(aseed)
    n = M.shape[1]
    x = (rng.standard_normal(n) + 1j * rng.standard_normal(n)).astype(dt).reshape(op.ishape)
    y = (rng.standard_normal(n) + 1j * rng.standard_normal(n)).astype(dt).reshape(op.ishape)
    a = complex(rng.integers(-4, 5), rng.integers(-4, 5)) / 2 or 1j
    try:
        with warnings.catch_warnings():
            warnings.simplefilter("ignore")
            lhs = np.array(op((a * x + y).astype(dt)))
            rhs = a * np.array(op(x)) + np.array(op(y))
        sc = scale * (abs(a) * np.linalg.norm(x) + np.linalg.norm(y)) + 1e-30
        if lhs.shape == rhs.shape and not np.linalg.norm((lhs - rhs).astype(np.complex128)) <= 10 * tol(dt) * sc:
            # relative to the operands, not to a cancelling result (e.g. Sum o FiniteDifference is the zero map)
            sc = max(scale, LO.tree_opscale(sp, dt)) * (abs(a) * np.linalg.norm(x) + np.linalg.norm(y)) + 1e-30
        if lhs.shape != rhs.shape or not np.linalg.norm((lhs - rhs).astype(np.complex128)) <= 10 * tol(dt) * sc:
            out.append("additivity")
    except Exception as e:
        out.append("raises:%s" % type(e.__cause__ or e).__name__)
        return out
    # determinism: a second application of the same operator to the same input, after recently freed heap blocks
    # of the sizes in play were filled with NaN bytes, must give the identical result
    try:
        with warnings.catch_warnings():
            warnings.simplefilter("ignore")
            y1 = np.array(op(x))
            poison(x, y1)
            y2 = np.array(op(x))
            poison(x, y1)
            y3 = np.array(op(x))
        if not (np.array_equal(y1, y2, equal_nan=True) and np.array_equal(y1, y3, equal_nan=True)) or np.isnan(y1).any():
            out.append("not-reproducible")
        # ... and an EQUAL input held in another memory layout gives an equal output
        with warnings.catch_warnings():
            warnings.simplefilter("ignore")
            ysc = max(float(np.linalg.norm(np.asarray(y1, dtype=np.complex128).ravel())), scale * float(np.linalg.norm(x.ravel())), 1e-30)
            for lay in ("fortran", "strided", "reversed"):
                if lay == "fortran" and x.ndim < 2:
                    continue
                x2 = _relayout(x, lay)
                y4 = np.array(op(x2))
                if y4.shape != y1.shape or not np.linalg.norm((y4 - y1).astype(np.complex128).ravel()) <= 10 * tol(dt) * ysc:
                    out.append("equal-input-different-output")
                    break
    except Exception as e:
        out.append("raises:%s" % type(e.__cause__ or e).__name__)
        return out
    # real-dtype input behaves like its complex cast (nothing dropped on the way out). An operator that
    # REJECTS a real-dtype input (e.g. dtype mismatch with a complex filter) drops nothing: not a finding.
    try:
        rdt = "float32" if dt == "complex64" else "float64"
        xr = rng.standard_normal(n).astype(rdt).reshape(op.ishape)
        xr0 = xr.copy()
        with warnings.catch_warnings():
            warnings.simplefilter("ignore")
            yc = np.array(op(xr.astype(dt)))
            try:
                yr = np.array(op(xr))
            except Exception:
                return out + ["(real-input-rejected)"]
        if yr.shape != yc.shape or not np.linalg.norm((yr - yc).astype(np.complex128)) <= 2e-4 * scale * max(np.linalg.norm(xr), 1e-30):
            # single-precision comparison (fft casts real input to complex64): relative to the operands, not to a
            # possibly cancelling result such as FFT - Reshape on a length-1 axis
            scale = max(scale, LO.tree_opscale(sp, dt))
        if yr.shape != yc.shape or not np.linalg.norm((yr - yc).astype(np.complex128)) <= 2e-4 * scale * max(np.linalg.norm(xr), 1e-30):
            out.append("real-input-differs-from-complex-cast")
        if not np.array_equal(xr, xr0):
            out.append("mutates-real-input")
    except Exception as e:
        out.append("raises:%s" % type(e.__cause__ or e).__name__)
    return out


IGN = ("unbuildable", "unavailable", "(real-input-rejected)")


def check_linear(case):
    LO.set_container(case.get("ct"))
    r = R()
    sp, dt = case["tree"], case["dtype"]
    allf = lin_failures(sp, dt, case["aseed"])
    fails = [f for f in allf if f not in IGN]
    if "(real-input-rejected)" in allf:
        r.label("real-input-rejected")
    cl = LO.classes(sp)
    for c in cl:
        r.label(c)
    if fails:
        small = LO.localize(sp, lambda c: bool([f for f in lin_failures(c, dt, case["aseed"]) if f not in IGN]))
        sf = [f for f in lin_failures(small, dt, case["aseed"]) if f not in IGN] or fails
        for f in sf:
            r.fail("%s:%s" % (f, small["op"]), "smallest failing subtree: %s" % LO.sig(small)[:1200])
    r.nontrivial = any(c not in LO.COMBINATORS and c not in ("Identity", "Reshape") for c in cl)
    r.sig = LO.sig(sp)
    return r


@st.composite
def st_linear(draw):
    c = draw(LO.st_tree(max_depth=2))
    c["aseed"] = draw(A.seeds)
    return c


# ------------------------------------------------------------------ part 2: histories


class Sim:
    """Executes a recorded history on a freshly built operator; used by the machine and by replay."""

    def __init__(self, case):
        self.r = R()
        self.case = case
        self.dt = case["dtype"]
        self.sp = case["tree"]
        self.inputs = []      # (which, array, first_output)
        self.snaps = {}       # name -> (array, snapshot)
        self.took = set()
        self.reapplied_after_take = False
        self.equal_layouts = set()
        self.consumed = False
        self.derived = False
        warnings.simplefilter("ignore")
        LO.set_container(case.get("ct"))
        try:
            self.op = LO.build(self.sp)
        except Exception:
            self.op = None
            return
        for k, a in captured_arrays(self.op).items():
            self.snaps["captured:" + k] = (a, snap(a))

    def _target(self, which):
        return {"A": self.op, "H": self.op.H, "N": self.op.N}[which]

    def _input(self, which, seed, layout):
        t = self._target(which)
        shape = list(t.ishape)
        x = A.arr({"k": "g", "shape": shape, "dtype": self.dt, "seed": seed})
        if layout == "strided" and len(shape) >= 1:
            big = np.zeros([2 * shape[0]] + shape[1:], dtype=x.dtype)
            big[::2] = x
            self.snaps["base%d" % len(self.inputs)] = (big, None)
            x = big[::2]
            self.snaps["base%d" % len(self.inputs)] = (big, snap(big))
        elif layout == "fortran":
            x = np.asfortranarray(x)
        return x

    def step(self, op):
        if self.op is None:
            return
        k = op["op"]
        try:
            if k in ("apply", "apply_H", "apply_N"):
                which = {"apply": "A", "apply_H": "H", "apply_N": "N"}[k]
                if which != "A":
                    self.took.add(which)
                x = self._input(which, op["seed"], op.get("layout", "c"))
                name = "input%d" % len(self.inputs)
                self.snaps[name] = (x, snap(x))
                y = self._target(which)(x)
                self.inputs.append((which, x, np.array(y, copy=True)))
                exp = list(self._target(which).oshape)
                if list(np.shape(y)) != exp:
                    self.r.fail("output-shape:%s" % self.sp["op"], "got %s, advertised %s" % (np.shape(y), exp))
            elif k == "take_H":
                self.op.H
                self.took.add("H")
            elif k == "take_N":
                self.op.N
                self.took.add("N")
            elif k == "reapply":
                if self.inputs:
                    which, x, y0 = self.inputs[op["k"] % len(self.inputs)]
                    poison(x, y0)
                    y = np.array(self._target(which)(x))
                    if self.took:
                        self.reapplied_after_take = True
                    if y.shape != y0.shape or y.dtype != y0.dtype or not np.array_equal(y, y0, equal_nan=True):
                        self.r.fail("not-reproducible:%s" % self.sp["op"],
                                    "re-applying %s to the same input gave a different result (max diff %s)"
                                    % (which, np.max(np.abs(y - y0)) if y.shape == y0.shape else "shape"))
            elif k == "derive":
                # other operators are BUILT from this one (S + C, S - C, c * S, S * I, stacks): constructing them must not
                # change what S itself does (reapply rules) - the results are discarded
                import sigpy
                L = sigpy.linop
                S = self.op
                Ii, Io = L.Identity(S.ishape), L.Identity(S.oshape)
                for make in (lambda: S + S, lambda: S - S, lambda: (S + S) + S, lambda: op["c"] * S, lambda: S * Ii, lambda: Io * S,
                             lambda: S.H * S + op["c"] * Ii, lambda: L.Vstack([S, S], axis=0), lambda: L.Hstack([S, S], axis=0),
                             lambda: -S, lambda: L.Conj(S)):
                    try:
                        make()
                    except Exception:
                        pass
                self.derived = True
            elif k == "consume":
                # the operator object is handed to a solver (as users do) between applications: afterwards it must
                # still be the same map (reapply rules) built from unchanged arrays (snapshots below)
                import sigpy
                y = A.arr({"k": "g", "shape": list(self.op.oshape), "dtype": self.dt, "seed": op["seed"]})
                self.snaps["consume-y%d" % len(self.snaps)] = (y, snap(y))
                st0 = np.random.get_state()
                np.random.seed(op["seed"] % (2 ** 31))
                try:
                    kw = {} if op["solver"] is None else {"solver": op["solver"]}
                    sigpy.app.LinearLeastSquares(self.op, y, lamda=op["lamda"], max_iter=2, show_pbar=False, **kw).run()
                    self.consumed = True
                except Exception:
                    pass        # an operator the app cannot handle is not C02's subject
                finally:
                    np.random.set_state(st0)
            elif k == "reapply_equal":
                # an EQUAL input held in another memory layout (copy, Fortran order, strided or reversed view)
                if self.inputs:
                    which, x, y0 = self.inputs[op["k"] % len(self.inputs)]
                    x2 = _relayout(x, op["layout"])
                    name = "equal%d" % len(self.snaps)
                    self.snaps[name] = (x2, snap(x2))
                    y = np.array(self._target(which)(x2))
                    self.equal_layouts.add(op["layout"])
                    sc = np.linalg.norm(np.asarray(y0, dtype=np.complex128).ravel()) + 1e-30
                    if y.shape != y0.shape or not np.linalg.norm((y - y0).astype(np.complex128).ravel()) <= \
                            (1e-4 if self.dt in ("complex64", "float32") else 1e-10) * sc:
                        self.r.fail("equal-input-different-output:%s" % self.sp["op"],
                                    "applying %s to an equal input held as a %s array gave a different result (max diff %s)"
                                    % (which, op["layout"], np.max(np.abs(y - y0)) if y.shape == y0.shape else "shape"))
        except Exception as e:
            self.r.fail("raises:%s:%s" % (k, self.sp["op"]), "%s: %s" % (type(e).__name__, e.__cause__ or e))
            return
        # new captured arrays (cached adjoint / normal operators) are tracked from now on
        for kk, a in captured_arrays(self.op).items():
            if "captured:" + kk not in self.snaps:
                self.snaps["captured:" + kk] = (a, snap(a))
        for name, (a, s0) in self.snaps.items():
            if s0 is not None and snap(a) != s0:
                kind = "captured-array" if name.startswith("captured") else "input"
                self.r.fail("mutates-%s:%s" % (kind, self.sp["op"]), "%s changed after step %s" % (name, op))
                self.snaps[name] = (a, snap(a))

    def finish(self):
        for c in LO.classes(self.sp):
            self.r.label(c)
        if self.op is None:
            self.r.label("unbuildable")
        self.r.nontrivial = self.reapplied_after_take
        if self.reapplied_after_take:
            self.r.label("reapply-after-take")
        if any(o.get("layout", "c") != "c" for o in self.case["ops"]):
            self.r.label("view-input")
        for l in sorted(self.equal_layouts):
            self.r.label("equal-input:" + l)
        if self.consumed:
            self.r.label("used-by-LinearLeastSquares")
        if self.derived:
            self.r.label("other-operators-derived")
        self.r.sig = LO.sig(self.sp) + "|" + ",".join(o["op"] for o in self.case["ops"])
        return self.r


def _relayout(x, layout):
    """An array equal to x (same shape, dtype, values) held in another memory layout."""
    x = np.asarray(x)
    if layout == "fortran":
        return np.asfortranarray(x.copy())
    if layout == "strided" and x.ndim >= 1:
        big = np.zeros(list(x.shape[:-1]) + [2 * x.shape[-1] + 1], dtype=x.dtype)
        big[..., 1::2] = x
        return big[..., 1::2]
    if layout == "reversed" and x.ndim >= 1:
        return np.ascontiguousarray(x[::-1])[::-1]
    if layout == "transposed-base" and x.ndim >= 2:
        return np.ascontiguousarray(x.T).T
    if layout == "readonly":
        b = np.array(x, copy=True, order="C")
        b.flags.writeable = False
        return b
    return np.array(x, copy=True, order="C")


def check_history(case):
    sim = Sim(case)
    for op in case["ops"]:
        sim.step(op)
    return sim.finish()


def make_machine(col):
    from hypothesis.stateful import RuleBasedStateMachine, rule, initialize, precondition
    from vlib.runner import Found

    class OperatorHistory(RuleBasedStateMachine):
        def __init__(self):
            super().__init__()
            self.sim = None
            self.case = None
            self.done = False

        @initialize(c=LO.st_tree(max_depth=1))
        def init(self, c):
            self.case = {"tree": c["tree"], "dtype": c["dtype"], "ct": c.get("ct"), "ops": [], "part": "history",
                         "prelude": getattr(col, "prelude", None)}
            self.sim = Sim(self.case)

        def _do(self, op):
            self.case["ops"].append(op)
            n0 = len(self.sim.r.findings)
            self.sim.step(op)
            if len(self.sim.r.findings) > n0:
                r = self.sim.finish()
                self.done = True
                new = col.record(self.case, r)
                if new:
                    raise Found(new[0]["key"])

        @rule(seed=A.seeds, layout=st.sampled_from(["c", "c", "strided", "fortran"]))
        def apply(self, seed, layout):
            self._do({"op": "apply", "seed": seed, "layout": layout})

        @rule(seed=A.seeds, layout=st.sampled_from(["c", "c", "strided", "fortran"]))
        def apply_H(self, seed, layout):
            self._do({"op": "apply_H", "seed": seed, "layout": layout})

        @rule(seed=A.seeds)
        def apply_N(self, seed):
            self._do({"op": "apply_N", "seed": seed})

        @rule()
        def take_H(self):
            self._do({"op": "take_H"})

        @rule()
        def take_N(self):
            self._do({"op": "take_N"})

        @precondition(lambda self: self.sim is not None and len(self.sim.inputs) > 0)
        @rule(k=st.integers(0, 50))
        def reapply(self, k):
            self._do({"op": "reapply", "k": k})

        @precondition(lambda self: self.sim is not None and len(self.sim.inputs) > 0)
        @rule(c=st.sampled_from([2.0, -0.5, 0.25]))
        def derive(self, c):
            self._do({"op": "derive", "c": c})

        @precondition(lambda self: self.sim is not None and len(self.sim.inputs) > 0)
        @rule(seed=A.seeds, lamda=st.sampled_from([0.5, 1.0, 0]), solver=st.sampled_from([None, None, "GradientMethod"]))
        def consume(self, seed, lamda, solver):
            self._do({"op": "consume", "seed": seed, "lamda": lamda, "solver": solver})

        @precondition(lambda self: self.sim is not None and len(self.sim.inputs) > 0)
        @rule(k=st.integers(0, 50), layout=st.sampled_from(["copy", "fortran", "strided", "reversed", "transposed-base", "readonly"]))
        def reapply_equal(self, k, layout):
            self._do({"op": "reapply_equal", "k": k, "layout": layout})

        def teardown(self):
            if self.sim is not None and not self.done:
                col.record(self.case, self.sim.finish())

    return OperatorHistory


# ------------------------------------------------------------------ part 3: functions and prox objects


def _layout(a, layout):
    """Return (argument, [buffers to snapshot]) for a given memory layout of the same values."""
    if layout == "strided" and a.ndim >= 1 and a.shape[0] >= 1:
        big = np.zeros((2 * a.shape[0],) + a.shape[1:], dtype=a.dtype)
        big[::2] = a
        return big[::2], [big]
    if layout == "fortran" and a.ndim >= 2:
        f = np.asfortranarray(a)
        return f, [f]
    if layout == "reshape-view" and a.ndim >= 1:
        flat = a.reshape(-1).copy()
        return flat.reshape(a.shape), [flat]
    c = np.ascontiguousarray(a).copy()
    return c, [c]


FUNCS = {}


def fn(name):
    def deco(f):
        FUNCS[name] = f
        return f
    return deco


def _g(shape, dt, seed):
    return A.arr({"k": "g", "shape": list(shape), "dtype": dt, "seed": seed})


# each entry: f(case) -> (callable, dict name->array) ; arrays are materialised with case['layout']


@fn("fft")
def _f_fft(c):
    import sigpy as sp
    x = _g(c["shape"], c["dtype"], c["seed"])
    return (lambda a: sp.fft(a["x"], axes=None, center=c["flag"])), {"x": x}


@fn("ifft")
def _f_ifft(c):
    import sigpy as sp
    x = _g(c["shape"], c["dtype"], c["seed"])
    return (lambda a: sp.ifft(a["x"], oshape=[n + 1 for n in c["shape"]] if c["flag"] else None)), {"x": x}


def _coord(c, d):
    rng = np.random.default_rng(c["seed"] + 1)
    return (rng.integers(-40, 40, size=(5, d)) / 8.0).astype("float64")


@fn("nufft")
def _f_nufft(c):
    import sigpy as sp
    d = min(len(c["shape"]), 3)
    return (lambda a: sp.nufft(a["x"], a["coord"])), {"x": _g(c["shape"], c["cdtype"], c["seed"]), "coord": _coord(c, d)}


@fn("nufft_adjoint")
def _f_nufft_adj(c):
    import sigpy as sp
    d = min(len(c["shape"]), 3)
    return (lambda a: sp.nufft_adjoint(a["y"], a["coord"], oshape=list(c["shape"]))), \
        {"y": _g(list(c["shape"][:-d]) + [5], c["cdtype"], c["seed"]), "coord": _coord(c, d)}


@fn("toeplitz_psf")
def _f_psf(c):
    import sigpy as sp
    d = min(len(c["shape"]), 2)
    return (lambda a: sp.fourier.toeplitz_psf(a["coord"], list(c["shape"][-d:]))), {"coord": _coord(c, d)}


@fn("estimate_shape")
def _f_est(c):
    import sigpy as sp
    return (lambda a: sp.estimate_shape(a["coord"])), {"coord": _coord(c, 2)}


@fn("interpolate")
def _f_interp(c):
    import sigpy as sp
    d = min(len(c["shape"]), 3)
    return (lambda a: sp.interpolate(a["x"], a["coord"], kernel="kaiser_bessel" if c["flag"] else "spline", width=3, param=2)), \
        {"x": _g(c["shape"], c["dtype"], c["seed"]), "coord": _coord(c, d)}


@fn("gridding")
def _f_grid(c):
    import sigpy as sp
    d = min(len(c["shape"]), 3)
    return (lambda a: sp.gridding(a["y"], a["coord"], list(c["shape"]), width=3)), \
        {"y": _g(list(c["shape"][:-d]) + [5], c["dtype"], c["seed"]), "coord": _coord(c, d)}


@fn("convolve")
def _f_conv(c):
    import sigpy as sp
    s = c["shape"][-2:] if len(c["shape"]) >= 2 else c["shape"]
    f = _g([2] * len(s), c["dtype"], c["seed"] + 2)
    return (lambda a: sp.convolve(a["d"], a["f"], mode="full" if c["flag"] else "valid")), \
        {"d": _g([n + 1 for n in s], c["dtype"], c["seed"]), "f": f}


@fn("convolve_data_adjoint")
def _f_conv_da(c):
    import sigpy as sp
    s = c["shape"][-2:] if len(c["shape"]) >= 2 else c["shape"]
    return (lambda a: sp.convolve_data_adjoint(a["y"], a["f"], [n + 1 for n in s], mode="valid")), \
        {"y": _g(list(s), c["dtype"], c["seed"]), "f": _g([2] * len(s), c["dtype"], c["seed"] + 2)}


@fn("convolve_filter_adjoint")
def _f_conv_fa(c):
    import sigpy as sp
    s = c["shape"][-2:] if len(c["shape"]) >= 2 else c["shape"]
    return (lambda a: sp.convolve_filter_adjoint(a["y"], a["d"], [2] * len(s), mode="valid")), \
        {"y": _g(list(s), c["dtype"], c["seed"]), "d": _g([n + 1 for n in s], c["dtype"], c["seed"] + 2)}


@fn("array_to_blocks")
def _f_a2b(c):
    import sigpy as sp
    return (lambda a: sp.array_to_blocks(a["x"], [2], [1])), {"x": _g(list(c["shape"]) + [3], c["dtype"], c["seed"])}


@fn("blocks_to_array")
def _f_b2a(c):
    import sigpy as sp
    return (lambda a: sp.blocks_to_array(a["x"], list(c["shape"]) + [3], [2], [1])), \
        {"x": _g(list(c["shape"]) + [2, 2], c["dtype"], c["seed"])}


@fn("resize")
def _f_resize(c):
    import sigpy as sp
    same = c["flag"]
    return (lambda a: sp.resize(a["x"], list(c["shape"]) if same else [n + 1 for n in c["shape"]])), \
        {"x": _g(c["shape"], c["dtype"], c["seed"])}


@fn("flip")
def _f_flip(c):
    import sigpy as sp
    return (lambda a: sp.flip(a["x"])), {"x": _g(c["shape"], c["dtype"], c["seed"])}


@fn("circshift")
def _f_circ(c):
    import sigpy as sp
    return (lambda a: sp.circshift(a["x"], [1] * len(c["shape"]))), {"x": _g(c["shape"], c["dtype"], c["seed"])}


@fn("downsample")
def _f_down(c):
    import sigpy as sp
    return (lambda a: sp.downsample(a["x"], [2] * len(c["shape"]))), {"x": _g(c["shape"], c["dtype"], c["seed"])}


@fn("upsample")
def _f_up(c):
    import sigpy as sp
    return (lambda a: sp.upsample(a["x"], [2 * n for n in c["shape"]], [2] * len(c["shape"]))), \
        {"x": _g(c["shape"], c["dtype"], c["seed"])}


@fn("soft_thresh")
def _f_soft(c):
    import sigpy as sp
    return (lambda a: sp.soft_thresh(0.5, a["x"])), {"x": _g(c["shape"], c["dtype"], c["seed"])}


@fn("soft_thresh_array_lamda")
def _f_soft2(c):
    import sigpy as sp
    lam = np.abs(_g(c["shape"], "float32" if c["dtype"] in ("complex64", "float32") else "float64", c["seed"] + 5))
    return (lambda a: sp.soft_thresh(a["lam"], a["x"])), {"x": _g(c["shape"], c["dtype"], c["seed"]), "lam": lam}


@fn("hard_thresh")
def _f_hard(c):
    import sigpy as sp
    return (lambda a: sp.hard_thresh(0.5, a["x"])), {"x": _g(c["shape"], c["dtype"], c["seed"])}


@fn("l1_proj")
def _f_l1p(c):
    import sigpy as sp
    eps = 100.0 if c["flag"] else 0.7
    return (lambda a: sp.l1_proj(eps, a["x"])), {"x": _g([A.prod(c["shape"])], c["dtype"], c["seed"])}


@fn("l2_proj")
def _f_l2p(c):
    import sigpy as sp
    return (lambda a: sp.l2_proj(100.0 if c["flag"] else 0.7, a["x"])), {"x": _g(c["shape"], c["dtype"], c["seed"])}


@fn("linf_proj")
def _f_linf(c):
    import sigpy as sp
    b = _g(c["shape"], c["dtype"], c["seed"] + 3)
    return (lambda a: sp.linf_proj(0.7, a["x"], bias=a["b"] if c["flag"] else None)), \
        {"x": _g(c["shape"], c["dtype"], c["seed"]), "b": b}


@fn("psd_proj")
def _f_psd(c):
    import sigpy as sp
    n = max(2, min(4, c["shape"][-1]))
    x = _g([n, n], c["cdtype"], c["seed"])
    x = x + x.conj().T
    return (lambda a: sp.psd_proj(a["x"])), {"x": x}


@fn("fwt")
def _f_fwt(c):
    import sigpy as sp
    return (lambda a: sp.fwt(a["x"], wave_name="db2")), {"x": _g(c["shape"], c["dtype"], c["seed"])}


@fn("iwt")
def _f_iwt(c):
    import sigpy as sp
    osh, slices = sp.wavelet.get_wavelet_shape(c["shape"], wave_name="db2")
    return (lambda a: sp.iwt(a["x"], list(c["shape"]), slices, wave_name="db2")), {"x": _g(osh, c["dtype"], c["seed"])}


@fn("rss")
def _f_rss(c):
    import sigpy as sp
    return (lambda a: sp.util.rss(a["x"])), {"x": _g(c["shape"], c["dtype"], c["seed"])}


@fn("vec")
def _f_vec(c):
    import sigpy as sp
    return (lambda a: sp.util.vec([a["x"], a["y"]])), {"x": _g(c["shape"], c["dtype"], c["seed"]), "y": _g([3], c["dtype"], c["seed"] + 1)}


@fn("split")
def _f_split(c):
    import sigpy as sp
    n = A.prod(c["shape"])
    return (lambda a: sp.util.split(a["x"], [list(c["shape"]), [3]])), {"x": _g([n + 3], c["dtype"], c["seed"])}


@fn("to_device")
def _f_todev(c):
    import sigpy as sp
    return (lambda a: sp.to_device(a["x"])), {"x": _g(c["shape"], c["dtype"], c["seed"])}


@fn("monte_carlo_sure")
def _f_sure(c):
    import sigpy as sp

    def run(a):
        np.random.seed(c["seed"] % (2 ** 31))
        return sp.util.monte_carlo_sure(lambda y: sp.soft_thresh(0.3, y), a["y"], 0.5)
    return run, {"y": _g(c["shape"], c["dtype"], c["seed"])}


@fn("leja")
def _f_leja(c):
    import sigpy as sp
    return (lambda a: sp.util.leja(a["x"])), {"x": _g([5], c["cdtype"], c["seed"])}


@fn("mri.get_cov")
def _f_cov(c):
    import sigpy.mri as mr
    return (lambda a: mr.util.get_cov(a["noise"])), {"noise": _g([3] + list(c["shape"]), c["cdtype"], c["seed"])}


@fn("mri.whiten")
def _f_whiten(c):
    import sigpy.mri as mr
    m = _g([3, 3], c["cdtype"], c["seed"] + 9)
    cov = m @ m.conj().T + np.eye(3)
    return (lambda a: mr.util.whiten(a["ksp"], a["cov"])), {"ksp": _g([3] + list(c["shape"]), c["cdtype"], c["seed"]), "cov": cov}


@fn("mri.tseg_off_res_b_ct")
def _f_tseg(c):
    import sigpy.mri as mr
    b0 = _g([4, 4], "float64", c["seed"]) * 10
    return (lambda a: mr.util.tseg_off_res_b_ct(a["b0"], 10, 3, 4e-3, 0.4)), {"b0": b0}


@fn("mri.apply_tseg")
def _f_apply_tseg(c):
    import sigpy.mri as mr
    b0 = _g([4, 4], "float64", c["seed"]) * 10
    b, ct = mr.util.tseg_off_res_b_ct(b0.copy(), 10, 3, 4e-3, 0.4)
    nt = b.shape[0]
    rng = np.random.default_rng(c["seed"])
    coord = rng.uniform(-0.1, 0.1, size=(nt, 2))
    img = _g([4, 4], "complex128", c["seed"] + 1)
    return (lambda a: mr.util.apply_tseg(a["img"], a["coord"], a["b"], a["ct"], fwd=c["flag"])), \
        {"img": img, "coord": coord, "b": b, "ct": ct}


# ---- prox objects: (constructor using arrays) -> call P(alpha, y)

def _prox_entry(name, build):
    def f(c):
        import sigpy as sp
        y = _g(c["shape"], c["dtype"], c["seed"])
        extra = build(sp, c)
        ctor, arrs = extra

        def run(a):
            P = ctor(a)
            out = P(0.75, a["y"])
            # captured parameter arrays are part of the snapshot through `a`
            return out
        arrs = dict(arrs)
        arrs["y"] = y
        return run, arrs
    FUNCS["prox." + name] = f


_prox_entry("L1Reg", lambda sp, c: ((lambda a: sp.prox.L1Reg(c["shape"], 0.6)), {}))
_prox_entry("L1Reg_array_lamda", lambda sp, c: ((lambda a: sp.prox.L1Reg(c["shape"], a["lam"])),
                                                {"lam": np.abs(_g(c["shape"], "float32" if c["dtype"] in ("complex64", "float32") else "float64", c["seed"] + 4))}))
_prox_entry("L2Reg", lambda sp, c: ((lambda a: sp.prox.L2Reg(c["shape"], 0.6, y=a["z"])), {"z": _g(c["shape"], c["dtype"], c["seed"] + 4)}))
_prox_entry("L2Reg_proxh", lambda sp, c: ((lambda a: sp.prox.L2Reg(c["shape"], 0.6, y=a["z"], proxh=sp.prox.L1Reg(c["shape"], 0.3))),
                                          {"z": _g(c["shape"], c["dtype"], c["seed"] + 4)}))
_prox_entry("L2Proj", lambda sp, c: ((lambda a: sp.prox.L2Proj(c["shape"], 0.7, y=a["z"])), {"z": _g(c["shape"], c["dtype"], c["seed"] + 4)}))
_prox_entry("LInfProj", lambda sp, c: ((lambda a: sp.prox.LInfProj(c["shape"], 0.7, bias=a["z"])), {"z": _g(c["shape"], c["dtype"], c["seed"] + 4)}))
_prox_entry("L1Proj", lambda sp, c: ((lambda a: sp.prox.L1Proj(c["shape"], 0.7)), {}))
_prox_entry("BoxConstraint", lambda sp, c: ((lambda a: sp.prox.BoxConstraint(c["shape"], a["lo"], a["hi"])),
                                            {"lo": -np.abs(_g(c["shape"], "float64", c["seed"] + 4)), "hi": np.abs(_g(c["shape"], "float64", c["seed"] + 5))}))
_prox_entry("Conj_L1Reg", lambda sp, c: ((lambda a: sp.prox.Conj(sp.prox.L1Reg(c["shape"], 0.6))), {}))
_prox_entry("Conj_L2Reg", lambda sp, c: ((lambda a: sp.prox.Conj(sp.prox.L2Reg(c["shape"], 0.6, y=a["z"]))), {"z": _g(c["shape"], c["dtype"], c["seed"] + 4)}))
_prox_entry("UnitaryTransform", lambda sp, c: ((lambda a: sp.prox.UnitaryTransform(sp.prox.L1Reg(c["shape"], 0.6), sp.linop.FFT(c["shape"]))), {}))
_prox_entry("NoOp", lambda sp, c: ((lambda a: sp.prox.NoOp(c["shape"])), {}))


def _f_stack(c):
    import sigpy as sp
    n = A.prod(c["shape"])
    y = _g([n + 3], c["dtype"], c["seed"])
    return (lambda a: sp.prox.Stack([sp.prox.L1Reg(c["shape"], 0.6), sp.prox.L2Reg([3], 0.5, y=a["z"])])(0.75, a["y"])), \
        {"y": y, "z": _g([3], c["dtype"], c["seed"] + 4)}


FUNCS["prox.Stack"] = _f_stack
FUNC_NAMES = sorted(FUNCS)


@st.composite
def st_function(draw):
    name = draw(st.sampled_from(FUNC_NAMES))
    nd = draw(st.integers(1, 3))
    shape = [draw(st.integers(2, 5)) for _ in range(nd)]
    dt = draw(st.sampled_from(["complex128", "complex64", "float64", "float32"]))
    cdt = "complex64" if dt in ("complex64", "float32") else "complex128"
    if name in ("mri.apply_tseg", "mri.tseg_off_res_b_ct"):
        shape = [4, 4]
    return {"fn": name, "shape": shape, "dtype": dt, "cdtype": cdt, "seed": draw(A.seeds), "flag": draw(st.booleans()),
            "layout": draw(st.sampled_from(["c", "c", "strided", "fortran", "reshape-view"]))}


def check_function(case):
    r = R()
    warnings.simplefilter("ignore")
    name = case["fn"]
    run, arrs = FUNCS[name](case)
    args, bufs = {}, {}
    for k, a in arrs.items():
        arg, bb = _layout(np.asarray(a), case["layout"])
        args[k] = arg
        bufs[k] = bb
    before = {k: (snap(args[k]), [snap(b) for b in bufs[k]]) for k in args}
    try:
        run(args)
    except Exception as e:
        # whether these inputs are accepted is another property's subject; mutation is still checked
        r.label("raised:" + type(e).__name__)
    for k in args:
        s_arg, s_bufs = before[k]
        if snap(args[k]) != s_arg or [snap(b) for b in bufs[k]] != s_bufs:
            r.fail("mutates-argument:%s:%s" % (name, k), "argument %r of %s changed (layout %s, dtype %s, shape %s)"
                   % (k, name, case["layout"], args[k].dtype, args[k].shape))
    r.label(name, "layout:" + case["layout"])
    r.nontrivial = case["layout"] != "c" or len(arrs) > 1
    r.sig = "%s|%s|%s|%s|%s" % (name, case["shape"], case["dtype"], case["layout"], case["flag"])
    return r


@st.composite
def st_linear_mri(draw):
    c = draw(LO.st_mri())
    c["aseed"] = draw(A.seeds)
    return c


def function_grid():
    """every (function / Prox row) x memory layout x dtype x number of dims, enumerated completely in every tier"""
    out = []
    for name in FUNC_NAMES:
        for layout in ("c", "strided", "fortran", "reshape-view"):
            for dt in ("complex128", "complex64", "float64", "float32"):
                for nd in (1, 2, 3):
                    shape = [3, 4, 2][:nd] if name not in ("mri.apply_tseg", "mri.tseg_off_res_b_ct") else [4, 4]
                    out.append({"fn": name, "shape": shape, "dtype": dt, "cdtype": "complex64" if dt in ("complex64", "float32") else "complex128",
                                "seed": 17 + nd, "flag": (len(out) % 2 == 0), "layout": layout})
    return out


def extra_coverage(tier):
    return {"exhaustive_subdomains": ["functions / Prox rows: every row x {C, strided, Fortran, reshape-view} x 4 dtypes x 1-3 dims (%d calls, part "
                                      "'functions-grid')" % len(function_grid())]}


PARTS = [
    make_sweep("functions-grid", function_grid, check_function),
    Part("linear", check_linear, {"quick": 2700, "thorough": 40000}, strategy=st_linear),
    Part("linear-mri", check_linear, {"quick": 450, "thorough": 6000}, strategy=st_linear_mri),
    Part("history", check_history, {"quick": 960, "thorough": 12000}, machine=make_machine, kind="stateful", steps=25),
    Part("functions", check_function, {"quick": 4500, "thorough": 60000}, strategy=st_function),
]
