"""C01 - every linear operator's adjoint is its true adjoint.

Generated operator programs (vlib.linops) are materialised densely: M from
T(e_j), N from T.H(e_k).  <Tx,y> = <x,T^H y> for ALL x,y  <=>  N = M^H, so one
matrix comparison decides the claim for the whole configuration.
"""
import warnings

import numpy as np
from hypothesis import strategies as st

from vlib import arrays as A
from vlib import linops as LO
from vlib.runner import Part, R

PROPERTY = "C01"
RULE = ("Hypothesis-generated operator expression trees (every sigpy.linop class incl. MRI factories as leaves, "
        "combinators *,+,-,scalar,Hstack/Vstack/Diag/Conj/.H/.H.H, depth<=2, type-directed construction) are "
        "materialised as dense matrices M=mat(T), N=mat(T.H) from basis probes e_j (complex128 or complex64); oracle "
        "N == M^H (Frobenius, 1e-9 / 2e-4 relative), shapes swapped, mat(T.H.H) == M; directly constructed partner "
        "classes (BlocksToArray, InverseWavelet, Convolve*Adjoint) compared with M^H too. non-trivial: tree has a "
        "leaf other than Identity/Reshape and M is not a scaled permutation; distinct = tree signature "
        "(classes+parameters, array payload excluded).")
ASSUMPTIONS = [
    "CPU backend; ToDevice is generated between CPU devices and AllReduce/AllReduceAdjoint over a single-process Communicator (no GPU/MPI on this image)",
    "Sense options tseg (2-D, unbatched), transp_nufft (gridded coordinates), comm (single process) and ishape are generated in the mri part",
    "operator spaces <= ~40 input / ~96 output elements (dense materialisation), tree depth <= 2 (+adaptors)",
    "0-dimensional operator shapes excluded (Linop.__call__ treats numpy scalars as scaling)",
    "valid-mode convolution leaves are generated with data >= filter on every axis (other combinations belong to C08)",
    "programs that cannot be constructed are not C01's subject (C03 decides construction/rejection)",
]


def tol(dt):
    return 2e-4 if dt in ("complex64", "float32") else 1e-9


def safe_mat(op, ishape, dt):
    with warnings.catch_warnings():
        warnings.simplefilter("ignore")
        return LO.mat(op, ishape, dt, real_only=True)[0]


def node_failures(sp, dt):
    """sub-claims failing for this (sub)tree; [] if all hold. Raises only for harness bugs."""
    out = []
    try:
        op = LO.build(sp)
    except Exception:
        return ["unbuildable"]
    try:
        M = safe_mat(op, op.ishape, dt)
    except Exception as e:
        return ["raises:forward:%s" % type(e.__cause__ or e).__name__]
    try:
        H = op.H
        hs_ok = list(H.ishape) == list(op.oshape) and list(H.oshape) == list(op.ishape)
        if not hs_ok:
            out.append("adjoint-shapes")
        N = safe_mat(H, H.ishape, dt)
    except Exception as e:
        return out + ["raises:adjoint:%s" % type(e.__cause__ or e).__name__]
    if not (np.all(np.isfinite(M)) and np.all(np.isfinite(N))) and dt in ("complex64", "float32"):
        return ["unbuildable"]          # the operator's entries leave the single-precision range: nothing to compare
    scale = max(np.linalg.norm(M), np.linalg.norm(N), 1e-30)
    if N.shape == M.T.shape and not np.linalg.norm(N - M.conj().T) <= tol(dt) * scale:
        # tolerance relative to the operands, not to a possibly cancelling result (Identity - NUFFT in single precision)
        scale = max(scale, LO.tree_opscale(sp, dt))
    if N.shape != M.T.shape:
        out.append("adjoint-matrix-shape")
    else:
        err = np.linalg.norm(N - M.conj().T)
        if not err <= tol(dt) * scale:
            out.append("adjoint")
    # real-dtype x and y ("for all real or complex x and y"): the matrices seen through real-dtype probes must be the
    # same maps, i.e. <A x, y> = <x, A^H y> also for real x with complex y and vice versa. Compared at single
    # precision (fft documents that real input is computed in complex64); an operator that rejects real input is skipped.
    if "adjoint" not in out and N.shape == M.T.shape:
        try:
            with warnings.catch_warnings():
                warnings.simplefilter("ignore")
                Mr = LO.mat_real(op, op.ishape, dt)
                Nr = LO.mat_real(H, H.ishape, dt)
            rs = max(scale, LO.tree_opscale(sp, dt))
            if Mr is not None and (Mr.shape != M.shape or not np.linalg.norm(N - Mr.conj().T) <= 2e-4 * rs):
                out.append("adjoint:real-x")
            if Nr is not None and (Nr.shape != N.shape or not np.linalg.norm(Nr - M.conj().T) <= 2e-4 * rs):
                out.append("adjoint:real-y")
            # x / y held in Fortran order (a valid array with the same values): same maps
            rng = np.random.default_rng(M.shape[0] * 131 + M.shape[1])
            with warnings.catch_warnings():
                warnings.simplefilter("ignore")
                if len(op.ishape) >= 2:
                    x = (rng.standard_normal(op.ishape) + 1j * rng.standard_normal(op.ishape)).astype(dt)
                    yx = np.asarray(op(np.asfortranarray(x))).astype(np.complex128).ravel()
                    if yx.shape != (M.shape[0],) or not np.linalg.norm(yx - M @ x.ravel().astype(np.complex128)) <= \
                            10 * tol(dt) * rs * max(np.linalg.norm(x.ravel()), 1e-30):
                        out.append("forward:fortran-x")
                if len(H.ishape) >= 2:
                    y = (rng.standard_normal(H.ishape) + 1j * rng.standard_normal(H.ishape)).astype(dt)
                    xy = np.asarray(H(np.asfortranarray(y))).astype(np.complex128).ravel()
                    if xy.shape != (M.shape[1],) or not np.linalg.norm(xy - M.conj().T @ y.ravel().astype(np.complex128)) <= \
                            10 * tol(dt) * rs * max(np.linalg.norm(y.ravel()), 1e-30):
                        out.append("adjoint:fortran-y")
        except Exception as e:
            out.append("raises:real-probe:%s" % type(e.__cause__ or e).__name__)
    try:
        HH = op.H.H
        M2 = safe_mat(HH, HH.ishape, dt)
        if M2.shape != M.shape or not np.linalg.norm(M2 - M) <= tol(dt) * scale:
            out.append("double-adjoint")
        if list(HH.ishape) != list(op.ishape) or list(HH.oshape) != list(op.oshape):
            out.append("double-adjoint-shapes")
    except Exception as e:
        out.append("raises:double-adjoint:%s" % type(e.__cause__ or e).__name__)
    return out


def check_tree(case):
    LO.set_container(case.get("ct"))
    r = R()
    sp, dt = case["tree"], case["dtype"]
    fails = node_failures(sp, dt)
    cl = LO.classes(sp)
    for c in cl:
        r.label(c)
    r.label("dtype:" + dt)
    if fails == ["unbuildable"]:
        r.label("unbuildable")
        r.sig = LO.sig(sp)
        return r
    if fails:
        small = LO.localize(sp, lambda c: bool([f for f in node_failures(c, dt) if f != "unbuildable"]))
        sf = [f for f in node_failures(small, dt) if f != "unbuildable"] or fails
        detail = ""
        if small["op"] in ("Hstack", "Vstack", "Diag"):
            ax = [small.get("axis"), small.get("oaxis"), small.get("iaxis")]
            if any(a is not None and a < 0 for a in ax):
                detail = ":negative-axis"
        if small["op"] == "Transpose" and small["axes"] and any(a < 0 for a in small["axes"]):
            detail = ":negative-axes"
        for f in sf:
            r.fail("%s:%s%s" % (f, small["op"], detail), "smallest failing subtree: %s" % LO.sig(small)[:1200])
    # directly constructed partner classes
    for leaf in LO.leaves(sp):
        part = LO.direct_partner(leaf)
        if part is None:
            continue
        try:
            a = LO.build(leaf)
            b = LO.build(part)
        except Exception as e:
            r.fail("partner-ctor:%s" % part["op"], "%s: %s" % (type(e).__name__, e))
            continue
        if list(b.ishape) != list(a.oshape) or list(b.oshape) != list(a.ishape):
            r.fail("partner-shapes:%s" % part["op"], "%s vs %s" % (b, a))
            continue
        try:
            Ma = safe_mat(a, a.ishape, dt)
            Mb = safe_mat(b, b.ishape, dt)
        except Exception as e:
            r.fail("raises:partner:%s" % part["op"], "%s: %s" % (type(e).__name__, e.__cause__ or e))
            continue
        sc = max(np.linalg.norm(Ma), 1e-30)
        if not np.linalg.norm(Mb - Ma.conj().T) <= tol(dt) * sc:
            r.fail("adjoint:%s(direct)" % part["op"], LO.sig(part)[:800])
        r.label("direct:" + part["op"])
    nontriv_leaf = any(c not in LO.COMBINATORS and c not in ("Identity", "Reshape") for c in cl)
    r.nontrivial = nontriv_leaf
    r.sig = LO.sig(sp)
    return r


st_mri = LO.st_mri


# ------------------------------------------------------------------ larger spaces: inner-product pairs


@st.composite
def st_big(draw):
    """Operator programs on larger spaces (up to ~600 inputs / 1500 outputs): too big for dense
    materialisation, checked on 8 generated complex pairs <Tx,y> = <x,T^H y>."""
    old = (LO.MAX_IN, LO.MAX_OUT)
    LO.MAX_IN, LO.MAX_OUT = 600, 1500
    try:
        c = draw(LO.st_tree(max_depth=1, max_in=600, dim_hi=16))
    finally:
        LO.MAX_IN, LO.MAX_OUT = old
    c["pseed"] = draw(A.seeds)
    return c


def pair_failures(sp, dt, pseed):
    try:
        op = LO.build(sp)
    except Exception:
        return ["unbuildable"]
    rng = np.random.default_rng(pseed)
    out = []
    try:
        with warnings.catch_warnings():
            warnings.simplefilter("ignore")
            H = op.H
            if list(H.ishape) != list(op.oshape) or list(H.oshape) != list(op.ishape):
                out.append("adjoint-shapes")
            worst = 0.0
            for _ in range(8):
                x = (rng.standard_normal(op.ishape) + 1j * rng.standard_normal(op.ishape)).astype(dt)
                y = (rng.standard_normal(op.oshape) + 1j * rng.standard_normal(op.oshape)).astype(dt)
                Ax = np.asarray(op(x)).astype(np.complex128)
                AHy = np.asarray(H(y)).astype(np.complex128)
                lhs = np.vdot(y.astype(np.complex128), Ax)
                rhs = np.vdot(AHy, x.astype(np.complex128))
                sc = np.linalg.norm(Ax) * np.linalg.norm(y) + np.linalg.norm(AHy) * np.linalg.norm(x) + 1e-300
                if not abs(lhs - rhs) / sc <= 10 * tol(dt):
                    # relative to the operands when the result cancels (e.g. Sum o FiniteDifference is the zero map)
                    sc = max(sc, LO.tree_opscale_est(sp, dt, pseed) * np.linalg.norm(x.astype(np.complex128).ravel())
                             * np.linalg.norm(y.astype(np.complex128).ravel()))
                worst = max(worst, abs(lhs - rhs) / sc)
            if not worst <= 10 * tol(dt):
                out.append("adjoint")
    except Exception as e:
        out.append("raises:%s" % type(e.__cause__ or e).__name__)
    return out


def check_big(case):
    LO.set_container(case.get("ct"))
    r = R()
    sp, dt = case["tree"], case["dtype"]
    fails = [f for f in pair_failures(sp, dt, case["pseed"]) if f != "unbuildable"]
    cl = LO.classes(sp)
    for c in cl:
        r.label(c)
    if fails:
        small = LO.localize(sp, lambda c: bool([f for f in pair_failures(c, dt, case["pseed"]) if f != "unbuildable"]))
        sf = [f for f in pair_failures(small, dt, case["pseed"]) if f != "unbuildable"] or fails
        for f in sf:
            r.fail("%s:%s:large" % (f, small["op"]), "smallest failing subtree: %s" % LO.sig(small)[:1200])
    o, i = LO.shape_of(sp)
    r.label("in>%d" % (100 if A.prod(i) > 100 else 40 if A.prod(i) > 40 else 0))
    r.nontrivial = A.prod(i) > 40 and any(c not in LO.COMBINATORS and c not in ("Identity", "Reshape") for c in cl)
    r.sig = LO.sig(sp)
    return r


@st.composite
def st_rooted(draw):
    """programs whose root is a combinator (stacks, sums, Conj, .H ...): first leaf class NOT forced"""
    for _ in range(6):
        c = draw(LO.st_tree(max_depth=2, first_round_robin=False))
        if c["tree"]["op"] in LO.COMBINATORS:
            return c
    return c


PARTS = [
    Part("rooted", check_tree, {"quick": 1500, "thorough": 40000}, strategy=st_rooted),
    Part("tree", check_tree, {"quick": 2600, "thorough": 60000}, strategy=lambda: LO.st_tree(max_depth=2)),
    Part("leaf", check_tree, {"quick": 1600, "thorough": 40000}, strategy=lambda: LO.st_tree(max_depth=0)),
    Part("mri", check_tree, {"quick": 500, "thorough": 10000}, strategy=st_mri),
    Part("deep", check_tree, {"quick": 300, "thorough": 12000}, strategy=lambda: LO.st_tree(max_depth=3, max_in=24)),
    Part("big", check_big, {"quick": 900, "thorough": 20000}, strategy=st_big),
]
