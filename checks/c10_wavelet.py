"""C10 - orthogonal wavelet transform (sigpy.fwt / sigpy.iwt, linop.Wavelet / InverseWavelet)
is norm preserving, perfectly invertible, has the inverse as its adjoint and
produces exactly the advertised coefficient shape.

sigpy zero-pads every axis to even length (centred resize), runs
pywt.wavedecn(mode='zero') and packs the coefficients with coeffs_to_array.
With mode='zero' and an orthogonal filter bank the analysis operator W is the
orthonormal transform of l2(Z) applied to the zero-extended signal with every
non-zero coefficient kept, i.e. an isometry (W^H W = I, in general not square),
and crop o synthesis is its adjoint.  All of that is checked from the outside:
no formula of the harness is used as an oracle except identities the property
states.
"""
import warnings

import numpy as np
from hypothesis import strategies as st

from vlib import arrays as A
from vlib.runner import Part, R, make_sweep

PROPERTY = "C10"
RULE = ("Hypothesis draws (wavelet name from pywt families haar/db/sym/coif: 40 % from the filters with <= 8 taps, "
        "60 % family-then-order uniform so every name incl. 76/102-tap filters is used; shape 1-3 dims, lengths 1-9; "
        "axes None or a non-empty subset in arbitrary order with negative aliases; level None/1/2/3; "
        "float64/complex128/float32/complex64 input from the shared dyadic/gaussian/special mix). Oracles: "
        "iwt(fwt(x), x.shape) = x; ||fwt x|| = ||x||; fwt(x).shape == Wavelet.oshape == InverseWavelet.ishape == "
        "get_wavelet_shape; linops agree with the functions; Wavelet.H is the InverseWavelet, Wavelet.H.H acts as "
        "Wavelet; dense matrices from basis vectors (n_in*n_out <= 4e4 and n_in+n_out <= 2500): "
        "mat(InverseWavelet) == mat(Wavelet)^H, W^H W = I (and W W^H = I when square), otherwise 4 random "
        "pairs <Wx,c> = <x,W^H c>. Tolerance 1e-8 (double) / 2e-4 (single) relative to operand norms. "
        "non-trivial: some transformed axis is odd or shorter than the filter, or axes is a strict subset, or the "
        "level is explicit. distinct = distinct (wavelet, shape, axes, level, dtype).")
ASSUMPTIONS = [
    "CPU numpy backend only",
    "PyWavelets (wavedecn/waverecn/coeffs_to_array, filter coefficients) is trusted as the filter bank; "
    "pywt 'level too high' / boundary-effect warnings are silenced, they are not errors",
    "axes is None or a NON-EMPTY tuple of DISTINCT axes (pywt rejects duplicates; an empty tuple makes pywt fail "
    "on min() of an empty list - neither is 'a subset of axes to transform')",
    "level in {None, 1, 2, 3} as quantified by the property; level 0 / negative levels are not generated",
    "when the coefficient array would exceed 1.5e5 elements (long filter x several axes x several levels) the "
    "wavelet is replaced by a lower order of the same family until it fits; level/axes/shape are kept",
    "iwt is called with the coeff_slices returned by get_wavelet_shape for the same (shape, wavelet, axes, level), "
    "as InverseWavelet and L1WaveletRecon do",
    "output dtype is not asserted (the property does not state it); tolerance class follows the input dtype",
    "'the inverse is the adjoint' is checked on basis vectors / random pairs; additivity of fwt itself is not asserted",
]

FAMILIES = ("haar", "db", "sym", "coif")
CAP_COEFFS = 150000
_NAMES = {}


def _names():
    """family -> list of (name, dec_len); pywt is only used as a catalogue here."""
    if not _NAMES:
        import pywt
        for f in FAMILIES:
            _NAMES[f] = [(n, pywt.Wavelet(n).dec_len) for n in pywt.wavelist(f)]
            for n, _ in _NAMES[f]:
                if not pywt.Wavelet(n).orthogonal:  # pragma: no cover - catalogue self-check
                    raise RuntimeError("non-orthogonal wavelet in catalogue: " + n)
    return _NAMES


def _family(name):
    for f in ("haar", "coif", "sym", "db"):
        if name.startswith(f):
            return f
    raise ValueError(name)


def _dec_len(name):
    for n, L in _names()[_family(name)]:
        if n == name:
            return L
    raise ValueError(name)


def _norm_axes(axes, nd):
    return list(range(nd)) if axes is None else [a % nd for a in axes]


def _max_level(n, L):
    """level chosen by pywt for level=None (labels / sizing only)."""
    import pywt
    return int(pywt.dwt_max_level(n, L))


def _coeff_extent(z, L, lev):
    """extent along one transformed axis of coeffs_to_array(wavedecn(mode='zero')): used for SIZING only."""
    a, tot = z, 0
    for _ in range(lev):
        a = (a + L - 1) // 2
        tot += a
    return tot + a


def _predicted_size(shape, axes, L, level):
    zs = [((n + 1) // 2) * 2 for n in shape]
    ax = _norm_axes(axes, len(shape))
    lev = level if level is not None else min(_max_level(zs[a], L) for a in ax)
    size = 1
    for d, z in enumerate(zs):
        size *= _coeff_extent(z, L, lev) if d in ax else z
    return size


@st.composite
def st_case(draw):
    names = _names()
    if draw(st.integers(0, 9)) < 4:
        short = [n for f in FAMILIES for n, L in names[f] if L <= 8]
        wave = draw(st.sampled_from(short))
    else:
        fam = draw(st.sampled_from(FAMILIES))
        wave = draw(st.sampled_from([n for n, _ in names[fam]]))
    shape = draw(A.shapes(1, 3, 1, 9, 300))
    if draw(st.sampled_from([False] * 14 + [True])):
        # one LONG axis (far beyond the small sizes used elsewhere), optionally next to a short one
        shape = [draw(st.integers(65, 400))] + ([draw(st.integers(1, 3))] if draw(st.booleans()) else [])
        shape = list(draw(st.permutations(shape)))
    axes = draw(A.axes_subset(len(shape)))
    level = draw(st.sampled_from([None, 1, 2, 3]))
    # keep the coefficient array materialisable: lower the order inside the same family (by construction, no assume)
    fam = _family(wave)
    cand = [n for n, _ in names[fam]]
    i = cand.index(wave)
    while i > 0 and _predicted_size(shape, axes, _dec_len(cand[i]), level) > CAP_COEFFS:
        i //= 2
    wave = cand[i]
    dt = draw(A.dtypes())
    x = draw(A.arrays(shape, dt))
    return {"wave": wave, "shape": shape, "axes": axes, "level": level, "x": x, "seed": draw(A.seeds),
            "layout": draw(st.sampled_from(A.LAYOUTS))}


def _call(r, key, fn):
    try:
        with warnings.catch_warnings():
            warnings.simplefilter("ignore")
            return True, r.twice(key, fn)
    except Exception as e:  # every generated configuration is inside the property's domain
        r.fail(key + ":raises", "%s: %s" % (type(e).__name__, e))
        return False, None


def _close(r, key, got, want, tol, scale, extra=""):
    got = np.asarray(got)
    want = np.asarray(want)
    if got.shape != want.shape:
        r.fail(key + ":shape", "shape %s, expected %s %s" % (got.shape, want.shape, extra))
        return False
    err = float(np.max(np.abs(got - want))) if got.size else 0.0
    if not np.isfinite(err) or err > tol * scale:
        r.fail(key + ":values", "max abs error %.3e > %.1e * %.3e %s" % (err, tol, scale, extra))
        return False
    return True


def _rand(rng, shape, dt):
    a = rng.standard_normal(shape)
    if np.dtype(dt).kind == "c":
        a = a + 1j * rng.standard_normal(shape)
    return a.astype(dt)


def check_case(case):
    import sigpy as sp
    from sigpy import wavelet as spw

    r = R()
    wave, shape, level = case["wave"], list(case["shape"]), case["level"]
    axes = None if case["axes"] is None else tuple(case["axes"])
    x = A.relayout(A.arr(case["x"]), case.get("layout", "c"))      # caller's array in the generated memory layout
    dt = case["x"]["dtype"]
    cplx = np.dtype(dt).kind == "c"
    tol = 2e-4 if np.dtype(dt) in (np.dtype("float32"), np.dtype("complex64")) else 1e-8
    nd = len(shape)
    ax = _norm_axes(axes, nd)
    L = _dec_len(wave)
    cfg = "wave=%s shape=%s axes=%s level=%s dtype=%s" % (wave, shape, axes, level, dt)
    nx = float(np.linalg.norm(x))
    rng = np.random.default_rng(case["seed"])

    # ---- the functions -------------------------------------------------------------------------
    x0 = x.copy()
    if case.get("seed", 0) % 3 == 0:
        ok_f, y = _call(r, "fwt", lambda: sp.fwt(x, wave, axes, level))        # documented positional order (input, wave_name, axes, level)
    else:
        ok_f, y = _call(r, "fwt", lambda: sp.fwt(x, wave_name=wave, axes=axes, level=level))
    r.check(np.array_equal(x, x0), "fwt:mutates-input", cfg)
    ok_s, gs = _call(r, "get_wavelet_shape", lambda: spw.get_wavelet_shape(tuple(shape), wave, axes, level))
    oshape = slices = None
    if ok_s:
        oshape, slices = tuple(int(i) for i in gs[0]), gs[1]
    if ok_f:
        y = np.asarray(y)
        ny = float(np.linalg.norm(y))
        r.check(abs(ny - nx) <= tol * nx, "fwt:norm", "||fwt x||=%.17g ||x||=%.17g %s" % (ny, nx, cfg))
        if ok_s:
            r.check(tuple(y.shape) == oshape, "shape:fwt-vs-get_wavelet_shape",
                    "fwt gives %s, get_wavelet_shape %s %s" % (y.shape, oshape, cfg))
    if ok_f and ok_s:
        y0 = y.copy()
        ok, xr = _call(r, "iwt", lambda: sp.iwt(y, tuple(shape), slices, wave_name=wave, axes=axes, level=level))
        if ok:
            _close(r, "roundtrip:iwt(fwt(x))", xr, x, tol, nx, cfg)
        r.check(np.array_equal(y, y0), "iwt:mutates-input", cfg)

    # ---- the operators -------------------------------------------------------------------------
    ok_w, W = _call(r, "Wavelet.ctor", lambda: sp.linop.Wavelet(shape, axes=axes, wave_name=wave, level=level))
    ok_i, IW = _call(r, "InverseWavelet.ctor",
                     lambda: sp.linop.InverseWavelet(shape, axes=axes, wave_name=wave, level=level))
    c = None
    if ok_w:
        r.check(list(W.ishape) == shape, "Wavelet:ishape", "%s %s" % (W.ishape, cfg))
        if ok_f:
            r.check(tuple(W.oshape) == tuple(y.shape), "shape:fwt-vs-Wavelet.oshape",
                    "fwt gives %s, Wavelet advertises %s %s" % (y.shape, W.oshape, cfg))
        if ok_s:
            r.check(tuple(W.oshape) == oshape, "shape:Wavelet.oshape-vs-get_wavelet_shape",
                    "%s vs %s %s" % (W.oshape, oshape, cfg))
        ok, yw = _call(r, "Wavelet.apply", lambda: W(x))
        if ok and ok_f:
            _close(r, "Wavelet.apply-vs-fwt", yw, y, tol, nx, cfg)
        c = _rand(rng, tuple(W.oshape), dt)
    if ok_i:
        r.check(list(IW.oshape) == shape, "InverseWavelet:oshape", "%s %s" % (IW.oshape, cfg))
        if ok_w:
            r.check(list(IW.ishape) == list(W.oshape), "shape:InverseWavelet.ishape-vs-Wavelet.oshape",
                    "%s vs %s %s" % (IW.ishape, W.oshape, cfg))
        if c is not None and list(IW.ishape) == list(c.shape):
            nc = float(np.linalg.norm(c))
            ok, xi = _call(r, "InverseWavelet.apply", lambda: IW(c))
            if ok and ok_s:
                ok2, xf = _call(r, "iwt", lambda: sp.iwt(c, tuple(shape), slices, wave_name=wave, axes=axes,
                                                         level=level))
                if ok2:
                    _close(r, "InverseWavelet.apply-vs-iwt", xi, xf, tol, nc, cfg)
            if ok and ok_w:
                # Wavelet.H is the inverse transform; Wavelet.H.H acts as Wavelet
                okh, WH = _call(r, "Wavelet.H", lambda: W.H)
                if okh:
                    r.check(list(WH.ishape) == list(W.oshape) and list(WH.oshape) == shape, "Wavelet.H:shapes",
                            "%s -> %s %s" % (WH.ishape, WH.oshape, cfg))
                    ok3, xh = _call(r, "Wavelet.H.apply", lambda: WH(c))
                    if ok3:
                        _close(r, "Wavelet.H-vs-InverseWavelet", xh, xi, tol, nc, cfg)
                    okhh, WHH = _call(r, "Wavelet.H.H", lambda: WH.H)
                    if okhh:
                        r.check(list(WHH.oshape) == list(W.oshape) and list(WHH.ishape) == shape,
                                "Wavelet.H.H:shapes", "%s -> %s %s" % (WHH.ishape, WHH.oshape, cfg))
                        ok4, yhh = _call(r, "Wavelet.H.H.apply", lambda: WHH(x))
                        if ok4 and ok_f:
                            _close(r, "Wavelet.H.H-vs-Wavelet", yhh, y, tol, nx, cfg)
                # L1WaveletRecon's use: W.H * W restores the image
                ok5, xb = _call(r, "Wavelet.H*Wavelet", lambda: IW(W(x)))
                if ok5:
                    _close(r, "roundtrip:InverseWavelet(Wavelet(x))", xb, x, tol, nx, cfg)

    # ---- adjointness / isometry ----------------------------------------------------------------
    dense = False
    unitary = None
    if ok_w and ok_i and list(IW.ishape) == list(W.oshape):
        n_in, n_out = A.prod(shape), A.prod(W.oshape)
        unitary = n_in == n_out
        dense = n_in * n_out <= 40000 and n_in + n_out <= 2500
        if dense:
            def mat(op, n_from, shp_from, n_to, key):
                M = np.zeros((n_to, n_from), np.complex128 if cplx else np.float64)
                for j in range(n_from):
                    cj = 1j if (cplx and j % 2) else 1.0   # complex inputs: exercise the imaginary path too
                    e = np.zeros(n_from, dt)
                    e[j] = cj
                    ok, col = _call(r, key, lambda: op(e.reshape(shp_from)))
                    if not ok:
                        return None
                    col = np.asarray(col)
                    if col.size != n_to:
                        r.fail(key + ":shape", "column %d has shape %s %s" % (j, col.shape, cfg))
                        return None
                    M[:, j] = col.reshape(-1) / cj
                return M
            M = mat(W, n_in, tuple(shape), n_out, "Wavelet.apply")
            N = mat(IW, n_out, tuple(W.oshape), n_in, "InverseWavelet.apply")
            if M is not None and N is not None:
                e = float(np.max(np.abs(N - M.conj().T)))
                r.check(e <= tol, "adjoint:mat(InverseWavelet)-vs-mat(Wavelet)^H",
                        "max entry error %.3e %s" % (e, cfg))
            if M is not None:
                e = float(np.max(np.abs(M.conj().T @ M - np.eye(n_in))))
                r.check(e <= tol, "isometry:WhW=I", "max entry error %.3e %s" % (e, cfg))
                if unitary:
                    e = float(np.max(np.abs(M @ M.conj().T - np.eye(n_out))))
                    r.check(e <= tol, "isometry:WWh=I-when-square", "max entry error %.3e %s" % (e, cfg))
        else:
            for k in range(4):
                xa = _rand(rng, tuple(shape), dt)
                ca = _rand(rng, tuple(W.oshape), dt)
                ok1, wx = _call(r, "Wavelet.apply", lambda: W(xa))
                ok2, wc = _call(r, "InverseWavelet.apply", lambda: IW(ca))
                if ok1 and ok2 and np.shape(wx) == ca.shape and np.shape(wc) == xa.shape:
                    lhs = np.vdot(ca.astype(np.complex128), np.asarray(wx).astype(np.complex128))
                    rhs = np.vdot(np.asarray(wc).astype(np.complex128), xa.astype(np.complex128))
                    sc = float(np.linalg.norm(xa) * np.linalg.norm(ca))
                    r.check(abs(lhs - rhs) <= tol * sc, "adjoint:pairs",
                            "<Wx,c>=%s <x,Whc>=%s scale %.3e %s" % (lhs, rhs, sc, cfg))

    # ---- classes -------------------------------------------------------------------------------
    fam = _family(wave)
    odd = any(shape[a] % 2 for a in ax)
    shorter = any(shape[a] < L for a in ax)
    longer = any(shape[a] >= L for a in ax)
    strict = axes is not None and len(set(ax)) < nd
    neg = axes is not None and any(a < 0 for a in axes)
    zs = [((n + 1) // 2) * 2 for n in shape]
    maxlev = min(_max_level(zs[a], L) for a in ax)
    r.label("fam-" + fam, "ndim-%d" % nd, "level-%s" % level, dt)
    r.label("taps<=8" if L <= 8 else ("taps-9..30" if L <= 30 else "taps>30"))
    for nm, cnd in (("odd-transformed-axis", odd), ("shorter-than-filter", shorter), ("not-shorter-than-filter", longer),
                    ("len1-transformed-axis", any(shape[a] == 1 for a in ax)),
                    ("odd-untransformed-axis", any(shape[d] % 2 for d in range(nd) if d not in ax)),
                    ("axes-None", axes is None), ("strict-subset", strict), ("negative-axis", neg),
                    ("axes-unsorted", axes is not None and ax != sorted(ax)),
                    ("level-too-high", level is not None and level > maxlev),
                    ("real-multilevel", (level if level is not None else maxlev) >= 2
                     and (level is None or level <= maxlev)),
                    ("level-None->0", level is None and maxlev == 0),
                    ("mixed-lengths", len({shape[a] for a in ax}) > 1),
                    ("dense-matrices", dense), ("random-pairs", not dense and unitary is not None),
                    ("unitary(oshape==ishape)", bool(unitary)), ("x-zero", nx == 0.0)):
        if cnd:
            r.label(nm)
    r.notes["unitary"] = bool(unitary)
    r.nontrivial = bool(odd or shorter or strict or level is not None)
    r.sig = "%s|%s|%s|%s|%s" % (wave, shape, None if axes is None else list(axes), level, dt)
    return r


def sweep_configs():
    """finite sub-domain enumerated completely: 1-D lengths 1..48 x 6 wavelets x level {None,1,2}; 2-D [n,5]/[5,n]
    with a single (also negative) transformed axis for n in 1..20."""
    out = []
    for wave in ("haar", "db2", "db4", "sym5", "coif2", "db8"):
        for n in range(1, 49):
            for level in (None, 1, 2):
                out.append({"wave": wave, "shape": [n], "axes": None, "level": level, "seed": n,
                            "x": {"k": "g", "shape": [n], "dtype": "complex128", "seed": 31 * n + 1}})
    for wave in ("haar", "db3"):
        for n in range(1, 21):
            for shape, axes in (([n, 5], [0]), ([5, n], [-1]), ([n, 5], [-2]), ([n, 5], [1, 0])):
                out.append({"wave": wave, "shape": shape, "axes": axes, "level": 1, "seed": n,
                            "x": {"k": "g", "shape": shape, "dtype": "float64", "seed": 17 * n + 3}})
    return out


def extra_coverage(tier):
    return {"exhaustive_subdomains": ["fwt/iwt/Wavelet: 1-D lengths 1..48 x {haar,db2,db4,sym5,coif2,db8} x level {None,1,2} and 2-D "
                                      "single/unsorted-axes transforms for n in 1..20 (%d configurations, part 'lengths')" % len(sweep_configs())]}


PARTS = [Part("wavelet", check_case, {"quick": 12000, "thorough": 100000}, strategy=st_case),
         make_sweep("lengths", sweep_configs, check_case)]
