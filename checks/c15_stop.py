"""C15 - solvers stop within max_iter and stop early only at genuine fixed points.

Part 'machine'  : RuleBasedStateMachine over done()/update() interleavings for every Alg subclass
                  (model = integer update counter); invariants on the counter, on done() purity and
                  monotonicity, and the early-stop rule.
Part 'earlystop': generated instances of the tol=0 solvers run by `while not done(): update()` with larger
                  max_iter; whenever the solver stops before max_iter without a breakdown flag, one more
                  update must leave the WHOLE iterate state unchanged.
Part 'power'    : PowerMethod's estimate is non-decreasing after normalisation and never exceeds lambda_max.
Part 'apps'     : App.run() performs <= max_iter updates and returns the array the algorithm holds.
"""
import warnings

import numpy as np
from hypothesis import strategies as st

from vlib import arrays as A
from vlib.runner import Part, R

PROPERTY = "C15"
RULE = ("(machine) Hypothesis state machine per Alg subclass (PowerMethod, GradientMethod, ConjugateGradient, "
        "PrimalDualHybridGradient, AltMin, AugmentedLagrangianMethod, ADMM, SDMM, NewtonsMethod, GerchbergSaxton): rules "
        "done() any number of times / update() guarded by done(), up to max_iter+2 attempts, max_iter in 0..12, tol=0; "
        "invariants: alg.iter == #updates, #updates <= max_iter, done() changes no state and stays true; (earlystop) "
        "generated small instances (zero start + l1 prox + small dual steps for PDHG; box-constrained momentum runs for "
        "accelerated GradientMethod) run to done(): an early stop without breakdown flag must be a fixed point of the "
        "whole state (x; u, x_ext; z) to 1e-10 relative; (power) estimate monotone and <= lambda_max; (apps) run() "
        "returns the held array after <= max_iter updates. non-trivial: history reaches done(); early stops labelled. "
        "distinct = instance signature + history.")
ASSUMPTIONS = [
    "SDMM has no tol parameter (its eps_pri/eps_dual criteria are on by construction): only the counter invariants apply to it",
    "early-stop fixed-point check compares the whole iterate state with relative tolerance 1e-10 (a true numerical fixed point may flip a last bit)",
    "PowerMethod: Hermitian PSD operator with a start vector not orthogonal to the range",
    "instances are tiny dense problems (n <= 6)",
    "EspiritCalib is run with max_iter >= 1 (with 0 power iterations there is no eigenvector to return)",
    "the momentum counter t of accelerated GradientMethod is not part of the compared state",
]

ALG_KINDS = ["PowerMethod", "GradientMethod", "ConjugateGradient", "PDHG", "AltMin", "ALM", "ADMM", "SDMM",
             "Newton", "GerchbergSaxton"]


def _mat(seed, m, n, cplx):
    rng = np.random.default_rng(seed)
    M = rng.integers(-4, 5, size=(m, n)) / 4.0
    if cplx:
        M = M + 1j * rng.integers(-4, 5, size=(m, n)) / 4.0
    if not M.any():
        M[0, 0] = 1
    return M


def _vec(seed, n, cplx, scale=1.0):
    rng = np.random.default_rng(seed + 77)
    v = rng.integers(-8, 9, size=n) / 4.0 * scale
    if cplx:
        v = v + 1j * rng.integers(-8, 9, size=n) / 4.0 * scale
    return v


def build(case):
    """-> (alg, state_fn, breakdown_fn). state_fn returns the list of arrays forming the iterate state."""
    import sigpy as sp
    k = case["alg"]
    mi = case["max_iter"]
    cplx = case.get("cplx", False)
    dt = np.complex128 if cplx else np.float64
    seed = case["seed"]
    n = case.get("n", 3)
    m = case.get("m", 4)
    nobreak = (lambda: False)
    if k == "PowerMethod":
        B = _mat(seed, n, max(1, n - case.get("rankdef", 0)), cplx)
        H = (B @ B.conj().T) * case.get("scale", 1.0)      # overall magnitude of the operator (exact power of two)
        x = _vec(seed, n, cplx).astype(dt)
        if not np.abs(H @ x).any():
            x = (B[:, 0] + 0).astype(dt)
        nf = None
        if case.get("norm_func"):
            nf = (lambda v: float(np.sqrt(np.sum(np.abs(v) ** 2))))     # the l2 norm, supplied by the user
        alg = sp.alg.PowerMethod(lambda v: H @ v, x, norm_func=nf, max_iter=mi)
        return alg, (lambda: [alg.x]), nobreak, {"H": H}
    if k == "GradientMethod":
        Am = _mat(seed, m, n, cplx)
        y = _vec(seed, m, cplx, case.get("yscale", 1.0)).astype(dt)
        L = np.linalg.norm(Am, 2) ** 2
        alpha = case.get("c", 1.0) / L
        g = case.get("g", "none")
        proxg = None
        if g == "l1":
            proxg = sp.prox.L1Reg([n], case.get("mu", 1.0))
        elif g == "box":
            proxg = sp.prox.BoxConstraint([n], -0.5, 0.5)
        x0 = case.get("x0", "zeros")
        if x0 == "zeros":
            x = np.zeros(n, dt)
        elif x0 == "corner":
            rng = np.random.default_rng(seed + 5)
            x = rng.choice([-0.5, 0.5], size=n).astype(dt)
        else:
            x = _vec(seed + 3, n, cplx).astype(dt)
        alg = sp.alg.GradientMethod(lambda v: Am.conj().T @ (Am @ v - y), x, alpha, proxg=proxg,
                                    accelerate=case.get("accelerate", False), max_iter=mi, tol=0)
        # the momentum counter t is not part of the iterate: once x == z is a fixed point its value is irrelevant
        return alg, (lambda: [alg.x] + ([alg.z] if alg.accelerate else [])), nobreak, {"held": {"x": x}}
    if k == "ConjugateGradient":
        B = _mat(seed, n + 1, n, cplx)
        kind = case.get("spd", "pd")
        H = B.conj().T @ B + (0.25 * np.eye(n) if kind == "pd" else 0)
        if kind == "indef":
            H = H - 2 * np.eye(n)
        b = _vec(seed, n, cplx).astype(dt)
        if case.get("b", "rand") == "zero":
            b = np.zeros(n, dt)
        x = np.zeros(n, dt)
        alg = sp.alg.ConjugateGradient(lambda v: H @ v, b, x, max_iter=mi, tol=0)
        return alg, (lambda: [alg.x]), (lambda: bool(alg.not_positive_definite)), {"held": {"x": x}}
    if k == "PDHG":
        Am = _mat(seed, m, n, cplx)
        y = _vec(seed, m, cplx).astype(dt)
        nrm = np.linalg.norm(Am, 2)
        sigma = case.get("sigma", 1.0)
        tau = case.get("tauc", 1.0) / (sigma * nrm ** 2)
        g = case.get("g", "l1")
        if g == "l1":
            proxg = sp.prox.L1Reg([n], case.get("mu", 1.0))
        elif g == "box":
            proxg = sp.prox.BoxConstraint([n], -0.5, 0.5)
        else:
            proxg = sp.prox.NoOp([n])
        proxfc = sp.prox.L2Reg([m], 1, y=-y)
        if case.get("f") == "l1":
            # f(v) = nu*||v - y||_1: prox of sigma f^* is a clip, so BOTH prox operators can saturate and x, u
            # can stand still for an update while the extrapolated point still moves
            nu = case.get("nu", 1.0)
            yr = y.real.astype(np.float64)
            proxfc = (lambda s_, u_, _y=yr, _nu=nu: np.clip(u_ - s_ * _y, -_nu, _nu))
        x = np.zeros(n, dt) if case.get("x0", "zeros") == "zeros" else _vec(seed + 3, n, cplx).astype(dt)
        u = np.zeros(m, dt)
        kw = {}
        if case.get("accel") == "dual":
            kw["gamma_dual"] = 1
        zs = case.get("zero_steps")
        if zs:
            # array steps with exact zeros: frozen primal coordinates / unused measurements (tau*sigma*||A||^2 <= 1 holds)
            rz = np.random.default_rng(seed + 11)
            if zs == "tau":
                tau = np.full(n, float(tau))
                tau[rz.random(n) < 0.5] = 0.0
                tau[rz.integers(0, n)] = 0.0
            else:
                sigma = np.full(m, float(sigma))
                sigma[rz.random(m) < 0.5] = 0.0
                sigma[rz.integers(0, m)] = 0.0
        alg = sp.alg.PrimalDualHybridGradient(proxfc, proxg, lambda v: Am @ v, lambda v: Am.conj().T @ v, x, u,
                                              tau, sigma, max_iter=mi, tol=0, **kw)
        return alg, (lambda: [alg.x, alg.u, alg.x_ext]), nobreak, {"held": {"x": x, "u": u}}
    if k == "AltMin":
        st_ = {"a": np.zeros(2), "b": np.ones(2)}

        def m1():
            st_["a"] = 0.5 * (st_["a"] + st_["b"])

        def m2():
            st_["b"] = 0.5 * (st_["a"] + st_["b"]) + 0.25
        alg = sp.alg.AltMin(m1, m2, max_iter=mi)
        return alg, (lambda: [st_["a"], st_["b"]]), nobreak, {}
    if k == "ALM":
        # min 1/2||x - c||^2 s.t. sum(x) = 1 (h) and x <= 2 (g)
        c = _vec(seed, n, False)
        x = np.zeros(n)
        u = np.zeros(n)
        v = np.zeros(1)
        mu = 1.0

        def minL():
            # few gradient steps on the augmented Lagrangian
            for _ in range(5):
                gx = (x - c) + mu * np.clip(x - 2 + u / mu, 0, None) + mu * (np.sum(x) - 1 + v / mu)
                x[:] = x - 0.2 * gx
        alg = sp.alg.AugmentedLagrangianMethod(minL, lambda xx: xx - 2, lambda xx: np.array([np.sum(xx) - 1]), x, u, v, mu,
                                               max_iter=mi)
        return alg, (lambda: [alg.x, alg.u, alg.v]), nobreak, {"held": {"x": x, "u": u, "v": v}}
    if k == "ADMM":
        c = _vec(seed, n, False)
        x = np.zeros(n)
        z = np.zeros(n)
        u = np.zeros(n)

        def minx():
            x[:] = (c + (z - u)) / 2.0

        def minz():
            z[:] = np.clip(x + u, -0.5, 0.5)
        I = sp.linop.Identity([n])
        alg = sp.alg.ADMM(minx, minz, x, z, u, I, -I, 0, max_iter=mi)
        return alg, (lambda: [alg.x, alg.z, alg.u]), nobreak, {}
    if k == "SDMM":
        Am = _mat(seed, n, n, False) + 2 * np.eye(n)
        d = _vec(seed, n, False).reshape(n, 1)
        Aop = sp.linop.MatMul([n, 1], Am)
        alg = sp.alg.SDMM(Aop, d, 0.1, [], [1], 10 ** 8, [1], 1, 1, c_max=None, c_norm=None, max_cg_iter=3, max_iter=mi)
        return alg, (lambda: [np.asarray(alg.x)]), (lambda: True), {}     # own stopping rule: early stop allowed
    if k == "Newton":
        B = _mat(seed, n + 1, n, False)
        H = B.T @ B + 0.5 * np.eye(n)
        b = _vec(seed, n, False)
        Hi = np.linalg.inv(H)
        x = np.zeros(n) if case.get("x0", "zeros") == "zeros" else _vec(seed + 3, n, False)
        if case.get("b", "rand") == "zero":
            b = np.zeros(n)
        if case.get("f") == "quartic":
            # convex, non-quadratic: Newton needs several updates and its decrement shrinks gradually
            gradf = (lambda v: H @ v - b + v ** 3)
            inv_hess = (lambda v: (lambda w, _v=v: np.linalg.solve(H + 3 * np.diag(_v ** 2), w)))
            kw = {}
            if case.get("beta", 1) < 1:
                # backtracking line search on the same objective
                kw = {"beta": case["beta"], "f": (lambda v: float(0.5 * v @ H @ v - b @ v + np.sum(v ** 4) / 4))}
            alg = sp.alg.NewtonsMethod(gradf, inv_hess, x, max_iter=mi, tol=0, **kw)
        else:
            alg = sp.alg.NewtonsMethod(lambda v: H @ v - b, lambda v: (lambda w: Hi @ w), x, max_iter=mi, tol=0)
        return alg, (lambda: [alg.x]), nobreak, {}
    if k == "GerchbergSaxton":
        Am = _mat(seed, n + 1, n, True)
        xt = _vec(seed, n, True).reshape(n, 1)
        Aop = sp.linop.MatMul([n, 1], Am)
        y = np.abs(Am @ xt)
        x0 = np.ones((n, 1), np.complex128)
        if case.get("gs_fit"):
            y = np.abs(Am @ x0)          # the initial point's magnitudes fit the data exactly (a regularised update still moves it)
        alg = sp.alg.GerchbergSaxton(Aop, y, x0, max_iter=mi, tol=0, lamb=case.get("gs_lamb", 0.1))
        return alg, (lambda: [np.asarray(alg.x)]), nobreak, {}
    raise ValueError(k)


def _snap(arrs):
    return [np.array(a, copy=True) for a in arrs]


def _rel_change(a, b):
    worst = 0.0
    for x, y in zip(a, b):
        x = np.asarray(x)
        y = np.asarray(y)
        if x.shape != y.shape:
            return np.inf
        d = np.linalg.norm((x - y).ravel()) / (1.0 + np.linalg.norm(x.ravel()))
        if not np.isfinite(d):
            return np.inf
        worst = max(worst, d)
    return worst


def _sig(case):
    return "|".join("%s=%s" % (k, case[k]) for k in sorted(case) if k not in ("ops", "part", "prelude"))


# ------------------------------------------------------------------ machine


class Sim:
    def __init__(self, case):
        warnings.simplefilter("ignore")
        self.case = case
        self.r = R()
        np.random.seed(case["seed"] % (2 ** 31))
        self.alg, self.state, self.breakdown, self.info = build(case)
        self.n_updates = 0
        self.was_done = False
        self.reached_done = False
        self.early = False
        k = case["alg"]
        if self.alg.iter != 0:
            self.r.fail("counter:initial:%s" % k, "iter = %s before any update" % self.alg.iter)

    def step(self, op):
        k = self.case["alg"]
        alg = self.alg
        mi = self.case["max_iter"]
        if op == "done":
            before = _snap(self.state()) + [np.array(alg.iter)]
            try:
                d = bool(alg.done())
            except Exception as e:
                self.r.fail("done-raises:%s" % k, "%s: %s" % (type(e).__name__, e))
                return
            after = _snap(self.state()) + [np.array(alg.iter)]
            if any(not np.array_equal(a, b, equal_nan=True) for a, b in zip(before, after)):
                self.r.fail("done-changes-state:%s" % k, "done() modified the iterate or the counter")
            if self.was_done and not d:
                self.r.fail("done-not-monotone:%s" % k, "done() was True and is False again after %d updates" % self.n_updates)
            if d and not self.was_done:
                self.reached_done = True
                if self.n_updates < mi and not self.breakdown():
                    self.early = True
                    self._check_fixed_point()
            self.was_done = self.was_done or d
        else:  # guarded update, exactly as `while not alg.done(): alg.update()` would do it
            try:
                d = bool(alg.done())
            except Exception as e:
                self.r.fail("done-raises:%s" % k, "%s: %s" % (type(e).__name__, e))
                return
            if d:
                if not self.was_done:
                    self.step("done")
                return
            try:
                alg.update()
            except Exception as e:
                self.r.fail("update-raises:%s" % k, "%s: %s" % (type(e).__name__, e))
                return
            self.n_updates += 1
            for nm, arr in (self.info.get("held") or {}).items():
                # "returns the solution the algorithm holds": the arrays the caller passed ARE the algorithm's state
                if getattr(alg, nm, None) is not arr:
                    self.r.fail("held-array-rebound:%s:%s" % (k, nm), "after update %d alg.%s is no longer the array the caller "
                                "passed (the caller's array is no longer updated)" % (self.n_updates, nm))
            if alg.iter != self.n_updates:
                self.r.fail("counter:%s" % k, "after %d update() calls alg.iter = %s" % (self.n_updates, alg.iter))
            if self.n_updates > mi:
                self.r.fail("exceeds-max-iter:%s" % k, "%d updates performed with max_iter = %d" % (self.n_updates, mi))

    def _check_fixed_point(self):
        """The solver claims convergence before max_iter (tol = 0): a further update must change nothing."""
        k = self.case["alg"]
        twin_case = dict(self.case)
        np.random.seed(self.case["seed"] % (2 ** 31))
        twin, tstate, _, _ = build(twin_case)
        for _ in range(self.n_updates):
            twin.update()
        s0 = _snap(tstate())
        # the twin must be where we are (determinism of the instance)
        if _rel_change(s0, self.state()) > 1e-12:
            self.r.label("twin-diverged")
            return
        try:
            twin.update()
        except Exception as e:
            self.r.fail("early-stop:extra-update-raises:%s" % k, "%s: %s" % (type(e).__name__, e))
            return
        ch = _rel_change(s0, tstate())
        self.r.notes["early_change"] = ch
        if not ch <= 1e-10:
            what = _flavour(self.case)
            self.r.fail("early-stop:not-a-fixed-point:%s%s" % (k, what),
                        "stopped after %d of %d updates with tol=0, yet one more update changes the state by %.3e (relative)"
                        % (self.n_updates, self.case["max_iter"], ch))

    def finish(self):
        self.r.label(self.case["alg"])
        if self.reached_done:
            self.r.label("reached-done")
        if self.early:
            self.r.label("early-stop:" + self.case["alg"])
        self.r.nontrivial = self.reached_done
        self.r.sig = _sig(self.case) + "|" + "".join("d" if o == "done" else "u" for o in self.case.get("ops", []))
        return self.r


def _flavour(case):
    if case["alg"] == "GradientMethod":
        return ":accelerated" if case.get("accelerate") else ":plain"
    if case["alg"] == "PDHG":
        return ":f=%s,g=%s%s" % (case.get("f", "l2"), case.get("g", ""), ",zero-steps" if case.get("zero_steps") else "")
    return ""


@st.composite
def st_instance(draw, kinds=ALG_KINDS, max_iter=st.integers(0, 12)):
    k = draw(st.sampled_from(kinds))
    c = {"alg": k, "max_iter": draw(max_iter), "seed": draw(st.integers(0, 10 ** 6)), "n": draw(st.integers(1, 4)),
         "m": draw(st.integers(1, 5)), "cplx": draw(st.booleans())}
    if k == "PowerMethod":
        c["rankdef"] = draw(st.integers(0, 2))
        c["norm_func"] = draw(st.booleans())
        c["scale"] = draw(st.sampled_from([1.0, 1.0, 2.0 ** -40, 2.0 ** 40]))
    if k == "GradientMethod":
        c.update(g=draw(st.sampled_from(["none", "l1", "l1", "box", "box"])), accelerate=draw(st.booleans()),
                 c=draw(st.sampled_from([1.0, 0.5, 0.25, 0.125])), mu=draw(st.sampled_from([0.25, 1.0, 4.0, 16.0])),
                 x0=draw(st.sampled_from(["zeros", "corner", "rand"])), yscale=draw(st.sampled_from([1.0, 2.0])))
        if c["g"] == "box":
            c["cplx"] = False
    if k == "ConjugateGradient":
        c.update(spd=draw(st.sampled_from(["pd", "pd", "semi", "indef"])), b=draw(st.sampled_from(["rand", "rand", "zero"])))
    if k == "PDHG":
        c.update(g=draw(st.sampled_from(["l1", "l1", "box", "none"])), sigma=draw(st.sampled_from([1.0, 0.1, 1e-2, 1e-3, 1e-4])),
                 tauc=draw(st.sampled_from([1.0, 0.5])), mu=draw(st.sampled_from([0.25, 1.0, 4.0])),
                 x0=draw(st.sampled_from(["zeros", "zeros", "rand"])), accel=draw(st.sampled_from([None, None, "dual"])))
        c["f"] = draw(st.sampled_from(["l2", "l2", "l1"]))
        c["nu"] = draw(st.sampled_from([0.5, 1.0, 2.0]))
        c["zero_steps"] = draw(st.sampled_from([None, None, None, None, "tau", "sigma"]))
        if c["g"] == "box" or c["f"] == "l1":
            c["cplx"] = False
        if c["f"] == "l1":
            c["accel"] = None
        if c["zero_steps"]:
            c["accel"] = None
    if k == "Newton":
        c.update(x0=draw(st.sampled_from(["zeros", "rand"])), b=draw(st.sampled_from(["rand", "zero"])),
                 f=draw(st.sampled_from(["quadratic", "quartic", "quartic"])), beta=draw(st.sampled_from([1, 1, 0.5, 0.8])))
        c["cplx"] = False
    if k in ("AltMin", "ALM", "ADMM", "SDMM"):
        c["cplx"] = False
    if k == "GerchbergSaxton":
        c["n"] = max(2, c["n"])
        c["gs_fit"] = draw(st.booleans())
        c["gs_lamb"] = draw(st.sampled_from([0.1, 0.5, 1e-3]))
    return c


def check_machine(case):
    sim = Sim(case)
    for op in case["ops"]:
        sim.step(op)
    return sim.finish()


def make_machine(col):
    from hypothesis.stateful import RuleBasedStateMachine, rule, initialize
    from vlib.runner import Found

    class StopMachine(RuleBasedStateMachine):
        def __init__(self):
            super().__init__()
            self.sim = None
            self.case = None
            self.recorded = False
            self.attempts = 0

        @initialize(c=st_instance())
        def init(self, c):
            self.case = dict(c, ops=[], part="machine", prelude=getattr(col, "prelude", None))
            self.sim = Sim(self.case)
            self._flush()

        def _flush(self):
            if self.sim.r.findings and not self.recorded:
                self.recorded = True
                new = col.record(self.case, self.sim.finish())
                if new:
                    raise Found(new[0]["key"])

        @rule()
        def done(self):
            if self.recorded:
                return
            self.case["ops"].append("done")
            self.sim.step("done")
            self._flush()

        @rule()
        def update(self):
            if self.recorded or self.attempts >= self.case["max_iter"] + 2:
                return
            self.attempts += 1
            self.case["ops"].append("update")
            self.sim.step("update")
            self._flush()

        def teardown(self):
            if self.sim is not None and not self.recorded:
                self.recorded = True
                col.record(self.case, self.sim.finish())

    return StopMachine


# ------------------------------------------------------------------ earlystop (run to completion)


@st.composite
def st_early(draw):
    c = draw(st_instance(kinds=["GradientMethod", "GradientMethod", "PDHG", "PDHG", "ConjugateGradient", "Newton",
                                "GerchbergSaxton"], max_iter=st.sampled_from([5, 20, 40, 80])))
    if c["alg"] == "GradientMethod" and draw(st.booleans()):
        # momentum runs into a box corner (DESIGN section 5 row 16): small steps, corner start, 2-3 unknowns
        c.update(g="box", accelerate=True, x0="corner", c=draw(st.sampled_from([0.25, 0.125, 0.5])), cplx=False,
                 n=draw(st.integers(2, 3)), m=draw(st.integers(2, 3)))
    if c["alg"] == "PDHG":
        fam = draw(st.integers(0, 3))
        if fam == 0:
            c.update(g="l1", x0="zeros", sigma=draw(st.sampled_from([1e-2, 1e-3, 1e-4])))
        elif fam == 1:
            # saturating data term AND saturating prox (l1-l1 / l1-box): every part of (x, u, x_ext) can stall separately
            c.update(f="l1", g=draw(st.sampled_from(["l1", "box"])), cplx=False, accel=None,
                     x0=draw(st.sampled_from(["zeros", "rand"])), sigma=draw(st.sampled_from([1.0, 0.5, 0.25, 2.0])),
                     n=draw(st.integers(1, 3)), m=draw(st.integers(1, 3)))
    return c


def check_early(case):
    sim = Sim(case)
    mi = case["max_iter"]
    guard = 0
    while guard <= mi + 2:
        guard += 1
        sim.step("done")
        if sim.was_done:
            break
        sim.step("update")
    sim.step("done")
    case = dict(case)
    r = sim.finish()
    r.sig = _sig(case)
    r.nontrivial = sim.reached_done and (sim.early or sim.n_updates == mi)
    return r


# ------------------------------------------------------------------ power method


@st.composite
def st_power(draw):
    return {"alg": "PowerMethod", "max_iter": draw(st.integers(2, 30)), "seed": draw(st.integers(0, 10 ** 6)),
            "n": draw(st.integers(1, 6)), "cplx": draw(st.booleans()), "rankdef": draw(st.integers(0, 3)),
            "norm_func": draw(st.booleans()),
            "scale": draw(st.sampled_from([1.0, 1.0, 1.0, 2.0 ** -40, 2.0 ** 40, 2.0 ** -100, 2.0 ** 100]))}


def check_power(case):
    r = R()
    warnings.simplefilter("ignore")
    alg, state, _, info = build(case)
    lam = float(np.linalg.eigvalsh(info["H"])[-1])
    est = []
    while not alg.done():
        alg.update()
        est.append(float(alg.max_eig))
    r.check(len(est) == alg.iter and len(est) <= case["max_iter"], "power:counter", "%d updates, iter %s, max_iter %d" % (len(est), alg.iter, case["max_iter"]))
    if len(est) < case["max_iter"]:
        # stopped early: allowed only if a further update leaves the vector where it is
        x_now = np.array(alg.x, copy=True)
        H = info["H"]
        y = H @ x_now
        ny = float(np.linalg.norm(y))
        x_next = y / ny if ny > 0 else y
        mv = float(np.linalg.norm(x_next - x_now)) / (1.0 + float(np.linalg.norm(x_now)))
        r.check(mv <= 1e-10, "power:early-stop:not-a-fixed-point", "stopped after %d of %d updates, yet one more power step moves the "
                "vector by %.3e (relative)" % (len(est), case["max_iter"], mv))
        r.label("power:early-stop")
    for j in range(1, len(est)):
        if j >= 2 and not est[j] >= est[j - 1] * (1 - 1e-12) - 1e-300:
            r.fail("power:not-monotone", "estimate %.17g after update %d < %.17g after update %d" % (est[j], j + 1, est[j - 1], j))
            break
    for j in range(1, len(est)):
        if not est[j] <= lam * (1 + 1e-12) + 1e-300:
            r.fail("power:exceeds-lambda-max", "estimate %.17g after update %d > lambda_max %.17g" % (est[j], j + 1, lam))
            break
    if est:
        r.check(np.isfinite(est[-1]), "power:non-finite", "estimate %s" % est[-1])
    r.label("rankdef%d" % case["rankdef"], "cplx" if case["cplx"] else "real")
    if case.get("scale", 1.0) != 1.0:
        r.label("scale:2^%d" % int(round(np.log2(case["scale"]))))
    r.nontrivial = case["n"] >= 2 and len(est) >= 3
    r.sig = _sig(case)
    return r


# ------------------------------------------------------------------ apps


APP_KINDS = ["MaxEig", "LLS:ConjugateGradient", "LLS:GradientMethod", "LLS:PrimalDualHybridGradient", "LLS:ADMM", "LLS:default",
             "L2Constrained", "SenseRecon", "EspiritCalib", "L1WaveletRecon", "TotalVariationRecon", "JsenseRecon"]


@st.composite
def st_app(draw):
    return {"app": draw(st.sampled_from(APP_KINDS)), "max_iter": draw(st.integers(0, 8)), "seed": draw(st.integers(0, 10 ** 6)),
            "n": draw(st.integers(2, 4)), "m": draw(st.integers(2, 5)), "prox": draw(st.sampled_from([None, "l1"])),
            "lamda": draw(st.sampled_from([0, 0.5])),
            # the caller's initial x for LinearLeastSquares: not given, C-contiguous, or a view of a larger buffer
            "x": draw(st.sampled_from([None, None, "c", "strided", "column"]))}


def check_app(case):
    import sigpy as sp
    import sigpy.mri
    r = R()
    warnings.simplefilter("ignore")
    np.random.seed(case["seed"] % (2 ** 31))
    k, mi, n, m, seed = case["app"], case["max_iter"], case["n"], case["m"], case["seed"]
    Am = _mat(seed, m, n, True)
    Aop = sp.linop.MatMul([n, 1], Am)
    y = _vec(seed, m, True).reshape(m, 1).astype(np.complex128)
    caller_x = None
    try:
        if k == "MaxEig":
            app = sp.app.MaxEig(Aop.N, dtype=np.complex128, max_iter=mi, show_pbar=False)
            held = lambda: app.alg.max_eig
        elif k.startswith("LLS"):
            solver = k.split(":")[1]
            kw = {}
            if solver != "default":
                kw["solver"] = solver
            proxg = sp.prox.L1Reg([n, 1], 0.5) if case["prox"] == "l1" and solver not in ("ConjugateGradient", "default") else None
            xin = None
            if case.get("x") == "c":
                xin = np.zeros((n, 1), np.complex128)
            elif case.get("x") == "strided":
                xin = np.zeros((2 * n, 1), np.complex128)[::2]
            elif case.get("x") == "column":
                xin = np.zeros((n, 3), np.complex128)[:, 1:2]
            app = sp.app.LinearLeastSquares(Aop, y, x=xin, proxg=proxg, lamda=case["lamda"], max_iter=mi, show_pbar=False, **kw)
            held = lambda: app.alg.x
            caller_x = xin
        elif k == "L2Constrained":
            app = sp.app.L2ConstrainedMinimization(Aop, y, sp.prox.L1Reg([n, 1], 1.0), 0.5, max_iter=mi, show_pbar=False)
            held = lambda: app.alg.x
        elif k == "SenseRecon":
            rng = np.random.default_rng(seed)
            mps = (rng.standard_normal((2, 4, 4)) + 1j * rng.standard_normal((2, 4, 4)))
            ksp = (rng.standard_normal((2, 4, 4)) + 1j * rng.standard_normal((2, 4, 4)))
            app = sp.mri.app.SenseRecon(ksp, mps, lamda=0.1, max_iter=mi, show_pbar=False)
            held = lambda: app.alg.x
        elif k in ("L1WaveletRecon", "TotalVariationRecon"):
            rng = np.random.default_rng(seed)
            mps = (rng.standard_normal((2, 4, 4)) + 1j * rng.standard_normal((2, 4, 4)))
            ksp = (rng.standard_normal((2, 4, 4)) + 1j * rng.standard_normal((2, 4, 4)))
            if k == "L1WaveletRecon":
                app = sp.mri.app.L1WaveletRecon(ksp, mps, 0.05, wave_name="haar", max_iter=mi, show_pbar=False)
            else:
                app = sp.mri.app.TotalVariationRecon(ksp, mps, 0.05, max_iter=mi, show_pbar=False)
            held = lambda: app.alg.x
        elif k == "JsenseRecon":
            rng = np.random.default_rng(seed)
            ksp = (rng.standard_normal((2, 8, 8)) + 1j * rng.standard_normal((2, 8, 8)))
            app = sp.mri.app.JsenseRecon(ksp, mps_ker_width=2 + n % 3, ksp_calib_width=4 + m % 3, lamda=case["lamda"],
                                         max_iter=mi, max_inner_iter=2, show_pbar=False)
            held = None
        else:
            rng = np.random.default_rng(seed)
            ksp = (rng.standard_normal((3, 8, 8)) + 1j * rng.standard_normal((3, 8, 8)))
            # a power iteration that never runs has no eigenvector to return: max_iter >= 1 is an implicit precondition
            mi = max(mi, 1)
            app = sp.mri.app.EspiritCalib(ksp, calib_width=6, kernel_width=3, max_iter=mi, show_pbar=False)
            held = None
    except Exception as e:
        r.fail("app-ctor-raises:%s" % k, "%s: %s" % (type(e).__name__, e))
        return r
    count = {"n": 0}
    orig = app.alg.update

    def counted():
        count["n"] += 1
        return orig()
    app.alg.update = counted
    try:
        out = app.run()
    except Exception as e:
        r.fail("app-run-raises:%s" % k, "%s: %s" % (type(e).__name__, e))
        return r
    r.check(count["n"] <= app.alg.max_iter, "app:exceeds-max-iter:%s" % k, "%d updates, alg.max_iter %d" % (count["n"], app.alg.max_iter))
    # ... and within the budget the CALLER asked for (an app that raises the budget on its own exceeds it)
    r.check(count["n"] <= mi, "app:exceeds-requested-max-iter:%s" % k, "%d updates for a requested max_iter of %d" % (count["n"], mi))
    r.check(app.alg.iter == count["n"], "app:counter:%s" % k, "alg.iter %s after %d updates" % (app.alg.iter, count["n"]))
    r.check(app.alg.done(), "app:returned-before-done:%s" % k)
    if held is not None:
        h = held()
        if isinstance(h, np.ndarray):
            r.check(out is h or (np.shape(out) == np.shape(h) and np.array_equal(out, h, equal_nan=True)),
                    "app:returns-other-than-held:%s" % k, "run() result differs from the array the algorithm holds")
            if caller_x is not None:
                r.label("caller-x:" + case["x"])
                r.check(np.shape(caller_x) == np.shape(h) and np.array_equal(caller_x, h, equal_nan=True),
                        "app:callers-x-is-not-the-held-solution:%s" % k,
                        "the x array passed to the app (%s layout) does not hold the solution the algorithm holds" % case["x"])
        else:
            r.check(out == h or (out != out and h != h), "app:returns-other-than-held:%s" % k, "%s vs %s" % (out, h))
    r.label(k)
    r.nontrivial = count["n"] >= 1
    r.sig = _sig(case)
    return r


PARTS = [
    Part("machine", check_machine, {"quick": 3200, "thorough": 30000}, machine=make_machine, kind="stateful", steps=30),
    Part("earlystop", check_early, {"quick": 24000, "thorough": 300000}, strategy=st_early),
    Part("power", check_power, {"quick": 3000, "thorough": 30000}, strategy=st_power),
    Part("apps", check_app, {"quick": 800, "thorough": 6000}, strategy=st_app, shrink={"quick": False, "thorough": True}),
]
