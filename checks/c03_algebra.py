"""C03 - operator algebra agrees with matrix algebra and advertised shapes; misfits are rejected.

Oracle independent of sigpy's index arithmetic: the matrix of a tree is computed
recursively from the matrices of its *leaves* by matrix algebra (products, sums,
scalar multiples, conjugation, and block matrices assembled with numpy
concatenate semantics on tensors), and compared with the materialised tree.
Reference shapes come from vlib.linops.shape_of (written from the documented
shape rules, not from sigpy).
"""
import warnings

import numpy as np
from hypothesis import strategies as st

from vlib import arrays as A
from vlib import linops as LO
from vlib.runner import Part, R

PROPERTY = "C03"
RULE = ("Hypothesis-generated operator expression trees whose root is a combinator (Compose/Add/Sub/Neg/Scale/Hstack/"
        "Vstack/Diag/Conj/.H/.H.H over non-trivial operands of different shapes, stacking axes in [-ndim,ndim) or None, "
        "real/complex scalars on both sides); oracle: dense matrix of the tree == matrix algebra over the dense leaf "
        "matrices (block matrices built with numpy concatenate on tensors), advertised oshape/ishape == reference shape "
        "rules, T(x).shape == T.oshape; operands that fit must construct and apply. Second family: shape-incompatible "
        "operand sets for Compose/Add/Hstack/Vstack/Diag must raise at construction or at the first application. "
        "non-trivial: a stack with >=2 operands of unequal extent along the axis, a negative axis, a scalar/Conj over a "
        "non-trivial operand, or a rejection case; distinct = tree signature.")
ASSUMPTIONS = [
    "leaf matrices are taken from the implementation (leaf correctness is C01/C05-C10's subject); only the algebra is under test",
    "dense spaces <= ~40 x 96 elements, depth <= 2 (+ adaptors)",
    "0-dimensional shapes excluded",
    "inputs are real or complex FLOATING arrays (vectors of R^n / C^n, as in C01's 'all x in C^ishape'); integer and boolean "
    "input arrays follow NumPy's integer arithmetic (bool addition is 'or', narrow integers wrap, several leaves truncate "
    "their float weights into an integer output) so no matrix identity holds for them on the pinned tree: tried and "
    "withdrawn as oracle over-reach (DESIGN 10.9)",
]


def tol(dt):
    return 2e-4 if dt in ("complex64", "float32") else 1e-9


class Ctx:
    def __init__(self, dt):
        self.dt = dt
        self.cache = {}

    def leaf_mat(self, sp):
        k = LO.sig(sp) + repr(sp.get("seed"))
        import json
        k = json.dumps(sp, sort_keys=True)
        if k not in self.cache:
            op = LO.build(sp)
            with warnings.catch_warnings():
                warnings.simplefilter("ignore")
                self.cache[k] = LO.mat(op, op.ishape, self.dt, real_only=True)[0]
        return self.cache[k]


def node_failures(sp, ctx):
    """Sub-claims failing for this subtree (leaf matrices trusted)."""
    out = []
    dt = ctx.dt
    try:
        ro, ri = LO.shape_of(sp)
    except Exception:
        raise
    try:
        op = LO.build(sp)
    except Exception as e:
        return ["ctor-raises:%s" % type(e).__name__]
    if list(op.oshape) != list(ro) or list(op.ishape) != list(ri):
        out.append("advertised-shape")
        return out
    try:
        with warnings.catch_warnings():
            warnings.simplefilter("ignore")
            x = A.arr({"k": "g", "shape": list(ri), "dtype": dt, "seed": 7})
            y = op(x)
            if list(np.shape(y)) != list(ro):
                out.append("output-shape")
                return out
            M = LO.mat(op, op.ishape, dt, real_only=True)[0]
    except Exception as e:
        return out + ["apply-raises:%s" % type(e.__cause__ or e).__name__]
    try:
        ref = LO.dense_ref(sp, ctx.leaf_mat)
    except Exception:
        # a leaf cannot be materialised on its own: nothing to compare against (C01 reports leaf failures)
        return out + ["leaf-unavailable"]
    if dt in ("complex64", "float32") and not (np.all(np.isfinite(ref)) and np.max(np.abs(ref), initial=0.0) < 1e30
                                               and np.all(np.isfinite(M))):
        return out + ["leaf-unavailable"]        # products of huge leaves leave the single-precision range: nothing to compare
    if ref.shape != M.shape:
        out.append("matrix-shape")
    else:
        scale = max(np.linalg.norm(ref), np.linalg.norm(M), 1e-30)
        if not np.linalg.norm(M - ref) <= tol(dt) * scale:
            # relative to the operands, not to a possibly cancelling result (e.g. Identity - NUFFT in single precision)
            scale = max(scale, LO.opscale(sp, lambda leaf: np.linalg.norm(ctx.leaf_mat(leaf))))
        if not np.linalg.norm(M - ref) <= tol(dt) * scale:
            out.append("matrix")
        else:
            # the same block matrix must act on REAL-dtype inputs (single-precision comparison: fft computes real
            # input in complex64; an operator rejecting real input is skipped)
            try:
                with warnings.catch_warnings():
                    warnings.simplefilter("ignore")
                    Mr = LO.mat_real(op, op.ishape, dt)
                if Mr is not None:
                    rs = max(scale, LO.opscale(sp, lambda leaf: np.linalg.norm(ctx.leaf_mat(leaf))))
                    if Mr.shape != ref.shape or not np.linalg.norm(Mr - ref) <= 2e-4 * rs:
                        out.append("matrix:real-input")
            except Exception as e:
                out.append("apply-raises:real-input:%s" % type(e.__cause__ or e).__name__)
    return out


def _detail(small):
    if small["op"] in ("Hstack", "Vstack", "Diag"):
        ax = [small.get("axis"), small.get("oaxis"), small.get("iaxis")]
        d = ""
        if any(a is not None and a < 0 for a in ax):
            d += ":negative-axis"
        if small["op"] == "Diag" and (small["oaxis"] is None) != (small["iaxis"] is None):
            d += ":mixed-none"
        elif all(a is None for a in ax[:1]) and small["op"] != "Diag":
            d += ":axis-none"
        return d
    if small["op"] == "Scale":
        return ":" + small["side"]
    return ""


def check_algebra(case):
    LO.set_container(case.get("ct"))
    r = R()
    sp, dt = case["tree"], case["dtype"]
    ctx = Ctx(dt)
    fails = [f for f in node_failures(sp, ctx) if f != "leaf-unavailable"]
    cl = LO.classes(sp)
    for c in cl:
        if c in LO.COMBINATORS:
            r.label(c)
    if fails:
        small = LO.localize(sp, lambda c: c["op"] in LO.COMBINATORS and bool(
            [f for f in node_failures(c, ctx) if f != "leaf-unavailable"]))
        sf = [f for f in node_failures(small, ctx) if f != "leaf-unavailable"] or fails
        for f in sf:
            r.fail("%s:%s%s" % (f, small["op"], _detail(small)), "smallest failing subtree: %s" % LO.sig(small)[:1500])
    # non-triviality
    nt = False

    def walk(n):
        nonlocal nt
        if n["op"] in ("Hstack", "Vstack", "Diag"):
            axes = [n.get("axis"), n.get("oaxis"), n.get("iaxis")]
            if any(a is not None and a < 0 for a in axes):
                nt = True
                r.label("negative-axis")
            if any(a is None for a in ([n["axis"]] if n["op"] != "Diag" else [n["oaxis"], n["iaxis"]])):
                r.label("axis-none")
            shs = [LO.shape_of(o) for o in n["ops"]]
            for which, ax in ((1, n.get("axis") if n["op"] == "Hstack" else n.get("iaxis")),
                              (0, n.get("axis") if n["op"] == "Vstack" else n.get("oaxis"))):
                if n["op"] == "Hstack" and which == 0 or n["op"] == "Vstack" and which == 1:
                    continue
                if ax is None:
                    ext = {A.prod(s[which]) for s in shs}
                else:
                    ext = {s[which][ax % len(s[which])] for s in shs}
                if len(ext) > 1:
                    nt = True
                    r.label("unequal-extents")
        if n["op"] in ("Scale", "Conj", "Neg", "Sub", "Add", "Compose", "H", "HH"):
            if any(c["op"] not in ("Identity", "Reshape") for c in LO.children(n)):
                nt = True
        for c in LO.children(n):
            walk(c)
    walk(sp)
    r.nontrivial = nt
    r.sig = LO.sig(sp)
    return r


@st.composite
def st_algebra(draw):
    for _ in range(6):
        c = draw(LO.st_tree(max_depth=2, first_round_robin=False))
        if c["tree"]["op"] in LO.COMBINATORS:
            return c
    dt = c["dtype"]
    return {"tree": {"op": "Scale", "a": c["tree"], "s": LO.st_scalar(draw, False), "side": "r"}, "dtype": dt}


# ------------------------------------------------------------------ larger spaces: vector-level reference


def big_failures(sp, dt, pseed):
    try:
        ro, ri = LO.shape_of(sp)
        op = LO.build(sp)
    except Exception:
        return ["unbuildable"]
    if list(op.oshape) != list(ro) or list(op.ishape) != list(ri):
        return ["advertised-shape"]
    rng = np.random.default_rng(pseed)
    out = []
    try:
        with warnings.catch_warnings():
            warnings.simplefilter("ignore")
            for which in ("fwd", "adj"):
                T = op if which == "fwd" else op.H
                shp = ri if which == "fwd" else ro
                for _ in range(2):
                    x = (rng.standard_normal(shp) + 1j * rng.standard_normal(shp)).astype(dt)
                    try:
                        ref = np.asarray(LO.apply_ref(sp, x, adjoint=(which == "adj")))
                    except Exception:
                        return out + ["leaf-unavailable"]
                    y = np.asarray(T(x))
                    if y.shape != tuple(ro if which == "fwd" else ri):
                        out.append("output-shape" + ("" if which == "fwd" else ":adjoint"))
                        return out
                    sc = max(np.linalg.norm(ref.astype(np.complex128).ravel()), np.linalg.norm(y.astype(np.complex128).ravel()), 1e-30)
                    err = np.linalg.norm((y - ref).astype(np.complex128).ravel())
                    if not err <= 10 * tol(dt) * sc:
                        # relative to the operands (leaf outputs), not to a possibly cancelling sum
                        sc = max(sc, LO.tree_opscale_est(sp, dt, pseed) * np.linalg.norm(x.astype(np.complex128).ravel()))
                    if not err <= 10 * tol(dt) * sc:
                        out.append("values" + ("" if which == "fwd" else ":adjoint"))
                        return out
    except Exception as e:
        out.append("apply-raises:%s" % type(e.__cause__ or e).__name__)
    return out


def check_big(case):
    LO.set_container(case.get("ct"))
    r = R()
    sp, dt = case["tree"], case["dtype"]
    IG = ("unbuildable", "leaf-unavailable")
    fails = [f for f in big_failures(sp, dt, case["pseed"]) if f not in IG]
    for c in LO.classes(sp):
        if c in LO.COMBINATORS:
            r.label(c)
    if fails:
        small = LO.localize(sp, lambda c: c["op"] in LO.COMBINATORS and bool(
            [f for f in big_failures(c, dt, case["pseed"]) if f not in IG]))
        sf = [f for f in big_failures(small, dt, case["pseed"]) if f not in IG] or fails
        for f in sf:
            r.fail("%s:%s%s:large" % (f, small["op"], _detail(small)), "smallest failing subtree: %s" % LO.sig(small)[:1500])
    o, i = LO.shape_of(sp)
    r.label("in>%d" % (100 if A.prod(i) > 100 else 40 if A.prod(i) > 40 else 0))
    r.nontrivial = A.prod(i) > 40 and any(c in ("Hstack", "Vstack", "Diag", "Add", "Sub", "Compose") for c in LO.classes(sp))
    r.sig = LO.sig(sp)
    return r


@st.composite
def st_big(draw):
    for _ in range(6):
        c = draw(LO.st_big_tree(max_depth=2, max_in=400, max_out=1200, dim_hi=12))
        if c["tree"]["op"] in LO.COMBINATORS:
            return c
    return c


# ------------------------------------------------------------------ rejection of misfits

SIMPLE = ["Identity", "Multiply", "FFT", "Flip", "Circshift", "Resize", "Transpose", "Slice", "Downsample"]


def _simple(draw, s, o, dt):
    """an operator s -> o from simple leaves"""
    t = LO.leaf_for(draw, s, dt, only=[n for n in SIMPLE if LO.LEAF_GENS[n][1](s)])
    return LO.fit(draw, t, o)


def _other_extent(draw, n):
    """an extent different from n: larger, smaller, or exactly 1 (the value NumPy would silently broadcast)"""
    opts = [n + 1, n + 2] + ([1] if n > 1 else []) + ([n - 1] if n > 2 else [])
    return draw(st.sampled_from(opts))


def _perturb(draw, shape):
    """a shape different from `shape` (same ndim, one extent changed; or different ndim)"""
    kind = draw(st.integers(0, 3))
    s = list(shape)
    if kind == 0 and len(s) < 3:
        return s + [draw(st.integers(1, 2))] if draw(st.booleans()) else [draw(st.integers(1, 2))] + s
    if kind == 1 and len(s) > 1:
        return s[:-1] if A.prod(s[:-1]) != A.prod(s) or True else s
    i = draw(st.integers(0, len(s) - 1))
    s[i] = s[i] + draw(st.integers(1, 2))
    return s


@st.composite
def st_reject(draw):
    dt = "complex128"
    kind = draw(st.sampled_from(["Compose", "Add-i", "Add-o", "Hstack-o", "Hstack-off", "Hstack-ndim", "Hstack-none",
                                 "Vstack-i", "Vstack-off", "Vstack-ndim", "Vstack-none", "Diag-ioff", "Diag-ooff"]))
    nd = draw(st.integers(1, 3))
    s = LO.st_shape(draw, nd, nd, 16)
    o = LO.st_shape(draw, nd, nd, 16)
    if kind == "Compose":
        a = _simple(draw, s, o, dt)
        mid = _perturb(draw, o)
        b = _simple(draw, mid, LO.st_shape(draw, 1, 2, 12), dt)
        sp = {"op": "Compose", "ops": [b, a]}
    elif kind in ("Add-i", "Add-o"):
        a = _simple(draw, s, o, dt)
        if kind == "Add-i":
            b = _simple(draw, _perturb(draw, s), o, dt)
        else:
            b = _simple(draw, s, _perturb(draw, o), dt)
        sp = {"op": draw(st.sampled_from(["Add", "Sub"])), "a": a, "b": b}
    elif kind.startswith("Hstack"):
        axis = draw(st.integers(-nd, nd - 1))
        s2 = list(s)
        s2[axis % nd] = draw(st.integers(1, 3))
        o2 = list(o)
        if kind == "Hstack-o":
            o2 = _perturb(draw, o)
        elif kind == "Hstack-off":
            if nd == 1:
                o2 = _perturb(draw, o)
            else:
                off = draw(st.sampled_from([d for d in range(nd) if d != axis % nd]))
                s2[off] = _other_extent(draw, s2[off])
        elif kind == "Hstack-ndim":
            s2 = s2 + [1] if draw(st.booleans()) else [1] + s2
        else:
            axis = None
            o2 = _perturb(draw, o)
        sp = {"op": "Hstack", "ops": [_simple(draw, s, o, dt), _simple(draw, s2, o2, dt)], "axis": axis}
    elif kind.startswith("Vstack"):
        axis = draw(st.integers(-nd, nd - 1))
        o2 = list(o)
        o2[axis % nd] = draw(st.integers(1, 3))
        s2 = list(s)
        if kind == "Vstack-i":
            s2 = _perturb(draw, s)
        elif kind == "Vstack-off":
            if nd == 1:
                s2 = _perturb(draw, s)
            else:
                off = draw(st.sampled_from([d for d in range(nd) if d != axis % nd]))
                o2[off] = _other_extent(draw, o2[off])
        elif kind == "Vstack-ndim":
            o2 = o2 + [1] if draw(st.booleans()) else [1] + o2
        else:
            axis = None
            s2 = _perturb(draw, s)
        sp = {"op": "Vstack", "ops": [_simple(draw, s, o, dt), _simple(draw, s2, o2, dt)], "axis": axis}
    else:
        if nd == 1:
            nd = 2
            s = s + [draw(st.integers(1, 3))]
            o = o + [draw(st.integers(1, 3))]
        iaxis = draw(st.integers(-nd, nd - 1))
        oaxis = draw(st.integers(-nd, nd - 1))
        s2, o2 = list(s), list(o)
        s2[iaxis % nd] = draw(st.integers(1, 3))
        o2[oaxis % nd] = draw(st.integers(1, 3))
        if kind == "Diag-ioff":
            off = draw(st.sampled_from([d for d in range(nd) if d != iaxis % nd]))
            s2[off] = _other_extent(draw, s2[off])
        else:
            off = draw(st.sampled_from([d for d in range(nd) if d != oaxis % nd]))
            o2[off] = _other_extent(draw, o2[off])
        sp = {"op": "Diag", "ops": [_simple(draw, s, o, dt), _simple(draw, s2, o2, dt)], "oaxis": oaxis, "iaxis": iaxis}
    if sp["op"] in ("Hstack", "Vstack", "Diag", "Add") and "ops" in sp and draw(st.booleans()):
        sp["ops"] = sp["ops"][::-1]          # the operand that does not fit may come first or second
    return {"tree": sp, "dtype": dt, "kind": kind}


def check_reject(case):
    r = R()
    sp, dt, kind = case["tree"], case["dtype"], case["kind"]
    r.label(kind)
    r.nontrivial = True
    r.sig = kind + "|" + LO.sig(sp)
    # operands themselves must be fine
    try:
        for c in LO.children(sp):
            LO.build(c)
    except Exception as e:
        raise AssertionError("harness: operand of a rejection case does not build: %s" % e)
    try:
        op = LO.build(sp)
    except Exception:
        r.label("rejected-at-construction")
        return r
    # constructed: the first application to an input of the advertised shape must raise
    try:
        x = A.arr({"k": "g", "shape": list(op.ishape), "dtype": dt, "seed": 3})
        with warnings.catch_warnings():
            warnings.simplefilter("ignore")
            y = op(x)
    except Exception:
        r.label("rejected-at-application")
        return r
    r.fail("misfit-accepted:%s" % kind, "operands %s were combined and applied, output shape %s; tree %s"
           % ([LO.shape_of(c) for c in LO.children(sp)], np.shape(y), LO.sig(sp)[:800]))
    return r


PARTS = [
    Part("algebra", check_algebra, {"quick": 4800, "thorough": 60000}, strategy=st_algebra),
    Part("deep", check_algebra, {"quick": 600, "thorough": 12000},
         strategy=lambda: LO.st_tree(max_depth=3, max_in=24, first_round_robin=False)),
    Part("big", check_big, {"quick": 1400, "thorough": 16000}, strategy=st_big),
    Part("reject", check_reject, {"quick": 3200, "thorough": 30000}, strategy=st_reject),
]

# thorough tier: the same Hypothesis tests driven by atheris/libFuzzer (coverage on sigpy.linop/util plain-Python code)
FUZZ = {"parts": ["algebra", "reject"], "runs": 48000}
