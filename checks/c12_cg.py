"""C12 - sigpy.alg.ConjugateGradient produces the Krylov-optimal iterate at every step.

Two parts:

``krylov``     Hermitian positive-definite systems.  The check drives
               ``while not alg.done(): alg.update()`` itself and, after EVERY update,
               compares the caller's array with the A-norm-optimal point of
               ``x0 + K_k(PA, P r0)`` (A-orthonormal Arnoldi, classical Gram-Schmidt twice,
               certified by ||V^H A V - I|| <= 1e-10).
``breakdown``  Hermitian indefinite / singular semidefinite / zero systems: on non-positive
               curvature the solver sets ``not_positive_definite``, leaves x alone and stops.

The tolerance of the optimality claim is NOT a constant (DESIGN.md section 4, C12):
finite-precision CG leaves the exact Krylov iterate like 1e-15 * kappa^(k-1), exactly as a
textbook float64 CG does, hence tau_k = 1e-13 * max(1, cond(P)/100) * (2 kappa_eff)^(k-1), asserted while
<= 1e-3 (the cond(P) factor accounts for the rounding of z = P r, see ASSUMPTIONS).
"""
import math

import numpy as np
from hypothesis import strategies as st

from vlib import arrays as A
from vlib.runner import Part, R

PROPERTY = "C12"
RULE = ("Hypothesis draws an explicit JSON case: n in 1..12, real-symmetric or complex-Hermitian PD "
        "A = Q diag(ev) Q^H (seeded Haar Q; spectra uniform / log-uniform / clustered with m<=4 distinct values / "
        "one outlier, kappa <= 1e3) or, for n<=4, the explicit dyadic matrix B B^H/den^2 + shift*I; b and x0 as array "
        "specs (x0 zero or random); preconditioner none / Jacobi / Hermitianised (A+E)^-1 / random HPD kappa<=10; A and P "
        "handed over as sigpy.linop.MatMul on [n,1] columns or as plain functions on [n] or [n,1]; max_iter in "
        "{0,1,k,n,n+3}; tol in {0, small}. The check runs the documented loop and after every update evaluates: "
        "(a) ||x_k - x_k*||_A <= tau_k ||x0 - x*||_A against the certified Arnoldi reference, tau_k = 1e-13 max(1,cond(P)/100) (2 kappa_eff)^(k-1) "
        "while tau_k <= 1e-3 and the delayed bound ||e_k||_A <= 1.01 ||e*_ceil(k/2)||_A beyond; (b) A-norm error non-increasing; "
        "(c) tracked r and resid equal b - A x_k except on the last permitted update; (d) error <= tau_m ||e0|| after m = "
        "#distinct eigenvalues of PA updates; (e) alg.x is the caller's array and that array holds the iterate; (f) the "
        "breakdown flag stays clear on PD input / is set, with x untouched and done() true, on non-positive curvature; "
        "alg.iter counts updates and never exceeds max_iter. non-trivial: n>=3, >=2 prefixes compared with the reference, "
        "and (complex or preconditioned or clustered). distinct = distinct (matrix spec, preconditioner, calling form, "
        "max_iter, tol, x0 kind).")
ASSUMPTIONS = [
    "CPU numpy backend; float64 / complex128 only (the measured drift law 1e-15*kappa^(k-1) is a double-precision statement)",
    "x has the dtype of the system (complex when A, b or x0 is complex): CG updates x in place and cannot widen the caller's array",
    "b, x and the operator act on shape [n] (functions) or [n,1] (functions and MatMul; MatMul needs >= 2 dims)",
    "P is Hermitian positive definite (Jacobi, Hermitianised inverse of a PD perturbation of A, or random HPD with kappa <= 10)",
    "final-step exemption: ConjugateGradient._update skips the refresh of r / rzold / resid / p when iter == max_iter-1 "
    "(alg.py:270), so on the last permitted update alg.r and alg.resid are those of the previous iterate; sub-claim (c) is "
    "asserted only for updates with index < max_iter-1 (cases with max_iter = n+3 cover every prefix up to n+2)",
    "(c) uses the operand scale ||b|| + ||A|| max_j ||x_j|| instead of ||b|| alone: with b = 0 and x0 != 0 the rounding of "
    "A x is not bounded by any multiple of ||b||",
    "tau_k = 1e-13*max(1, cond(P)/100)*(2*kappa_eff)^(k-1) with kappa_eff = cond(P^1/2 A P^1/2); (a) and (d) are asserted only "
    "while tau_k <= 1e-3; an absolute floor 1e-14*(||b||+||A|| ||x0||)/sqrt(lambda_min) (backward error of forming r0) is added "
    "to every A-norm bound. The factor max(1, cond(P)/100) is this module's refinement of DESIGN.md's 1e-13: evaluating z = P r in "
    "floating point carries a relative error eps*cond(P), which for P = (A+E)^-1 is eps*cond(A) ~ 1e-13 already at k = 1 whatever "
    "kappa_eff is (measured: deviation/1e-13 up to 0.65 at k=1 for cond(P) >= 1e3, <= 0.12 for every other preconditioner class); "
    "for cond(P) <= 100 (no preconditioner, random HPD, most Jacobi) tau_k is exactly DESIGN.md's",
    "the reference certifies A-orthonormality of its basis (<=1e-10); that the basis spans the exact Krylov space is not "
    "certifiable in floating point and is what tau_k accounts for; a failed certificate skips (a) for that prefix (label cert-skip)",
    "x* is a Cholesky solve refined three times with extended-precision residuals (certificate 1e-13 relative residual)",
    "breakdown part: the flag is demanded only where the harness' own curvature Re(p^H A p) is <= -1e-10 ||A|| ||p||^2 or is "
    "exactly zero in exact integer arithmetic; it is forbidden only where curvature >= +1e-10 ||A|| ||p||^2; in between "
    "(rounding-level curvature of singular systems) either outcome is accepted and only finiteness, iter <= max_iter and the "
    "array identity are claimed; once an update has been taken on such rounding-level curvature (the step is ~1/rounding and the "
    "recurrences amplify it: measured x -> inf/nan within ~10 further updates on inconsistent singular systems, e.g. A=diag(4,0), "
    "b=(1,1)) no finiteness or flag claim is made for the later updates of that case - the solver's guard is the exact test "
    "pAp <= 0 and the property only speaks about non-positive curvature; iter <= max_iter and termination are still claimed",
    "alg.p is read (never written) before each update to evaluate the curvature the solver is about to see",
    "part 'termination' (n in 11..16, kappa <= 10): 'reached within n updates' is asserted as ||e_n||_A <= 1e-6 ||e_0||_A, a CALIBRATED constant (pinned tree and textbook float64 CG: <= 4e-12 on 3000 systems)",
]

KAPPAS = [1.5, 3.0, 10.0, 30.0, 100.0, 300.0, 1000.0]
TOLS = [0, 0, 0, 1e-12, 1e-8, 1e-4, 1e-2]
TAU0 = 1e-13
TAU_MAX = 1e-3
FLOOR = 1e-14
CERT = 1e-10


# ------------------------------------------------------------------ matrices from specs


def _haar(rng, n, cplx):
    g = rng.standard_normal((n, n))
    if cplx:
        g = g + 1j * rng.standard_normal((n, n))
    q, rr = np.linalg.qr(g)
    d = np.diag(rr)
    return q * (d / np.abs(d))


def _herm(m):
    return (m + m.conj().T) / 2


def spectrum(spec, n, rng):
    kind, kap = spec["spectrum"], float(spec.get("kappa", 1.0))
    if n == 1 and kind in ("uniform", "log", "cluster", "outlier"):
        ev = np.array([1.0])
    elif kind == "uniform":
        ev = np.sort(rng.uniform(1.0, kap, n))
        ev[0], ev[-1] = 1.0, kap
    elif kind == "log":
        ev = np.sort(np.exp(rng.uniform(0.0, math.log(kap), n)))
        ev[0], ev[-1] = 1.0, kap
    elif kind == "cluster":
        m = max(1, min(int(spec["m"]), n))
        vals = np.sort(np.exp(rng.uniform(0.0, math.log(kap), m)))
        vals[0] = 1.0
        if m > 1:
            vals[-1] = kap
        idx = np.concatenate([np.arange(m), rng.integers(0, m, n - m)])
        ev = np.sort(vals[idx])
    elif kind == "outlier":
        ev = np.sort(rng.uniform(1.0, 2.0, n))
        ev[0], ev[-1] = 1.0, max(kap, 2.0)
    elif kind == "indef":            # mixed signs, |ev| in [1, kappa]
        mag = np.exp(rng.uniform(0.0, math.log(kap), n))
        sgn = np.where(rng.random(n) < 0.5, -1.0, 1.0)
        sgn[0], sgn[-1] = 1.0, -1.0
        ev = mag * sgn
    elif kind == "semidef":          # rank-deficient PSD
        ev = np.exp(rng.uniform(0.0, math.log(kap), n))
        nz = max(1, min(int(spec["m"]), n - 1))
        ev[:nz] = 0.0
    elif kind == "negdef":
        ev = -np.exp(rng.uniform(0.0, math.log(kap), n))
    else:
        raise ValueError(kind)
    return ev * float(spec.get("scale", 1.0))


def build_matrix(spec, n, cplx):
    """Hermitian matrix (float64 or complex128) from a JSON spec."""
    k = spec["kind"]
    if k == "eig":
        rng = np.random.default_rng(spec["seed"])
        q = _haar(rng, n, cplx)
        ev = spectrum(spec, n, rng)
        m = _herm((q * ev) @ q.conj().T)
    elif k == "bbh":                 # B B^H / den^2 + shift * I, explicit and readable (n <= 4)
        b = np.array(spec["re"], dtype=np.float64).reshape(n, -1)
        if cplx and spec.get("im") is not None:
            b = b + 1j * np.array(spec["im"], dtype=np.float64).reshape(n, -1)
        den = float(spec.get("den", 1))
        m = (b @ b.conj().T) / den ** 2 + float(spec["shift"]) * np.eye(n)
        m = m * float(spec.get("sign", 1))
    elif k == "identity":            # A = I handed over as an operator that RETURNS ITS ARGUMENT (Identity / lambda v: v)
        m = np.eye(n) + (0j if cplx else 0.0)
    elif k == "herm":                # (M + M^H) / den with integer M: generic indefinite, explicit
        b = np.array(spec["re"], dtype=np.float64).reshape(n, n)
        if cplx and spec.get("im") is not None:
            b = b + 1j * np.array(spec["im"], dtype=np.float64).reshape(n, n)
        m = (b + b.conj().T) / float(spec.get("den", 1))
    else:
        raise ValueError(k)
    if not cplx:
        m = np.ascontiguousarray(np.real(m))
    return m


def build_precond(spec, Am, cplx):
    k = spec["kind"]
    n = Am.shape[0]
    if k == "none":
        return None
    if k == "jacobi":
        return np.diag(1.0 / np.real(np.diag(Am))).astype(Am.dtype)
    if k == "identity":
        return np.eye(n, dtype=Am.dtype)
    rng = np.random.default_rng(spec["seed"])
    if k == "approxinv":             # (A + E)^-1 Hermitianised, ||E||_2 = rho * lambda_min(A)
        e = rng.standard_normal((n, n))
        if cplx:
            e = e + 1j * rng.standard_normal((n, n))
        e = _herm(e)
        lmin = np.linalg.eigvalsh(Am)[0]
        e = e * (float(spec["rho"]) * lmin / max(np.linalg.norm(e, 2), 1e-300))
        p = _herm(np.linalg.inv(Am + e))
        return p if cplx else np.ascontiguousarray(np.real(p))
    if k == "hpd":
        q = _haar(rng, n, cplx)
        kap = float(spec["kappa"])
        ev = np.exp(rng.uniform(0.0, math.log(kap), n)) * float(spec.get("scale", 1.0))
        p = _herm((q * ev) @ q.conj().T)
        return p if cplx else np.ascontiguousarray(np.real(p))
    raise ValueError(k)


# ------------------------------------------------------------------ reference computations


def _anorm(Am, v):
    return math.sqrt(max(float(np.real(np.vdot(v, Am @ v))), 0.0))


def solve_refined(Am, b):
    """x* with extended-precision iterative refinement; returns (x, relative residual certificate)."""
    ld = np.clongdouble if (np.iscomplexobj(Am) or np.iscomplexobj(b)) else np.longdouble
    AL, bL = Am.astype(ld), b.astype(ld)
    x = np.linalg.solve(Am, b)
    for _ in range(3):
        res = (bL - AL @ x.astype(ld)).astype(b.dtype)
        x = x + np.linalg.solve(Am, res)
    res = bL - AL @ x.astype(ld)
    den = np.linalg.norm(b) + np.linalg.norm(Am, 2) * np.linalg.norm(x)
    return x, float(np.linalg.norm(res.astype(b.dtype))) / max(den, 1e-300)


def krylov_reference(Am, Pm, r0, x0, kmax):
    """X[k], k = 0..kmax: argmin ||x - x*||_A over x0 + K_k(PA, P r0); certs[k] = max |V_k^H A V_k - I|.

    A-orthonormal Arnoldi, classical Gram-Schmidt applied twice. Coefficients: <u_j, A e0> = <u_j, r0>.
    """
    n = Am.shape[0]
    dt = np.result_type(Am.dtype, r0.dtype, x0.dtype, Pm.dtype if Pm is not None else np.float64)
    V = np.zeros((n, 0), dt)
    AV = np.zeros((n, 0), dt)
    X = [x0.astype(dt).copy()]
    certs = [0.0]
    x = X[0].copy()
    v = (Pm @ r0 if Pm is not None else r0).astype(dt)
    grade = None
    for j in range(kmax):
        if grade is None:
            w = _anorm(Am, v)
            if not (w > 0.0) or not np.isfinite(w):
                grade = j
            else:
                v = v / w
                for _ in range(2):
                    v = v - V @ (AV.conj().T @ v)
                nv = _anorm(Am, v)
                if nv <= 1e-12:
                    grade = j           # Krylov space exhausted (invariant subspace up to rounding)
                else:
                    u = v / nv
                    Au = Am @ u
                    V = np.concatenate([V, u[:, None]], axis=1)
                    AV = np.concatenate([AV, Au[:, None]], axis=1)
                    x = x + u * np.vdot(u, r0)
                    v = Pm @ Au if Pm is not None else Au.copy()
        X.append(x.copy())
        G = V.conj().T @ AV
        certs.append(float(np.max(np.abs(G - np.eye(G.shape[0])))) if G.size else 0.0)
    return X, certs, (grade if grade is not None else kmax)


def effective_spectrum(Am, Pm):
    """Eigenvalues of P^1/2 A P^1/2 (those of PA)."""
    if Pm is None:
        return np.linalg.eigvalsh(Am)
    L = np.linalg.cholesky(_herm(Pm))
    return np.linalg.eigvalsh(_herm(L.conj().T @ Am @ L))


def n_distinct(ev):
    ev = np.sort(np.asarray(ev, dtype=np.float64))
    thr = 5e-14 * max(abs(ev[-1]), abs(ev[0]))
    return 1 + int(np.sum(np.diff(ev) > thr))


# ------------------------------------------------------------------ plumbing


def _sys_dtype(case):
    return "complex128" if (case["cplx"] or case.get("rhs_cplx")) else "float64"


def _vec(spec, n, dtype):
    if spec is None:
        return np.zeros(n, dtype)
    s = dict(spec)
    s["shape"] = [n]
    s["dtype"] = dtype
    return A.arr(s)


def _wrap(mat, form, col, n):
    import sigpy as sp
    if mat is None:
        return None
    if form == "linop":
        return sp.linop.MatMul([n, 1], mat)
    if form == "alias":
        return lambda v: v
    if form == "Identity":
        return sp.linop.Identity([n, 1] if col else [n])
    if form == "copy":
        return lambda v: v.copy()
    return lambda v: mat @ v


def _ratio_label(q):
    for b in (1e-3, 1e-2, 1e-1, 0.5, 1.0):
        if q <= b:
            return "ratio<=%g" % b
    return "ratio>1"


# ------------------------------------------------------------------ part 1: PD systems


@st.composite
def st_matrix_pd(draw, n):
    if draw(st.sampled_from([False] * 11 + [True])):
        return {"kind": "identity", "form": draw(st.sampled_from(["alias", "Identity"]))}
    if n <= 4 and draw(st.integers(0, 3)) == 0:
        cols = draw(st.integers(1, n))
        ints = st.lists(st.integers(-4, 4), min_size=n * cols, max_size=n * cols)
        return {"kind": "bbh", "re": draw(ints), "im": draw(ints), "den": 2,
                "shift": draw(st.sampled_from([0.25, 0.5, 1.0, 2.0]))}
    kind = draw(st.sampled_from(["uniform", "log", "cluster", "cluster", "outlier"]))
    spec = {"kind": "eig", "spectrum": kind, "kappa": draw(st.sampled_from(KAPPAS)),
            "scale": draw(st.sampled_from([1.0, 1.0, 0.01, 100.0])), "seed": draw(A.seeds)}
    if kind == "cluster":
        spec["m"] = draw(st.integers(1, 4))
    return spec


@st.composite
def st_precond(draw, allow_jacobi=True):
    kinds = ["none", "none", "approxinv", "hpd", "identity"] + (["jacobi"] if allow_jacobi else [])
    k = draw(st.sampled_from(kinds))
    if k == "identity":
        # the identity preconditioner in the forms users write it: returning its ARGUMENT (lambda r: r), sigpy's
        # Identity operator (also returns its input), or a fresh copy
        return {"kind": k, "form": draw(st.sampled_from(["alias", "alias", "Identity", "copy"]))}
    if k == "approxinv":
        return {"kind": k, "rho": draw(st.sampled_from([0.01, 0.1, 0.5, 0.9])), "seed": draw(A.seeds)}
    if k == "hpd":
        return {"kind": k, "kappa": draw(st.sampled_from([1.5, 3.0, 10.0])),
                "scale": draw(st.sampled_from([1.0, 0.1, 10.0])), "seed": draw(A.seeds)}
    return {"kind": k}


@st.composite
def st_forms(draw):
    aform = draw(st.sampled_from(["linop", "func"]))
    pform = draw(st.sampled_from(["linop", "func"]))
    col = True if "linop" in (aform, pform) else draw(st.booleans())
    return aform, pform, col


def _max_iter(draw, n):
    which = draw(st.sampled_from(["n+3", "n+3", "n+3", "n+3", "n", "n", "k", "k", "1", "0"]))
    if which == "k":
        return draw(st.integers(1, max(1, n)))
    return {"n+3": n + 3, "n": n, "1": 1, "0": 0}[which]


@st.composite
def st_case(draw):
    n = draw(st.integers(1, 12))
    cplx = draw(st.booleans())
    rhs_cplx = cplx or draw(st.integers(0, 5)) == 0
    dt = "complex128" if rhs_cplx else "float64"
    aform, pform, col = draw(st_forms())
    return {"n": n, "cplx": cplx, "rhs_cplx": rhs_cplx,
            "A": draw(st_matrix_pd(n)),
            "b": draw(A.arrays([n], dt, small_explicit=6)),
            "x0": None if draw(st.integers(0, 2)) == 0 else draw(A.arrays([n], dt, small_explicit=6)),
            "P": draw(st_precond()),
            "Aform": aform, "Pform": pform, "col": col,
            "max_iter": _max_iter(draw, n), "tol": draw(st.sampled_from(TOLS)),
            # memory layout of the caller's x (and b): C-contiguous, every other element of a larger buffer, a
            # column of a 2-D array (only for shape [n,1]), a reversed view
            "xlayout": draw(st.sampled_from(["c", "c", "c", "strided", "column", "reversed"])),
            "positional": draw(st.sampled_from([False, False, True]))}


def _in_layout(v, layout):
    """An array with v's shape, dtype and values held in the requested memory layout (a view of a larger buffer)."""
    if layout == "strided":
        big = np.zeros((2 * v.shape[0],) + v.shape[1:], dtype=v.dtype)
        big[::2] = v
        return big[::2]
    if layout == "column" and v.ndim == 2:
        big = np.zeros((v.shape[0], 3), dtype=v.dtype)
        big[:, 1:2] = v
        return big[:, 1:2]
    if layout == "reversed":
        big = np.ascontiguousarray(v[::-1])
        return big[::-1]
    return v


def check_case(case):
    import sigpy as sp
    r = R()
    n, cplx = case["n"], case["cplx"]
    dt = _sys_dtype(case)
    Am = build_matrix(case["A"], n, cplx)
    Pm = build_precond(case["P"], Am, cplx)
    b = _vec(case["b"], n, dt)
    x0 = _vec(case["x0"], n, dt)
    max_iter, tol = int(case["max_iter"]), case["tol"]

    evA = np.linalg.eigvalsh(Am)
    if not evA[0] > 0:
        raise RuntimeError("generator produced a non-PD matrix")
    normA, lminA = float(evA[-1]), float(evA[0])
    evM = effective_spectrum(Am, Pm)
    if not evM[0] > 0:
        raise RuntimeError("generator produced a non-PD preconditioner")
    kap_eff = float(evM[-1] / evM[0])
    m_eff = n_distinct(evM)
    normP = float(np.linalg.norm(Pm, 2)) if Pm is not None else 1.0

    xs, cert_x = solve_refined(Am, b)
    if cert_x > 1e-13:
        raise RuntimeError("reference solution failed its residual certificate: %g" % cert_x)
    r0 = b - Am @ x0
    kmax = max(max_iter, 1)
    X, certs, grade = krylov_reference(Am, Pm, r0, x0, kmax)
    e0 = _anorm(Am, x0 - xs)
    floor = FLOOR * (float(np.linalg.norm(b)) + normA * float(np.linalg.norm(x0))) / math.sqrt(lminA)
    eopt = [_anorm(Am, xk - xs) for xk in X]

    kap_P = float(np.linalg.cond(Pm)) if Pm is not None else 1.0
    tau_base = TAU0 * max(1.0, kap_P / 100.0)

    def tau(k):
        ex = (k - 1) * math.log10(2.0 * kap_eff) + math.log10(tau_base)
        return 10.0 ** min(ex, 300.0)

    # ---- the solver, exactly as a caller would use it
    shape = [n, 1] if case["col"] else [n]
    x = _in_layout(x0.reshape(shape).copy(), case.get("xlayout", "c"))
    b_in = _in_layout(b.reshape(shape).copy(), case.get("xlayout", "c"))
    if case.get("xlayout", "c") != "c":
        r.label("x-layout:" + case["xlayout"])
    Aop = _wrap(Am, case["A"].get("form") or case["Aform"], case["col"], n)
    if case["A"].get("form"):
        r.label("A-identity:" + case["A"]["form"])
    Pop = _wrap(Pm, case["P"].get("form") or case["Pform"], case["col"], n)
    if case["P"].get("form"):
        r.label("P-identity:" + case["P"]["form"])
    try:
        if case.get("positional"):
            alg = sp.alg.ConjugateGradient(Aop, b_in, x, Pop, max_iter, tol)       # documented order (A, b, x, P, max_iter, tol)
        else:
            alg = sp.alg.ConjugateGradient(Aop, b_in, x, P=Pop, max_iter=max_iter, tol=tol)
    except Exception as e:
        r.fail("ctor:raises", "%s: %s" % (type(e).__name__, e))
        alg = None

    updates = 0
    asserted = 0
    delayed = 0
    worst = 0.0
    worst_mono = -1.0
    worst_delay = 0.0
    worst_lag = 0.0
    worst_c = 0.0
    if alg is not None:
        r.check(alg.x is x, "identity:x-rebound", "alg.x is not the caller's array after construction")
        r.check(np.array_equal(x.ravel(), x0), "identity:ctor-changed-x", "constructor changed the initial guess")
        prev = e0
        xmax = float(np.linalg.norm(x0))
        guard = 0
        while True:
            try:
                if alg.done():
                    break
            except Exception as e:
                r.fail("done:raises", "%s: %s" % (type(e).__name__, e))
                break
            guard += 1
            if guard > max_iter + 5:
                r.fail("iter:exceeds-max_iter", "done() still false after %d updates, max_iter=%d" % (updates, max_iter))
                break
            final = alg.iter >= max_iter - 1          # the documented exemption for the tracked residual
            try:
                alg.update()
            except Exception as e:
                r.fail("update:raises", "update %d: %s: %s" % (updates + 1, type(e).__name__, e))
                break
            updates += 1
            k = updates
            r.check(alg.iter == k, "iter:count", "alg.iter=%s after %d updates" % (alg.iter, k))
            r.check(alg.iter <= max_iter, "iter:exceeds-max_iter", "alg.iter=%s > max_iter=%d" % (alg.iter, max_iter))
            r.check(alg.x is x, "identity:x-rebound", "alg.x is no longer the caller's array after update %d" % k)
            r.check(not alg.not_positive_definite, "flag:set-on-PD",
                    "not_positive_definite set at update %d although lambda_min(A)=%.3g > 0" % (k, lminA))
            xk = x.ravel().astype(np.result_type(x.dtype, np.float64))
            if not np.all(np.isfinite(xk)):
                r.fail("iterate:nonfinite", "x not finite after update %d" % k)
                break
            xmax = max(xmax, float(np.linalg.norm(xk)))
            ek = _anorm(Am, xk - xs)
            # (e) the caller's array holds the iterate: all claims below are evaluated on `x`, never on alg.x
            # (a) Krylov optimality
            if k <= kmax and certs[k] <= CERT:
                dev = _anorm(Am, xk - X[k])
                tk = tau(k)
                if tk <= TAU_MAX:
                    bound = tk * e0 + floor
                    asserted += 1
                    q = dev / bound if bound > 0 else (0.0 if dev == 0 else float("inf"))
                    worst = max(worst, q)
                    r.check(dev <= bound, "krylov:not-optimal",
                            "update %d: ||x_k - x_k*||_A = %.3e > tau_k ||e0||_A = %.3e (tau_k=%.1e, kappa_eff=%.3g, "
                            "||e0||_A=%.3e, optimal error %.3e, actual error %.3e)" % (k, dev, bound, tk, kap_eff, e0, eopt[k], ek))
                else:
                    delayed += 1
                    ref = eopt[(k + 1) // 2]
                    db = 1.01 * ref + 1e-9 * e0 + floor
                    worst_delay = max(worst_delay, ek / db if db > 0 else 0.0)
                    jj = max([j for j in range(0, k + 1) if ek <= 1.01 * eopt[j] + 1e-9 * e0 + floor] or [0])
                    worst_lag = max(worst_lag, k / max(jj, 0.5))
                    r.check(ek <= db, "krylov:delayed-bound",
                            "update %d: ||e_k||_A = %.3e > 1.01 ||e*_%d||_A = %.3e (kappa_eff=%.3g)"
                            % (k, ek, (k + 1) // 2, ref, kap_eff))
            elif k <= kmax:
                r.label("cert-skip")
            # (b) monotone A-norm error
            mono = ek - prev
            slack = 1e-10 * e0 + floor
            worst_mono = max(worst_mono, mono / slack if slack > 0 else (0.0 if mono <= 0 else float("inf")))
            r.check(mono <= slack, "error:increases",
                    "update %d: ||e_k||_A = %.6e > ||e_{k-1}||_A = %.6e (||e0||_A=%.3e)" % (k, ek, prev, e0))
            prev = ek
            # (c) tracked residual (exempt on the last permitted update)
            if not final:
                rs = float(np.linalg.norm(b)) + normA * xmax
                rtrue = b - Am @ xk
                try:
                    rtr = np.asarray(alg.r).ravel()
                    dr = float(np.linalg.norm(rtr - rtrue))
                    worst_c = max(worst_c, dr / (1e-9 * rs) if rs > 0 else 0.0)
                    r.check(dr <= 1e-9 * rs, "resid:vector",
                            "update %d (max_iter=%d): ||alg.r - (b - A x)|| = %.3e > 1e-9*%.3e" % (k, max_iter, dr, rs))
                    zt = Pm @ rtrue if Pm is not None else rtrue
                    rz = float(np.real(np.vdot(rtrue, zt)))
                    got = float(alg.resid) ** 2
                    r.check(abs(got - rz) <= 1e-9 * normP * rs * rs, "resid:scalar",
                            "update %d: alg.resid^2 = %.6e but <r, P r> = %.6e for r = b - A x" % (k, got, rz))
                except Exception as e:
                    r.fail("resid:unreadable", "%s: %s" % (type(e).__name__, e))
            # (d) finite termination
            if k == m_eff and tau(k) <= TAU_MAX:
                r.check(ek <= tau(k) * e0 + floor, "termination:not-reached",
                        "after %d updates (= #distinct eigenvalues of PA, n=%d): ||e||_A = %.3e > tau ||e0||_A = %.3e"
                        % (k, n, ek, tau(k) * e0 + floor))
                r.label("termination-checked")
        try:
            r.check(alg.iter == updates, "iter:count", "alg.iter=%s, updates performed=%d" % (alg.iter, updates))
        except Exception:
            pass

    # ---- classes, non-triviality, signature
    spec = case["A"]
    cls = spec["spectrum"] if spec["kind"] == "eig" else ("identity" if spec["kind"] == "identity" else "explicit")
    clustered = m_eff < n and case["P"]["kind"] == "none"
    r.label("A:" + cls, "P:" + case["P"]["kind"],
            "dtype:" + ("complex" if cplx else ("real-A-complex-b" if case.get("rhs_cplx") else "real")),
            "Aform:" + case["Aform"], "shape:" + ("col" if case["col"] else "vec"),
            "x0:" + ("zero" if case["x0"] is None else "random"),
            "tol:" + ("0" if tol == 0 else "small"),
            "max_iter:" + ("0" if max_iter == 0 else "1" if max_iter == 1 else "n+3" if max_iter == n + 3
                           else "n" if max_iter == n else "k<n"),
            "n:" + ("1-2" if n <= 2 else "3-6" if n <= 6 else "7-12"),
            "prefixes-asserted:" + ("0" if asserted == 0 else "1" if asserted == 1 else "2-4" if asserted <= 4 else "5+"))
    if case["P"]["kind"] != "none":
        r.label("Pform:" + case["Pform"])
    if clustered:
        r.label("clustered(m<n)")
    if delayed:
        r.label("delayed-bound-used")
    if asserted:
        r.label(_ratio_label(worst))
    if updates and updates < max_iter:
        r.label("stopped-by-tol")
    if grade < min(n, kmax):
        r.label("krylov-grade<n")
    r.notes = {"worst_ratio": worst, "worst_delay": worst_delay, "worst_lag": worst_lag, "worst_mono": worst_mono, "worst_resid": worst_c, "kappa_eff": kap_eff,
               "asserted": asserted, "updates": updates, "kappa_A": normA / lminA, "kappa_P": kap_P}
    r.nontrivial = n >= 3 and asserted >= 2 and (cplx or case["P"]["kind"] != "none" or clustered)
    r.sig = "pd|%d|%s|%s|%s|%s|%s|%s|%d|%g|%s" % (
        n, dt, A_sig(spec), A_sig(case["P"]), case["Aform"], case["Pform"], case["col"], max_iter, tol,
        "z" if case["x0"] is None else "r")
    return r


def A_sig(spec):
    return ",".join("%s=%s" % (k, spec[k]) for k in sorted(spec))


# ------------------------------------------------------------------ part 2: non-positive curvature


@st.composite
def st_matrix_npd(draw, n):
    if n <= 4 and draw(st.integers(0, 1)) == 0:
        which = draw(st.sampled_from(["herm", "psd-lowrank", "zero", "negdef"] if n > 1 else ["zero", "negdef"]))
        if which == "herm":
            ints = st.lists(st.integers(-4, 4), min_size=n * n, max_size=n * n)
            return {"kind": "herm", "re": draw(ints), "im": draw(ints), "den": 1}
        if which == "zero":
            return {"kind": "bbh", "re": [0] * n, "im": None, "den": 1, "shift": 0.0}
        cols = draw(st.integers(1, max(1, n - 1))) if which == "psd-lowrank" else n
        ints = st.lists(st.integers(-3, 3), min_size=n * cols, max_size=n * cols)
        if which == "psd-lowrank":
            return {"kind": "bbh", "re": draw(ints), "im": draw(ints), "den": 1, "shift": 0.0}
        return {"kind": "bbh", "re": draw(ints), "im": draw(ints), "den": 1, "shift": 1.0, "sign": -1}
    kind = draw(st.sampled_from(["indef", "indef", "semidef", "negdef"] if n > 1 else ["negdef"]))
    spec = {"kind": "eig", "spectrum": kind, "kappa": draw(st.sampled_from(KAPPAS)), "scale": 1.0,
            "seed": draw(A.seeds)}
    if kind == "semidef":
        spec["m"] = draw(st.integers(1, 3))
    return spec


@st.composite
def st_breakdown(draw):
    n = draw(st.integers(1, 8))
    cplx = draw(st.booleans())
    dt = "complex128" if cplx else "float64"
    aform, pform, col = draw(st_forms())
    integer_rhs = draw(st.booleans())
    bspec = draw(A.randint([n], dt, -3, 3)) if integer_rhs else draw(A.arrays([n], dt, small_explicit=0))
    x0 = None
    if draw(st.integers(0, 2)) == 0:
        x0 = draw(A.randint([n], dt, -3, 3)) if integer_rhs else draw(A.arrays([n], dt, small_explicit=0))
    return {"n": n, "cplx": cplx, "rhs_cplx": cplx, "A": draw(st_matrix_npd(n)), "b": bspec, "x0": x0,
            "P": draw(st_precond(allow_jacobi=False)), "Aform": aform, "Pform": pform, "col": col,
            "max_iter": draw(st.sampled_from([1, 2, n, n + 3, n + 3, 40])), "tol": draw(st.sampled_from([0, 0, 1e-8]))}


def _is_integral(a):
    a = np.asarray(a)
    return bool(np.all(np.isfinite(a)) and np.all(a.real == np.round(a.real)) and np.all(a.imag == np.round(a.imag))
                and np.max(np.abs(a), initial=0.0) < 2 ** 20)


def check_breakdown(case):
    import sigpy as sp
    r = R()
    n, cplx = case["n"], case["cplx"]
    dt = _sys_dtype(case)
    Am = build_matrix(case["A"], n, cplx)
    Pm = build_precond(case["P"], np.eye(n, dtype=Am.dtype), cplx) if case["P"]["kind"] != "none" else None
    b = _vec(case["b"], n, dt)
    x0 = _vec(case["x0"], n, dt)
    max_iter, tol = int(case["max_iter"]), case["tol"]
    normA = float(np.linalg.norm(Am, 2))
    evA = np.linalg.eigvalsh(Am)

    shape = [n, 1] if case["col"] else [n]
    x = x0.reshape(shape).copy()
    Aop = _wrap(Am, case["Aform"], case["col"], n)
    Pop = _wrap(Pm, case["Pform"], case["col"], n)
    try:
        alg = sp.alg.ConjugateGradient(Aop, b.reshape(shape).copy(), x, P=Pop, max_iter=max_iter, tol=tol)
    except Exception as e:
        r.fail("ctor:raises", "%s: %s" % (type(e).__name__, e))
        r.sig = "npd|ctor"
        return r

    updates = 0
    demanded = forbidden = ambiguous = 0
    flagged = False
    trusted = True       # False once an update was taken on rounding-level curvature (see ASSUMPTIONS)
    blown = False
    err = np.errstate(all="ignore")
    err.__enter__()
    try:
        while True:
            try:
                if alg.done():
                    break
            except Exception as e:
                r.fail("done:raises", "%s: %s" % (type(e).__name__, e))
                break
            if updates > max_iter + 3:
                r.fail("iter:exceeds-max_iter", "done() still false after %d updates, max_iter=%d" % (updates, max_iter))
                break
            p = np.array(alg.p, dtype=np.result_type(dt, np.float64)).ravel()
            pp = float(np.real(np.vdot(p, p)))
            sane = trusted and bool(np.isfinite(pp)) and pp < 1e200
            exact = (sane and Pm is None and _is_integral(Am) and _is_integral(p)
                     and float(np.max(np.abs(p), initial=0)) < 2 ** 12)
            curv = float(np.real(np.vdot(p, Am @ p))) if sane else float("nan")
            scale = normA * pp
            xb = x.copy()
            try:
                alg.update()
            except Exception as e:
                r.fail("update:raises", "update %d: %s: %s" % (updates + 1, type(e).__name__, e))
                break
            updates += 1
            k = updates
            r.check(alg.iter == k, "iter:count", "alg.iter=%s after %d updates" % (alg.iter, k))
            r.check(alg.iter <= max_iter, "iter:exceeds-max_iter", "alg.iter=%s > max_iter=%d" % (alg.iter, max_iter))
            r.check(alg.x is x, "identity:x-rebound", "alg.x is no longer the caller's array after update %d" % k)
            flag = bool(alg.not_positive_definite)
            if flag:
                flagged = True
                r.check(np.array_equal(x, xb, equal_nan=True), "curvature:x-changed",
                        "update %d set the flag and moved x" % k)
                try:
                    r.check(bool(alg.done()), "curvature:not-done", "flag set at update %d but done() is False" % k)
                except Exception as e:
                    r.fail("done:raises", "%s: %s" % (type(e).__name__, e))
            if not sane:
                continue
            must = (scale > 0 and curv <= -1e-10 * scale) or (exact and curv == 0.0 and pp > 0)
            mustnot = scale > 0 and curv >= 1e-10 * scale
            if must:
                demanded += 1
                r.check(flag, "curvature:flag-not-set",
                        "update %d: Re(p^H A p) = %.3e (||A|| ||p||^2 = %.3e%s) but not_positive_definite is False"
                        % (k, curv, scale, ", exact integer arithmetic" if exact else ""))
                r.check(np.array_equal(x, xb), "curvature:x-changed",
                        "update %d: x moved by %.3e on non-positive curvature %.3e"
                        % (k, float(np.linalg.norm(x - xb)), curv))
            elif mustnot:
                forbidden += 1
                r.check(not flag, "curvature:spurious-flag",
                        "update %d: Re(p^H A p) = %.3e > 0 (scale %.3e) but not_positive_definite was set" % (k, curv, scale))
            else:
                ambiguous += 1
                if not flag:
                    trusted = False      # a step of size ~1/rounding was taken: later iterates carry no claim
            if trusted and not np.all(np.isfinite(x)):
                r.fail("curvature:diverged", "x not finite after update %d (curvature %.3e, scale %.3e, flag %s)"
                       % (k, curv, scale, flag))
                break
            if not np.all(np.isfinite(x)):
                blown = True
    finally:
        err.__exit__(None, None, None)
    try:
        r.check(alg.iter == updates and updates <= max_iter, "iter:count",
                "alg.iter=%s, updates=%d, max_iter=%d" % (alg.iter, updates, max_iter))
    except Exception:
        pass
    if trusted:
        r.check(bool(np.all(np.isfinite(x))), "curvature:diverged", "x not finite at the end")
    else:
        r.label("rounding-level-curvature-step-taken")
        if blown:
            r.label("observed:nonfinite-after-rounding-level-curvature")

    spec = case["A"]
    cls = spec["spectrum"] if spec["kind"] == "eig" else ("explicit-" + spec["kind"])
    tolA = 1e-12 * max(normA, 1e-300)
    sign = ("zero" if normA == 0 else "negdef" if evA[-1] < -tolA else "indefinite" if evA[0] < -tolA
            else "singular-psd" if evA[0] <= tolA else "pd")
    r.label("A:" + cls, "sign:" + sign, "P:" + case["P"]["kind"], "dtype:" + ("complex" if cplx else "real"),
            "Aform:" + case["Aform"], "flagged" if flagged else "never-flagged",
            "max_iter:" + ("1" if max_iter == 1 else "2" if max_iter == 2 else "n" if max_iter == n else
                           "n+3" if max_iter == n + 3 else "40"))
    if demanded:
        r.label("flag-demanded")
    if forbidden:
        r.label("flag-forbidden-steps")
    if ambiguous:
        r.label("ambiguous-curvature-steps")
    if updates == 0:
        r.label("no-update")
    r.nontrivial = demanded > 0 and n >= 2
    r.sig = "npd|%d|%s|%s|%s|%s|%s|%s|%d|%g|%s" % (
        n, dt, A_sig(spec), A_sig(case["P"]), case["Aform"], case["Pform"], case["col"], max_iter, tol,
        "z" if case["x0"] is None else "r")
    return r


# ------------------------------------------------------------------ part 3: the caller's array is narrower than the system


@st.composite
def st_narrow(draw):
    return {"n": draw(st.integers(1, 8)), "cplx": draw(st.booleans()), "kappa": draw(st.sampled_from([1.5, 3.0, 10.0])),
            "seed": draw(A.seeds), "form": draw(st.sampled_from(["linop", "func"])), "x0": draw(st.sampled_from(["zero", "rand"])),
            "precond": draw(st.booleans()), "positional": draw(st.booleans())}


def check_narrow(case):
    """x given in SINGLE precision for a double-precision system (a valid call: CG updates x in place, numpy rounds the
    updates into the caller's array). The solution must still be written into that very array."""
    import sigpy as sp
    r = R()
    n, cplx = case["n"], case["cplx"]
    rng = np.random.default_rng(case["seed"])
    q = _haar(rng, n, cplx)
    ev = np.exp(rng.uniform(0.0, math.log(case["kappa"]), n))
    Am = _herm((q * ev) @ q.conj().T)
    if not cplx:
        Am = np.ascontiguousarray(np.real(Am))
    dt = np.complex128 if cplx else np.float64
    sdt = np.complex64 if cplx else np.float32
    b = (rng.standard_normal(n) + (1j * rng.standard_normal(n) if cplx else 0)).astype(dt).reshape(n, 1)
    x0 = np.zeros((n, 1), sdt) if case["x0"] == "zero" else (rng.standard_normal((n, 1)) + (1j * rng.standard_normal((n, 1)) if cplx else 0)).astype(sdt)
    x = x0.copy()
    xs = np.linalg.solve(Am, b)
    Aop = sp.linop.MatMul([n, 1], Am.astype(dt)) if case["form"] == "linop" else (lambda v: Am @ v)
    Pop = None
    if case["precond"]:
        d = (1.0 / np.real(np.diag(Am))).reshape(n, 1)
        Pop = (lambda v: d * v)
    try:
        if case["positional"]:
            alg = sp.alg.ConjugateGradient(Aop, b, x, Pop, n + 3, 0)
        else:
            alg = sp.alg.ConjugateGradient(Aop, b, x, P=Pop, max_iter=n + 3, tol=0)
        k = 0
        while not alg.done() and k < n + 5:
            alg.update()
            k += 1
    except Exception as e:
        r.fail("narrow:raises", "%s: %s" % (type(e).__name__, e))
        return r
    r.check(alg.x is x, "identity:x-rebound", "alg.x is not the caller's (single-precision) array")
    e0 = _anorm(Am, x0.astype(dt).ravel() - xs.ravel())
    e = _anorm(Am, x.astype(dt).ravel() - xs.ravel())
    tolr = 1e-4 * (e0 + _anorm(Am, xs.ravel()) + 1e-30)
    r.check(np.all(np.isfinite(x)) and e <= tolr, "narrow:solution-not-in-callers-array",
            "after %d updates the caller's %s array is %.3e (A-norm) from the solution, initial error %.3e" % (k, x.dtype, e, e0))
    r.label("cplx" if cplx else "real", "x0:" + case["x0"], "P" if Pop is not None else "no-P")
    r.nontrivial = n >= 2
    r.sig = "narrow|%d|%s|%s|%s|%s|%s" % (n, cplx, case["kappa"], case["form"], case["x0"], case["precond"])
    return r


# ------------------------------------------------------------------ part 4: finite termination beyond ten updates


@st.composite
def st_termination(draw):
    return {"n": draw(st.integers(11, 16)), "cplx": draw(st.booleans()), "kappa": draw(st.sampled_from([2.0, 5.0, 10.0])),
            "kind": draw(st.sampled_from(["even", "log", "rand"])), "scale": draw(st.sampled_from([1.0, 1e-3, 1e3])),
            "seed": draw(A.seeds), "form": draw(st.sampled_from(["linop", "func"])), "extra": draw(st.sampled_from([0, 3])),
            "jacobi": draw(st.booleans())}


def check_termination(case):
    """n in 11..16 with kappa <= 10: the exact solution is reached within n updates. Tolerance 1e-6 ||e0||_A is CALIBRATED:
    textbook float64 CG (and the pinned tree) leaves at most 4e-12 on 3000 such systems; a restart or a refreshed
    residual after the tenth update leaves 1e-2."""
    import sigpy as sp
    r = R()
    n, cplx = case["n"], case["cplx"]
    rng = np.random.default_rng(case["seed"])
    kap = case["kappa"]
    if case["kind"] == "even":
        ev = np.linspace(1.0, kap, n)
    elif case["kind"] == "log":
        ev = np.exp(np.linspace(0.0, math.log(kap), n))
    else:
        ev = np.sort(rng.uniform(1.0, kap, n))
        ev[0], ev[-1] = 1.0, kap
    ev = ev * case["scale"]
    q = _haar(rng, n, cplx)
    Am = _herm((q * ev) @ q.conj().T)
    if not cplx:
        Am = np.ascontiguousarray(np.real(Am))
    dt = np.complex128 if cplx else np.float64
    b = (rng.standard_normal(n) + (1j * rng.standard_normal(n) if cplx else 0)).astype(dt).reshape(n, 1)
    x0 = (rng.standard_normal(n) + (1j * rng.standard_normal(n) if cplx else 0)).astype(dt).reshape(n, 1)
    x = x0.copy()
    xs = np.linalg.solve(Am, b)
    Aop = sp.linop.MatMul([n, 1], Am.astype(dt)) if case["form"] == "linop" else (lambda v: Am @ v)
    Pop = None
    if case["jacobi"]:
        d = (1.0 / np.real(np.diag(Am))).reshape(n, 1)
        Pop = (lambda v: d * v)
    e0 = _anorm(Am, (x0 - xs).ravel())
    try:
        alg = sp.alg.ConjugateGradient(Aop, b, x, P=Pop, max_iter=n + case["extra"], tol=0)
        prev = e0
        for k in range(1, n + 1):
            if alg.done():
                break
            alg.update()
            e = _anorm(Am, (x - xs).ravel())
            if not e <= prev * (1 + 1e-9) + 1e-13 * e0:
                r.fail("error:increases", "update %d: ||e_k||_A = %.6e > ||e_{k-1}||_A = %.6e" % (k, e, prev))
                break
            prev = e
    except Exception as e:
        r.fail("termination:raises", "%s: %s" % (type(e).__name__, e))
        return r
    e = _anorm(Am, (x - xs).ravel())
    r.check(e <= 1e-6 * e0, "termination:not-reached:n>10",
            "n = %d, kappa = %g (%s spectrum): after n updates ||e||_A / ||e0||_A = %.3e (calibrated bound 1e-6)" % (n, kap, case["kind"], e / max(e0, 1e-300)))
    r.label("n%d" % n, "kappa%g" % kap, case["kind"], "P" if Pop is not None else "no-P")
    r.nontrivial = True
    r.sig = "term|%d|%s|%g|%s|%g|%s|%d|%s" % (n, cplx, kap, case["kind"], case["scale"], case["form"], case["extra"], case["jacobi"])
    return r


PARTS = [
    Part("krylov", check_case, {"quick": 20000, "thorough": 160000}, strategy=st_case),
    Part("breakdown", check_breakdown, {"quick": 4000, "thorough": 24000}, strategy=st_breakdown),
    Part("narrow", check_narrow, {"quick": 3000, "thorough": 80000}, strategy=st_narrow),
    Part("termination", check_termination, {"quick": 2000, "thorough": 80000}, strategy=st_termination),
]
