"""C06 - nufft approximates the non-uniform DFT to its stated accuracy; nufft_adjoint
is its exact adjoint with the same scaling.

Oracle: the dense exact NUDFT  E[j, n] = prod_d N_d^{-1/2} exp(-2 pi i k_jd (n_d - N_d//2) / N_d)
built by the harness (and certified against a direct evaluation of the formula).
Error metric per batch item:  e = ||y - E x||_2 / (sqrt(npts) ||x||_2)   (DESIGN.md section 4, C06:
the plain ratio ||y-Ex||/||Ex|| is ill-posed because Ex can vanish exactly, e.g. a constant image
sampled on non-DC grid points; E|(Ex)_j|^2 = ||x||^2 for generic coordinates, so e is the
relative l2 error in the generic case and stays meaningful under cancellation).

The loose accuracy thresholds (3 % / 0.3 % / 10 %) come from the property; the sensitivity comes
from relations that are exact in real arithmetic: periodicity in the coordinates, batched call ==
per-item calls, linearity, mat(nufft_adjoint) == mat(nufft)^H, the linop wrappers, dtype and shapes.
"""
import math
import warnings

import numpy as np
from hypothesis import strategies as st

from vlib import arrays as A
from vlib.runner import HarnessError, Part, R

PROPERTY = "C06"
RULE = ("Hypothesis-generated (grid 1-3 dims of length 1-16 (3-D <= 8), 0-2 batch dims, complex x in {gaussian, delta, "
        "constant, dyadic}, 1-64 sample points (1-D or 2-D point arrays) from {uniform in grid, on-grid integers, "
        "half-integers, clustered, x4 out of range, far out of range +-10N}, (oversamp,width) in {default (1.25,4) via "
        "the default arguments, (2,4), (2,6), free in [1.25,2]x[3,6]}, x complex128/complex64, coord float64/float32). "
        "Oracle: dense exact NUDFT matrix E built by the harness and certified against a direct evaluation; per batch "
        "item e = ||y-Ex||/(sqrt(npts)||x||) < 0.03 (width>=4), < 0.003 (oversamp=2, width>=4), < 0.10 (width in [3,4)); "
        "exact (1e-9 double / 2e-4 single, scaled by operand norms) relations: periodicity under per-axis integer "
        "multiples of N_d, batched == per-item, linearity with complex scalars, mat(nufft_adjoint) == mat(nufft)^H, "
        "||A^H A x - E^H E x|| <= 3 eps ||E^H E||_2 ||x||, NUFFT/NUFFTAdjoint linops == functions with advertised "
        "shapes, output dtype == input complex dtype, inputs not mutated. non-trivial: ndim >= 2 or batch dims or "
        "out-of-range coordinates or non-default parameters; distinct = (grid, batch, point shape, coordinate class, "
        "parameters, dtypes, x kind).")
ASSUMPTIONS = [
    "CPU numpy/numba backend only",
    "inputs are complex (complex128 / complex64) as in the property's quantifier; coordinates are floating (float64 / "
    "float32) arrays of shape pts_shape + [ndim] with 1 or 2 point axes; oshape is always passed to nufft_adjoint "
    "(estimate_shape is a heuristic outside the property)",
    "accuracy thresholds: 0.03 for width >= 4, 0.003 for oversamp == 2 and width >= 4 (property text); 0.10 for width "
    "in [3,4) (no figure in the property; DESIGN.md appendix measured 0.043)",
    "float32 coordinates: sigpy scales/shifts them in float32, so a coordinate k carries an evaluation error of at most "
    "(3|k| + N/2 + 1) 2^-24 grid units per axis (scale rounding, product rounding, sum rounding); since |dy/dk| <= "
    "pi ||x|| the thresholds and the periodicity tolerance are widened by exactly 2 pi sum_d (3 max|k_d| + N_d/2 + 1) "
    "2^-24 (factor 2: derivative of the interpolation ripple); at +-10N, N=16 this is 1.8e-4, i.e. 6 % of the "
    "tightest threshold",
    "periodicity is asserted on a dyadic (multiples of 1/8) copy of the case's coordinates clipped to |k| <= 4N, "
    "shifted by m*N with |m| <= 3, and only at points whose kernel-window edges are >= 1e-3 oversampled-grid units "
    "away from an integer: exactly at such ties a rounding error of one ulp in the shifted coordinate changes which "
    "grid point is inside the window (that point has weight K(+-1)=1 against I0(beta)~1e2..1e4 at the centre - within "
    "the stated accuracy, but not 1e-9)",
    "output dtype == input dtype for complex inputs is not in the docstrings; fft/ifft cast back to the input dtype "
    "explicitly and interpolate/gridding allocate their output with input.dtype, so it is the code's stated intent "
    "and is asserted (nufft:dtype, nufft_adjoint:dtype)",
    "the Gram bound 3 eps ||G||_2 ||x|| follows from ||A-E||_2 <= eps ||E||_2 (operator-norm reading of the stated "
    "accuracy): ||A^H A - E^H E|| <= (2 eps + eps^2) ||E||^2",
    "dense matrices of nufft / nufft_adjoint are obtained from one batched call on the identity (batch consistency is "
    "asserted separately on the case's own input)",
]

COORD_CLASSES = ("uniform", "grid", "half", "cluster", "out4", "far")
U24 = 2.0 ** -24


# ------------------------------------------------------------------ generators


@st.composite
def st_case(draw):
    d = draw(st.sampled_from([1, 1, 2, 2, 3]))
    hi = 16 if d < 3 else 8
    grid = [draw(st.integers(1, hi)) for _ in range(d)]
    nb = draw(st.sampled_from([0, 0, 1, 2]))
    batch = [draw(st.integers(1, 3)) for _ in range(nb)]
    if draw(st.integers(0, 3)) == 0:
        pts = [draw(st.integers(1, 8)), draw(st.integers(1, 8))]
    else:
        pts = [draw(st.integers(1, 64))]
    cls = draw(st.sampled_from(COORD_CLASSES))
    coord = {"cls": cls, "pts": pts, "seed": draw(A.seeds)}
    if cls == "cluster":
        coord["spread"] = draw(st.sampled_from([0.0, 0.01, 0.1, 0.5]))
    pc = draw(st.sampled_from(["default", "default", "os2w4", "os2w6", "free", "free", "free"]))
    if pc == "default":
        os_, w = 1.25, 4
    elif pc == "os2w4":
        os_, w = 2, 4
    elif pc == "os2w6":
        os_, w = 2, 6
    else:
        if draw(st.booleans()):  # dyadic lattice (includes both end points)
            os_ = 1.25 + draw(st.integers(0, 12)) / 16.0
            w = 3 + draw(st.integers(0, 24)) / 8.0
        else:
            os_ = draw(st.floats(1.25, 2.0, allow_nan=False))
            w = draw(st.floats(3.0, 6.0, allow_nan=False))
    xdt = draw(st.sampled_from(["complex128", "complex128", "complex64"]))
    cdt = draw(st.sampled_from(["float64", "float64", "float32"]))
    shape = batch + grid
    kind = draw(st.sampled_from(["gaussian", "delta", "constant", "dyadic"]))
    if kind == "gaussian":
        x = draw(A.gaussian(shape, xdt))
    elif kind == "delta":
        x = {"k": "sp", "shape": shape, "dtype": xdt, "which": "delta", "idx": draw(st.integers(0, 10 ** 6))}
    elif kind == "constant":
        x = {"k": "sp", "shape": shape, "dtype": xdt, "which": "ones", "idx": 0}
    elif A.prod(shape) <= 24:
        x = draw(A.dyadic(shape, xdt))
    else:
        x = draw(A.randint(shape, xdt))
    return {"grid": grid, "batch": batch, "coord": coord, "pclass": pc, "oversamp": os_, "width": w,
            "x": x, "xkind": kind, "cdtype": cdt,
            "m": [draw(st.sampled_from([-3, -2, -1, 1, 2, 3]))] + [draw(st.integers(-3, 3)) for _ in range(d - 1)],
            "lin": {"a": [draw(st.integers(-8, 8)), draw(st.integers(-8, 8))],
                    "b": [draw(st.integers(-8, 8)), draw(st.integers(-8, 8))], "seed": draw(A.seeds)},
            "layout": draw(st.sampled_from(A.LAYOUTS)), "clayout": draw(st.sampled_from(A.LAYOUTS))}


def make_coord(cs, grid, cdtype):
    """Coordinates in grid units, shape pts + [ndim], from the case's seed (deterministic)."""
    rng = np.random.default_rng(cs["seed"])
    n, d = A.prod(cs["pts"]), len(grid)
    N = np.array(grid, dtype=np.float64)
    lo = -(np.array(grid) // 2)
    cls = cs["cls"]
    if cls == "uniform":
        c = rng.uniform(-N / 2, N / 2, size=(n, d))
    elif cls == "grid":
        c = (lo + rng.integers(0, grid, size=(n, d))).astype(np.float64)
    elif cls == "half":
        c = lo + rng.integers(0, grid, size=(n, d)) + 0.5
    elif cls == "cluster":
        c = rng.uniform(-N / 2, N / 2, size=(1, d)) + cs.get("spread", 0.1) * rng.standard_normal((n, d))
    elif cls == "out4":
        c = rng.uniform(-2 * N, 2 * N, size=(n, d))
    elif cls == "far":
        c = rng.uniform(-10 * N, 10 * N, size=(n, d))
    else:
        raise ValueError(cls)
    return c.reshape(list(cs["pts"]) + [d]).astype(cdtype)


# ------------------------------------------------------------------ oracle


def nudft_matrix(grid, pts):
    """E[j, n] = prod_d N_d^{-1/2} exp(-2 pi i k_jd (n_d - N_d//2) / N_d); pts float64 [npts, ndim]; n in C order."""
    E = np.ones((pts.shape[0], 1), dtype=np.complex128)
    for a, N in enumerate(grid):
        n = np.arange(N) - N // 2
        F = np.exp(-2j * np.pi * np.outer(pts[:, a], n) / N) / np.sqrt(N)
        E = (E[:, :, None] * F[:, None, :]).reshape(pts.shape[0], -1)
    return E


def certify_oracle(E, grid, pts, seed):
    """2.5: the reference certifies itself - a few entries re-evaluated directly from the formula."""
    rng = np.random.default_rng(seed)
    nv = A.prod(grid)
    for _ in range(6):
        j = int(rng.integers(0, pts.shape[0]))
        n = int(rng.integers(0, nv))
        idx = np.unravel_index(n, grid)
        ph = math.fsum(float(pts[j, a]) * (int(idx[a]) - grid[a] // 2) / grid[a] for a in range(len(grid)))
        ph = ph - round(ph)
        want = complex(math.cos(2 * math.pi * ph), -math.sin(2 * math.pi * ph)) / math.sqrt(nv)
        if abs(E[j, n] - want) > 1e-9 / math.sqrt(nv):
            raise HarnessError("C06 oracle self-check failed: E[%d,%d]=%r, direct %r" % (j, n, E[j, n], want))


def eps_for(oversamp, width):
    if width < 4:
        return 0.10
    if oversamp >= 2:
        return 0.003
    return 0.03


def eps_class(oversamp, width):
    if width < 4:
        return "w<4"
    if oversamp >= 2:
        return "os2,w>=4"
    return "w>=4"


def f32_coord_slack(coord64, grid, cdtype):
    """Effect of sigpy evaluating scale*k+shift in float32 (see ASSUMPTIONS), relative to sqrt(npts)||x||."""
    if cdtype != "float32":
        return 0.0
    pts = np.abs(coord64.reshape(-1, len(grid)))
    return float(2 * np.pi * sum((3 * pts[:, a].max() + N / 2 + 1) * U24 for a, N in enumerate(grid)))


def periodic_points(coord64, grid, oversamp, width):
    """Dyadic copy (multiples of 1/8, |k| <= 4N) of the coordinates, nudged off kernel-window ties.
    Returns float64 [n_good, ndim] (points that could not be moved off a tie are dropped)."""
    d = len(grid)
    pts = coord64.reshape(-1, d)
    N = np.array(grid, dtype=np.float64)
    c = np.round(np.clip(pts, -4 * N, 4 * N) * 8) / 8
    osn = np.array([math.ceil(oversamp * n) for n in grid], dtype=np.float64)
    shift = np.array([math.ceil(oversamp * n) // 2 for n in grid], dtype=np.float64)

    def bad(c):
        t = c * (osn / N) + shift
        out = np.zeros(c.shape, bool)
        for s in (-width / 2.0, width / 2.0):
            v = t + s
            out |= np.abs(v - np.round(v)) < 1e-3
        return out

    for _ in range(8):
        b = bad(c)
        if not b.any():
            break
        c = np.where(b, c + 0.125, c)
    good = ~bad(c).any(axis=1)
    return c[good]


# ------------------------------------------------------------------ the check


def _tol(dt):
    return 2e-4 if dt == "complex64" else 1e-9


def _nrm(a):
    return float(np.linalg.norm(np.asarray(a).ravel().astype(np.complex128)))


def _guard(r, key, fn):
    try:
        with warnings.catch_warnings():
            warnings.simplefilter("ignore")
            return True, r.twice(key, fn)
    except HarnessError:
        raise
    except Exception as e:  # every generated input is inside the documented domain
        r.fail(key + ":raises", "%s: %s" % (type(e).__name__, e))
        return False, None


def check_case(case):
    import sigpy as sp
    r = R()
    grid, batch = list(case["grid"]), list(case["batch"])
    d, nv = len(grid), A.prod(grid)
    os_, w = case["oversamp"], case["width"]
    pc = case["pclass"]
    xdt, cdt = case["x"]["dtype"], case["cdtype"]
    x = A.relayout(A.arr(case["x"]), case.get("layout", "c"))
    coord = A.relayout(make_coord(case["coord"], grid, cdt), case.get("clayout", "c"))
    if case.get("layout", "c") != "c" or case.get("clayout", "c") != "c":
        r.label("layout:x=%s,coord=%s" % (case.get("layout", "c"), case.get("clayout", "c")))
    pts_shape = list(case["coord"]["pts"])
    npts = A.prod(pts_shape)
    c64 = coord.astype(np.float64)          # exactly the values sigpy receives
    kw = {} if pc == "default" else {"oversamp": os_, "width": w}
    tol = _tol(xdt)
    eps = eps_for(os_, w)
    ecl = eps_class(os_, w)
    slack32 = f32_coord_slack(c64, grid, cdt)
    sq = math.sqrt(npts)

    E = nudft_matrix(grid, c64.reshape(-1, d))
    certify_oracle(E, grid, c64.reshape(-1, d), case["coord"]["seed"])

    # ---- forward: shape, dtype, no mutation, accuracy
    x0, c0 = x.copy(), coord.copy()
    if (npts + nv) % 3 == 0:
        # documented positional order nufft(input, coord, oversamp, width)
        ok, y = _guard(r, "nufft", lambda: sp.nufft(x, coord, os_, w))
    else:
        ok, y = _guard(r, "nufft", lambda: sp.nufft(x, coord, **kw))
    r.check(np.array_equal(x, x0) and np.array_equal(coord, c0), "nufft:mutates-input")
    worst = 0.0
    if ok:
        y = np.asarray(y)
        shape_ok = r.check(list(y.shape) == batch + pts_shape, "nufft:shape",
                           "output shape %s, documented input.shape[:-ndim] + coord.shape[:-1] = %s"
                           % (list(y.shape), batch + pts_shape))
        r.check(y.dtype == x.dtype, "nufft:dtype", "output %s for input %s" % (y.dtype, x.dtype))
        if shape_ok:
            xb = x.reshape(-1, nv).astype(np.complex128)
            yb = y.reshape(-1, npts).astype(np.complex128)
            ref = xb @ E.T
            for b in range(xb.shape[0]):
                nx = np.linalg.norm(xb[b])
                if nx == 0:
                    r.check(np.linalg.norm(yb[b]) == 0, "nufft:zero-in-nonzero-out",
                            "batch item %d is zero but its output has norm %.3e" % (b, np.linalg.norm(yb[b])))
                    continue
                e = float(np.linalg.norm(yb[b] - ref[b]) / (sq * nx))
                worst = max(worst, e / (eps + slack32)) if np.isfinite(e) else float("inf")
                if not e < eps + slack32:
                    r.fail("nufft:accuracy:" + ecl,
                           "e = ||y-Ex||/(sqrt(npts)||x||) = %.4g >= %.4g (oversamp=%s width=%s grid=%s npts=%d "
                           "coords=%s/%s batch item %d)" % (e, eps + slack32, os_, w, grid, npts,
                                                            case["coord"]["cls"], cdt, b))
                    break
    r.notes["e_over_eps"] = worst

    # ---- batched call == per-item calls
    if ok and batch and list(y.shape) == batch + pts_shape:
        xi = x.reshape([-1] + grid)
        yi = y.reshape([-1] + pts_shape)
        for b in range(xi.shape[0]):
            okb, yb1 = _guard(r, "nufft:per-item", lambda: sp.nufft(xi[b].copy(), coord, **kw))
            if not okb:
                break
            if not (np.asarray(yb1).shape == yi[b].shape
                    and _nrm(np.asarray(yb1) - yi[b]) <= tol * sq * max(_nrm(xi[b]), 1e-300)):
                r.fail("nufft:batch-consistency", "batched output item %d differs from the single call by %.3e "
                       "(||x_b|| = %.3e)" % (b, _nrm(np.asarray(yb1) - yi[b]) if np.asarray(yb1).shape == yi[b].shape
                                             else float("nan"), _nrm(xi[b])))
                break

    # ---- linearity over C
    la, lb = complex(*case["lin"]["a"]) / 4, complex(*case["lin"]["b"]) / 4
    x2 = A.arr({"k": "g", "shape": batch + grid, "dtype": xdt, "seed": case["lin"]["seed"]})
    okl, ys = _guard(r, "nufft:linearity", lambda: (sp.nufft((la * x + lb * x2).astype(x.dtype), coord, **kw),
                                                   sp.nufft(x2, coord, **kw)))
    if ok and okl and np.asarray(ys[0]).shape == y.shape == np.asarray(ys[1]).shape:
        lhs = np.asarray(ys[0]).astype(np.complex128)
        rhs = la * y.astype(np.complex128) + lb * np.asarray(ys[1]).astype(np.complex128)
        scale = sq * (abs(la) * _nrm(x) + abs(lb) * _nrm(x2)) + 1e-300
        r.check(_nrm(lhs - rhs) <= tol * scale, "nufft:linearity",
                "||A(ax+by) - aAx - bAy|| = %.3e > %.1e * %.3e" % (_nrm(lhs - rhs), tol, scale))

    # ---- periodicity: coordinates shifted by integer multiples of N_d per axis
    m = list(case["m"])
    pp = periodic_points(c64, grid, os_, w)
    if pp.shape[0] and any(m):
        cp = pp.astype(cdt)
        cs = (pp + np.array(m, dtype=np.float64) * np.array(grid, dtype=np.float64)).astype(cdt)
        exact = np.array_equal(cp.astype(np.float64), pp) and np.array_equal(
            cs.astype(np.float64) - cp.astype(np.float64), np.array(m, dtype=np.float64) * np.array(grid) + 0 * pp)
        if not exact:
            raise HarnessError("C06: shifted dyadic coordinates not exactly representable")
        okp, yp = _guard(r, "nufft:periodicity", lambda: (sp.nufft(x, cp, **kw), sp.nufft(x, cs, **kw)))
        if okp:
            ya, ybb = (np.asarray(v).astype(np.complex128) for v in yp)
            tp = tol + f32_coord_slack(cs.astype(np.float64), grid, cdt)
            scale = math.sqrt(pp.shape[0]) * max(_nrm(x), 1e-300)
            diff = _nrm(ya - ybb) if ya.shape == ybb.shape else float("inf")
            r.check(diff <= tp * scale, "nufft:periodicity",
                    "||nufft(x,c) - nufft(x,c+N*m)|| = %.3e > %.2e * %.3e (m=%s grid=%s oversamp=%s width=%s %d "
                    "points, %s coords)" % (diff, tp, scale, m, grid, os_, w, pp.shape[0], cdt))
            r.label("periodicity-checked")
    else:
        r.label("periodicity-skipped(no tie-free point)")

    # ---- adjoint: shape/dtype, dense matrices, exact adjointness with identical scaling
    oshape = batch + grid
    yin = A.arr({"k": "g", "shape": batch + pts_shape, "dtype": xdt, "seed": case["lin"]["seed"] ^ 0x5A5A})
    y0 = yin.copy()
    if (npts + nv) % 3 == 0:
        oka, z = _guard(r, "nufft_adjoint", lambda: sp.nufft_adjoint(yin, coord, tuple(oshape), os_, w))   # (input, coord, oshape, oversamp, width)
    else:
        oka, z = _guard(r, "nufft_adjoint", lambda: sp.nufft_adjoint(yin, coord, tuple(oshape), **kw))
    r.check(np.array_equal(yin, y0) and np.array_equal(coord, c0), "nufft_adjoint:mutates-input")
    if oka:
        z = np.asarray(z)
        r.check(list(z.shape) == oshape, "nufft_adjoint:shape", "output shape %s, oshape %s" % (list(z.shape), oshape))
        r.check(z.dtype == yin.dtype, "nufft_adjoint:dtype", "output %s for input %s" % (z.dtype, yin.dtype))
    M = MH = None
    okm, mm = _guard(r, "nufft:dense", lambda: sp.nufft(np.eye(nv, dtype=xdt).reshape([nv] + grid), coord, **kw))
    if okm and list(np.asarray(mm).shape) == [nv] + pts_shape:
        M = np.asarray(mm).reshape(nv, npts).T.astype(np.complex128)            # npts x nv
    okh, mh = _guard(r, "nufft_adjoint:dense",
                     lambda: sp.nufft_adjoint(np.eye(npts, dtype=xdt).reshape([npts] + pts_shape), coord,
                                              [npts] + grid, **kw))
    if okh and list(np.asarray(mh).shape) == [npts] + grid:
        MH = np.asarray(mh).reshape(npts, nv).T.astype(np.complex128)           # nv x npts
    if M is not None and MH is not None:
        sc = max(np.linalg.norm(M), 1e-300)
        dev = float(np.linalg.norm(MH - M.conj().T))
        if not dev <= tol * sc:
            # distinguish a pure scaling slip from a structural one (root-cause key)
            den = np.vdot(M.conj().T, M.conj().T).real
            alpha = np.vdot(M.conj().T, MH) / den if den > 0 else 0
            pure = den > 0 and np.linalg.norm(MH - alpha * M.conj().T) <= 10 * tol * sc
            r.fail("adjoint:not-adjoint" + (":scaling" if pure else ""),
                   "||mat(nufft_adjoint) - mat(nufft)^H||_F = %.3e > %.1e * ||M||_F = %.3e; best scalar %s "
                   "(grid=%s npts=%d oversamp=%s width=%s)" % (dev, tol, tol * sc, np.round(alpha, 6), grid, npts, os_, w))
        # the adjoint of the case's own (batched) input agrees with the dense matrix
        if oka and list(z.shape) == oshape:
            zr = yin.reshape(-1, npts).astype(np.complex128) @ MH.T
            r.check(_nrm(z.reshape(-1, nv) - zr) <= tol * sc * max(_nrm(yin), 1e-300) * 4, "nufft_adjoint:batch-consistency",
                    "batched nufft_adjoint differs from the dense per-item matrix by %.3e" % _nrm(z.reshape(-1, nv) - zr))

    # ---- Gram: nufft_adjoint(nufft(x)) against E^H E x
    if ok and list(y.shape) == batch + pts_shape:
        okg, g = _guard(r, "gram", lambda: sp.nufft_adjoint(y, coord, oshape, **kw))
        if okg and list(np.asarray(g).shape) == oshape:
            G = E.conj().T @ E
            gn = float(np.linalg.norm(G, 2))
            gb = np.asarray(g).reshape(-1, nv).astype(np.complex128)
            xb = x.reshape(-1, nv).astype(np.complex128)
            gw = 0.0
            for b in range(xb.shape[0]):
                err = float(np.linalg.norm(gb[b] - G @ xb[b]))
                bound = 3 * (eps + slack32) * gn * float(np.linalg.norm(xb[b]))
                if bound > 0:
                    gw = max(gw, err / bound)
                if not err <= bound + 1e-300:
                    r.fail("gram:accuracy:" + ecl, "||A^H A x - E^H E x|| = %.4g > 3 eps ||G||_2 ||x|| = %.4g "
                           "(oversamp=%s width=%s grid=%s npts=%d coords=%s)" % (err, bound, os_, w, grid, npts,
                                                                                 case["coord"]["cls"]))
                    break
            r.notes["gram_over_bound"] = gw

    # ---- linop wrappers
    okc, ops = _guard(r, "linop:ctor", lambda: (sp.linop.NUFFT(batch + grid, coord, **kw),
                                                sp.linop.NUFFTAdjoint(batch + grid, coord, **kw)))
    if okc:
        F, FH = ops
        r.check(list(F.ishape) == batch + grid and list(F.oshape) == batch + pts_shape, "linop:NUFFT:advertised-shape",
                "ishape %s oshape %s, expected %s -> %s" % (F.ishape, F.oshape, batch + grid, batch + pts_shape))
        r.check(list(FH.oshape) == batch + grid and list(FH.ishape) == batch + pts_shape,
                "linop:NUFFTAdjoint:advertised-shape",
                "ishape %s oshape %s, expected %s -> %s" % (FH.ishape, FH.oshape, batch + pts_shape, batch + grid))
        okf, v = _guard(r, "linop:NUFFT:apply", lambda: (F(x), F.H(yin), F.H.H(x)))
        if okf and ok:
            r.check(np.asarray(v[0]).shape == y.shape and np.array_equal(np.asarray(v[0]), y), "linop:NUFFT:values",
                    "NUFFT(ishape, coord)(x) differs from nufft(x, coord)")
            r.check(np.asarray(v[2]).shape == y.shape and np.array_equal(np.asarray(v[2]), y), "linop:NUFFT:H.H",
                    "NUFFT.H.H(x) differs from nufft(x, coord)")
        if okf and oka:
            r.check(np.asarray(v[1]).shape == z.shape and np.array_equal(np.asarray(v[1]), z), "linop:NUFFT:H",
                    "NUFFT.H(y) differs from nufft_adjoint(y, coord, ishape)")
        okf2, v2 = _guard(r, "linop:NUFFTAdjoint:apply", lambda: (FH(yin), FH.H(x)))
        if okf2:
            if oka:
                r.check(np.asarray(v2[0]).shape == z.shape and np.array_equal(np.asarray(v2[0]), z),
                        "linop:NUFFTAdjoint:values", "NUFFTAdjoint(oshape, coord)(y) differs from nufft_adjoint")
            if ok:
                r.check(np.asarray(v2[1]).shape == y.shape and np.array_equal(np.asarray(v2[1]), y),
                        "linop:NUFFTAdjoint:H", "NUFFTAdjoint.H(x) differs from nufft(x, coord)")

    # ---- classes
    out_of_range = bool(np.any(np.abs(c64.reshape(-1, d)) > np.array(grid) / 2.0 + 1e-12))
    par = {n % 2 for n in grid}
    r.label("d%d" % d, "batch%d" % len(batch), "coord:" + case["coord"]["cls"], "param:" + pc, "eps:" + ecl,
            "x:" + case["xkind"], xdt + "/" + cdt, "pts%dd" % len(pts_shape),
            "parity:" + ("mixed" if len(par) > 1 else ("odd" if 1 in par else "even")))
    if 1 in grid:
        r.label("axis-of-length-1")
    if out_of_range:
        r.label("out-of-range")
    if npts > nv:
        r.label("npts>nvox")
    r.nontrivial = d >= 2 or bool(batch) or out_of_range or pc != "default"
    r.sig = "%s|%s|%s|%s|%s|%s|%s|%s|%s" % (grid, batch, pts_shape, case["coord"]["cls"], os_, w, xdt, cdt, case["xkind"])
    return r


# ------------------------------------------------------------------ exhaustive sweep over axis lengths
#
# The per-axis integer arithmetic of nufft (oversampled length ceil(os*n), its centre, the coordinate scale and
# shift, the apodisation centre) depends on the axis length n and on oversamp only.  A slip there can be confined
# to a handful of "magic" lengths (e.g. where a float product lands one ulp below an integer), which random
# shapes <= 16 never reach.  The domain {n = 1..512} x {oversamp in OS_SWEEP} is finite and small, so it is
# ENUMERATED COMPLETELY in every tier (16 slices; the slice index is the only drawn value, Hypothesis exhausts it).

OS_SWEEP = [1.25, 1.3, 1.375, 1.5, 1.75, 2.0]
N_SWEEP = 512
N_SLICES = 16


def st_sizes():
    return st.builds(lambda k: {"slice": k}, st.sampled_from(list(range(N_SLICES))))


def check_sizes(case):
    import sigpy as sp
    warnings.simplefilter("ignore")
    r = R()
    k = case["slice"]
    rng = np.random.default_rng(1234 + k)
    worst = 0.0
    nconf = 0
    for n in range(1 + k, N_SWEEP + 1, N_SLICES):
        # points: centre, half-integer, both edges, out of range, two generic dyadic ones
        pts = np.array([0.0, 0.5, -(n // 2), n - n // 2 - 1, 1.25 * n, -0.75 * n - 0.125,
                        rng.integers(-8 * n, 8 * n) / 16.0, rng.integers(-8 * n, 8 * n) / 16.0]).reshape(-1, 1)
        x = (rng.standard_normal(n) + 1j * rng.standard_normal(n))
        yv = (rng.standard_normal(len(pts)) + 1j * rng.standard_normal(len(pts)))
        E = nudft_matrix([n], pts)
        ref = E @ x
        for os_ in OS_SWEEP:
            nconf += 1
            try:
                y = sp.nufft(x, pts, oversamp=os_, width=4)
                z = sp.nufft_adjoint(yv, pts, oshape=[n], oversamp=os_, width=4)
            except Exception as e:
                r.fail("sizes:raises", "n=%d oversamp=%s: %s: %s" % (n, os_, type(e).__name__, e))
                continue
            e_rel = np.linalg.norm(y - ref) / (np.sqrt(len(pts)) * np.linalg.norm(x))
            thr = eps_for(os_, 4)
            worst = max(worst, e_rel / thr)
            if not e_rel < thr:
                r.fail("sizes:accuracy", "n=%d oversamp=%s: error %.3e >= %.3g (1-D, width 4)" % (n, os_, e_rel, thr))
            lhs = np.vdot(yv, y)
            rhs = np.vdot(z, x)
            if not abs(lhs - rhs) <= 1e-9 * (np.linalg.norm(yv) * np.linalg.norm(y) + np.linalg.norm(z) * np.linalg.norm(x) + 1e-300):
                r.fail("sizes:adjoint", "n=%d oversamp=%s: <y,Ax> - <A^H y,x> = %.3e" % (n, os_, abs(lhs - rhs)))
    r.notes["worst_ratio"] = worst
    r.notes["configs"] = nconf
    r.label("slice%d" % k)
    r.nontrivial = True
    r.sig = "sizes-slice-%d" % k
    return r


def extra_coverage(tier):
    return {"exhaustive_subdomains": ["nufft/nufft_adjoint 1-D, width 4: every axis length n in 1..%d x oversamp in %s "
                                      "(%d configurations, enumerated completely in every tier by part 'sizes')"
                                      % (N_SWEEP, OS_SWEEP, N_SWEEP * len(OS_SWEEP))]}


PARTS = [Part("nufft", check_case, {"quick": 6000, "thorough": 80000}, strategy=st_case),
         Part("sizes", check_sizes, {"quick": 48, "thorough": 48}, strategy=st_sizes, max_shards=1)]
