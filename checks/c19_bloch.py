"""C19 - Bloch simulators are unitary, compose, and invert the SLR pulse design.

Part ``sim``: one generated (rf, gradient, positions) triple is pushed through every
simulator (abrm, abrm with rewinder, abrm_nd, abrm_hp, optcont.blochsim 1-D and n-D,
abrm_ptx with / without sens and fmap):

  (a) |a|^2 + |b|^2 = 1 at every position                               (1e-10 * length)
  (b) zero RF  =>  b = 0 and a = the pure precession phase of that simulator
      (exactly the identity when there is no gradient / off-resonance at all)
  (c) sim(rf1 (+) rf2) = Q2 Q1 in the simulator's own Cayley-Klein parametrisation
  (d) abrm == abrm_nd with g = 2 pi / N

Conventions, read off the single-step updates (sim.py / optcont.py):

  abrm, abrm_nd   [a;b] <- [[av,-bv*],[bv,av*]] [a;b], start (1,0): (a,b) is the first COLUMN of
                  Q = [[a,-b*],[b,a*]] = Q_N..Q_1.  av = cos(phi/2) - i nz sin(phi/2): a free-precession step is
                  a <- a exp(-i om/2).  abrm uses the implicit gradient 2 pi / len(rf) per sample, so the two halves of
                  a split waveform are simulated at positions x * N_i / N.
  abrm_hp         step = phase (b <- b z, z = exp(-i(x g + d0))) then RF [[C,-S*],[S,C]]; the final factor
                  exp(+i/2 (x sum g + N d0)) = prod z^-1/2 turns every diag(1,z) into diag(z^-1/2, z^1/2) in SU(2):
                  same column form, zero-RF a = exp(+i/2 (x sum g + N d0)).
  blochsim        RF then phase, same final factor: same column form, zero-RF a = exp(+i/2 x.sum g).
  abrm_ptx        state <- [[al,be],[-be*,al*]] state, returns a = state_a, b = -conj(state_b): (a,b) is the first ROW
                  of U = [[a,b],[-b*,a*]] = U_N..U_1; al = cos + i nz sin: zero-RF a = exp(+i/2 dt gam (x.sum g + N 2 pi fmap/gam)).

Parts ``slr_dz`` / ``slr_rand``: rf = b2rf(beta polynomial) simulated with the hard-pulse simulators
(abrm_hp with gam*G*dt = 1 rad/sample/unit and blochsim; position x == frequency omega) must reproduce
|B(e^{i omega})| = |sum_n b_n e^{-i omega n}| on 513 frequencies, with a tolerance that depends on the margin to |B| = 1.
"""
import warnings

import numpy as np
from hypothesis import strategies as st

from vlib import arrays as A
from vlib.runner import Part, R

PROPERTY = "C19"
RULE = ("sim: Hypothesis draws length N (1..256, 80% <= 64), a split point, an RF family (complex gaussian / constant "
        "modulus / real / per-sample log-uniform 1e-3..2pi / sparse with exact zeros / constant) with amplitude "
        "10^[-3,0.9] rad per sample, a per-sample gradient family (gaussian / zero / constant / blips) on 1-3 axes, 1-64 "
        "positions in 1-3-D, off-resonance, coils / dwell / sens / fmap for abrm_ptx; every simulator is run on the whole "
        "waveform, on both halves and on the zero pulse. Oracles: unitarity, zero-pulse phase (identity when nothing "
        "precesses), SU(2) product of the halves in the simulator's own parametrisation, abrm == abrm_nd(g=2pi/N); all "
        "1e-10*N. slr_dz: each case evaluates ALL 25 ptype x ftype combinations of dzrf (5 generated (n,tb,d1,d2) sets "
        "assigned by a rotated latin square); slr_rand: random complex polynomials (n 2..64) scaled to max|B| in "
        "[0.05,0.999] on a 4096-point grid. Oracle: ||beta_sim(w)| - |B(e^{iw})|| <= tol(max|B|) on 513 frequencies for "
        "abrm_hp and blochsim; ptype='st' returns the filter itself. non-trivial: net flip 2 asin|b| > pi/2 at some "
        "position/frequency, or >= 2 spatial dims, or a random complex polynomial. distinct = distinct generated "
        "parameter signature.")
ASSUMPTIONS = [
    "CPU numpy backend, float64 / complex128 waveforms only",
    "argument layouts are the ones the code indexes (g[mm, :] -> g is [Nt, Ndim], x is [Ns, Ndim]; abrm/abrm_hp take 1-D x; "
    "abrm_ptx takes b1 [Nc, Nt], a perfect-square number of positions, sens [Nc, dim, dim], fmap [dim, dim] in Hz); the "
    "docstrings' 'g = [Ndim, Nt]' contradicts the indexing and is not used",
    "every waveform has >= 1 sample (abrm divides by len(rf)); composition needs N >= 2",
    "zero pulse: 'identity' is asserted exactly only when nothing precesses (g = 0, no fmap, dom0dt = 0); otherwise b = 0 "
    "and a equals the precession phase in the simulator's own sign convention",
    "inverse SLR is checked against the hard-pulse simulators only (abrm_hp, blochsim); abrm (simultaneous rotation) is "
    "not the model that ab2rf inverts",
    "dzrf domain: even n in 32..256 (dzls/firls need it), integer tb in {4,..,16}, d1, d2 in [1e-3, 0.03]: there every "
    "transition band is valid (dinf/tb < 1); larger d1 makes the renormalised |B| exceed 1 between the 16n grid points "
    "by more than the 3e-2 band covers (measured 2.1e-2 at d1 = 0.05)",
    "the reference beta of a dzrf design is bsf * filter designer called with calc_ripples' ripples (what dzrf's body does)",
    "tolerance bands for the round trip are accuracy statements of b2a's 16x padded log-spectrum (DESIGN.md C19): 1e-6 "
    "(max|B| <= 0.95), 1e-4 (<= 0.99), 3e-3 (<= 0.9999), 3e-2 above and where b2a renormalises max|B| >= 1",
    "cancel_alpha_phs=False for ptype 'ex'; for the other ptypes (where the docstring says it has no effect) it is also passed as True",
    "a dzrf call in which scipy.signal.remez reports 'Failure to converge' (seen once in 80 000 designs: "
    "dzrf(230, 6, 'inv', 'max', 0.00302, 0.001), 459-tap remez) yields no beta polynomial and is labelled, not failed",
]

GAM = 267.522 * 1e6 / 1000  # rad/s/mT, the constant abrm_ptx uses
PT = ("st", "ex", "se", "inv", "sat")
FT = ("ms", "pm", "min", "max", "ls")
RFK = ("gauss", "modulus", "real", "span", "sparse", "const")
GK = ("gauss", "gauss", "zero", "const", "blip")
NFREQ = 513
# Hypothesis often fills the tail of a case with each strategy's simplest value: the simplest value of every draw
# below is therefore a *typical* one (9 positions, 1 rad, ripple 0.01 ...), not a degenerate one.
NPOLY = [12] + [n for n in range(2, 65) if n != 12]
NS = [9, 1, 2, 3, 4, 5, 6, 7, 8, 10, 12, 16, 20, 25, 30, 36, 42, 49, 56, 64]


def _wrap(i, shift, size, lo):
    """bijection of 0..size-1 onto lo..lo+size-1 that sends 0 to lo+shift"""
    return lo + (i + shift) % size


# ------------------------------------------------------------------ helpers


def _call(r, key, fn):
    try:
        with warnings.catch_warnings():
            warnings.simplefilter("ignore")
            return True, r.twice(key, fn)
    except Exception as e:
        r.fail(key + ":raises", "%s: %s" % (type(e).__name__, e))
        return False, None


def comp_col(a2, b2, a1, b1):
    """first column of Q2 Q1, Q = [[a, -b*], [b, a*]]"""
    return a2 * a1 - np.conj(b2) * b1, b2 * a1 + np.conj(a2) * b1


def comp_row(a2, b2, a1, b1):
    """first row of U2 U1, U = [[a, b], [-b*, a*]]"""
    return a2 * a1 - b2 * np.conj(b1), a2 * b1 + b2 * np.conj(a1)


def mk_rf(spec, n):
    rng = np.random.default_rng(spec["seed"])
    amp = 10.0 ** spec["lamp"]
    k = spec["kind"]
    if k == "gauss":
        return amp * (rng.standard_normal(n) + 1j * rng.standard_normal(n)) / np.sqrt(2)
    if k == "modulus":
        return amp * np.exp(2j * np.pi * rng.uniform(size=n))
    if k == "real":
        return amp * rng.standard_normal(n)
    if k == "const":
        return np.full(n, amp * np.exp(2j * np.pi * rng.uniform()))
    mag = 10.0 ** rng.uniform(-3, np.log10(2 * np.pi + 0.5), size=n)
    v = mag * np.exp(2j * np.pi * rng.uniform(size=n))
    if k == "sparse":
        v = v * (rng.uniform(size=n) < 0.4)
    return v


def mk_g(spec, n, nd):
    rng = np.random.default_rng(spec["seed"])
    s = spec["scale"]
    k = spec["kind"]
    if k == "zero":
        return np.zeros((n, nd))
    if k == "const":
        return np.tile(s * rng.standard_normal(nd), (n, 1))
    g = s * rng.standard_normal((n, nd))
    if k == "blip":
        g = g * (rng.uniform(size=(n, 1)) < 0.25)
    return g


def mk_x(spec):
    rng = np.random.default_rng(spec["seed"])
    x = rng.uniform(-spec["xmax"], spec["xmax"], size=(spec["ns"], spec["nd"]))
    if spec["origin"]:
        x[0] = 0.0
    return x


def _note(r, k, q):
    """worst measured deviation / tolerance per sub-claim (diagnostics only)"""
    r.notes[k] = max(r.notes.get(k, 0.0), float(q))


def _flat(v):
    return np.asarray(v).reshape(-1)


def _suite(r, name, run, N, k, a_zero, identity, comp):
    """run(lo, hi, zero) -> (a, b) for samples lo:hi (zero: RF replaced by zeros). Returns (a, b) of the whole pulse."""
    tol = 1e-10 * N
    ok, ab = _call(r, name, lambda: run(0, N, False))
    if not ok:
        return None
    a, b = _flat(ab[0]), _flat(ab[1])
    if not (np.all(np.isfinite(a)) and np.all(np.isfinite(b))):
        r.fail(name + ":nonfinite", "a or b not finite")
        return None
    u = float(np.max(np.abs(np.abs(a) ** 2 + np.abs(b) ** 2 - 1)))
    _note(r, "unitary", u / tol)
    r.check(u <= tol, name + ":unitary", "max ||a|^2+|b|^2-1| = %.3e > %.1e (N=%d)" % (u, tol, N))
    ok, ab0 = _call(r, name + ":zero-rf", lambda: run(0, N, True))
    if ok:
        a0, b0 = _flat(ab0[0]), _flat(ab0[1])
        eb = float(np.max(np.abs(b0)))
        r.check(eb <= tol, name + ":zero-rf:b", "zero pulse gives max|b| = %.3e" % eb)
        ea = float(np.max(np.abs(a0 - a_zero)))
        _note(r, "zero-rf", max(ea, eb) / tol)
        r.check(ea <= tol, name + ":zero-rf:a", "zero pulse: max|a - expected precession phase| = %.3e (max||a|-1| = %.3e)"
                % (ea, float(np.max(np.abs(np.abs(a0) - 1)))))
        if identity:
            r.check(bool(np.all(a0 == 1) and np.all(b0 == 0)), name + ":zero-rf:identity",
                    "zero pulse, zero gradient: (a, b) != (1, 0) exactly; max|a-1| = %.3e" % float(np.max(np.abs(a0 - 1))))
    if k is not None and comp is not None:
        ok1, p1 = _call(r, name + ":part1", lambda: run(0, k, False))
        ok2, p2 = _call(r, name + ":part2", lambda: run(k, N, False))
        if ok1 and ok2:
            ac, bc = comp(_flat(p2[0]), _flat(p2[1]), _flat(p1[0]), _flat(p1[1]))
            e = float(max(np.max(np.abs(a - ac)), np.max(np.abs(b - bc))))
            _note(r, "compose", e / tol)
            r.check(e <= tol, name + ":compose", "sim(rf1+rf2) vs Q2 Q1: max deviation %.3e > %.1e (N=%d, split %d)"
                    % (e, tol, N, k))
    return a, b


# ------------------------------------------------------------------ part: simulators


@st.composite
def st_sim(draw):
    big = draw(st.integers(0, 4)) == 4
    N = draw(st.integers(65, 256)) if big else draw(st.integers(1, 64))
    k = draw(st.integers(1, N - 1)) if N >= 2 else None
    nd = draw(st.integers(1, 3))
    ns = draw(st.sampled_from(NS))
    return {
        "N": N, "k": k,
        "rf": {"kind": draw(st.sampled_from(RFK)), "lamp": _wrap(draw(st.integers(0, 39)), 30, 40, -30) / 10.0, "seed": draw(A.seeds)},
        "g": {"kind": draw(st.sampled_from(GK)), "scale": _wrap(draw(st.integers(0, 299)), 100, 300, 1) / 100.0, "seed": draw(A.seeds)},
        "x": {"ns": ns, "nd": nd, "xmax": _wrap(draw(st.integers(0, 79)), 30, 80, 1) / 10.0, "seed": draw(A.seeds),
              "origin": draw(st.booleans())},
        "dom0dt": draw(st.sampled_from([0.0, 0.0, 0.3, -0.45])),
        "ptx": {"nc": draw(st.integers(1, 3)), "dt": draw(st.sampled_from([1e-6, 2e-6, 4e-6, 1e-5])),
                "sens": draw(st.booleans()), "fmap": draw(st.sampled_from(["none", "none", "zero", "rand"])),
                "seed": draw(A.seeds)},
    }


def check_sim(case):
    from sigpy.mri.rf import sim, optcont
    r = R()
    N, k = case["N"], case["k"]
    rf = mk_rf(case["rf"], N)
    nd = case["x"]["nd"]
    g = mk_g(case["g"], N, nd)
    x = mk_x(case["x"])
    x1 = np.ascontiguousarray(x[:, 0])
    g1 = np.ascontiguousarray(g[:, 0])
    d0 = case["dom0dt"]
    gzero = not np.any(g)
    zrf = np.zeros(N, dtype=np.complex128)

    def wave(lo, hi, zero):
        return (zrf if zero else rf)[lo:hi].copy()

    # --- abrm: implicit gradient 2 pi / len(rf); halves at positions x * len / N
    ab_abrm = _suite(r, "abrm", lambda lo, hi, z: sim.abrm(wave(lo, hi, z), x1 * ((hi - lo) / N)),
                     N, k, np.exp(-1j * np.pi * x1), False, comp_col)
    _suite(r, "abrm-balanced", lambda lo, hi, z: sim.abrm(wave(lo, hi, z), x1.copy(), True),
           N, None, np.exp(-0.5j * np.pi * x1), False, None)
    # --- abrm_nd
    ab_nd = _suite(r, "abrm_nd", lambda lo, hi, z: sim.abrm_nd(wave(lo, hi, z), x.copy(), g[lo:hi].copy()),
                   N, k, np.exp(-0.5j * (x @ g.sum(0))), gzero, comp_col)
    # --- (d) abrm == abrm_nd with g = 2 pi / N
    if ab_abrm is not None:
        ok, ref = _call(r, "abrm-vs-nd", lambda: sim.abrm_nd(rf.copy(), x1[:, None].copy(),
                                                             np.full((N, 1), 2 * np.pi / N)))
        if ok:
            e = float(max(np.max(np.abs(ab_abrm[0] - _flat(ref[0]))), np.max(np.abs(ab_abrm[1] - _flat(ref[1])))))
            _note(r, "abrm-vs-nd", e / (1e-10 * N))
            r.check(e <= 1e-10 * N, "abrm-vs-nd", "abrm vs abrm_nd(g = 2pi/N): max deviation %.3e" % e)
    # --- abrm_hp (1-D)
    _suite(r, "abrm_hp", lambda lo, hi, z: sim.abrm_hp(wave(lo, hi, z), g1[lo:hi].copy(), x1.copy(), d0),
           N, k, np.exp(0.5j * (x1 * g1.sum() + N * d0)), gzero and d0 == 0, comp_col)
    # --- blochsim: 1-D gradient branch and n-D branch
    _suite(r, "blochsim-1d", lambda lo, hi, z: optcont.blochsim(wave(lo, hi, z), x1.copy(), g1[lo:hi].copy()),
           N, k, np.exp(0.5j * x1 * g1.sum()), gzero, comp_col)
    _suite(r, "blochsim-nd", lambda lo, hi, z: optcont.blochsim(wave(lo, hi, z), x.copy(), g[lo:hi].copy()),
           N, k, np.exp(0.5j * (x @ g.sum(0))), gzero, comp_col)
    # --- abrm_ptx: rotation per sample = dt*gam*|B|; waveforms are given in mT so that the same rotations result
    px = case["ptx"]
    dim = int(np.sqrt(x.shape[0]))
    nsq = dim * dim
    xq = np.ascontiguousarray(x[:nsq])
    dt = px["dt"]
    nc = px["nc"]
    prng = np.random.default_rng(px["seed"])
    b1 = np.stack([mk_rf(dict(case["rf"], seed=case["rf"]["seed"] + c), N) for c in range(nc)]) / (dt * GAM)
    if case["rf"]["kind"] == "real":
        b1 = b1.real
    zb1 = np.zeros((nc, N), dtype=np.complex128)
    gp = g / (dt * GAM)
    sens = None
    if px["sens"]:
        sens = (prng.standard_normal((nc, dim, dim)) + 1j * prng.standard_normal((nc, dim, dim))) / np.sqrt(2 * nc)
    fmap = None
    if px["fmap"] == "zero":
        fmap = np.zeros((dim, dim))
    elif px["fmap"] == "rand":
        fmap = prng.uniform(-300.0, 300.0, size=(dim, dim))
    frad = 0.0 if fmap is None else 2 * np.pi * dt * fmap.reshape(-1)      # rad per sample
    a_zero = np.exp(0.5j * (xq @ g.sum(0) + N * frad))
    pname = "abrm_ptx" + ("+sens" if sens is not None else "") + ("+fmap" if px["fmap"] == "rand" else "")

    def run_ptx(lo, hi, z):
        out = sim.abrm_ptx((zb1 if z else b1)[:, lo:hi].copy(), xq.copy(), gp[lo:hi].copy(), dt,
                           fmap=None if fmap is None else fmap.copy(), sens=None if sens is None else sens.copy())
        return out[0], out[1]

    _suite(r, pname, run_ptx, N, k, a_zero, gzero and px["fmap"] != "rand", comp_row)

    # --- labels / non-triviality
    flip = 0.0
    if ab_nd is not None:
        flip = float(np.max(2 * np.arcsin(np.minimum(np.abs(ab_nd[1]), 1.0))))
    amax = float(np.max(np.abs(rf)))
    r.label("nd%d" % nd, "rf:" + case["rf"]["kind"], "g:" + case["g"]["kind"], pname)
    r.label("N=1" if N == 1 else "N<=8" if N <= 8 else "N<=64" if N <= 64 else "N>64")
    r.label("amp<0.01" if amax < 0.01 else "amp<0.3" if amax < 0.3 else "amp<pi" if amax < np.pi else "amp>=pi")
    if flip > np.pi / 2:
        r.label("flip>pi/2")
    if d0 != 0:
        r.label("dom0dt")
    if x.shape[0] == 1:
        r.label("one-position")
    r.nontrivial = flip > np.pi / 2 or nd >= 2
    r.sig = "sim|%d|%s|%s|%s|%s|%s|%s|%s" % (N, k, sorted(case["rf"].items()), sorted(case["g"].items()),
                                              sorted(case["x"].items()), d0, sorted(px.items()), pname)
    return r


# ------------------------------------------------------------------ SLR round trip


def _resp(b):
    """B(e^{i w}) = sum_n b_n e^{-i w n} at w = linspace(-pi, pi, 513) (the 512-point DFT grid, end point repeated)."""
    f = np.fft.fftshift(np.fft.fft(b, NFREQ - 1))
    return np.concatenate([f, f[:1]])


def _band(gm, renorm):
    if renorm or gm > 0.9999:
        return "renorm" if renorm else "<1", 3e-2
    if gm <= 0.95:
        return "<=0.95", 1e-6
    if gm <= 0.99:
        return "<=0.99", 1e-4
    return "<=0.9999", 3e-3


def _ratio_label(q):
    return "err/tol<0.01" if q < 0.01 else "err/tol<0.1" if q < 0.1 else "err/tol<0.5" if q < 0.5 else \
        "err/tol<1" if q < 1 else "err/tol>=1"


def _roundtrip(r, key, what, pulse, b, gscale=1.0):
    """Simulate `pulse` with both hard-pulse simulators at x = omega / gscale and compare |beta| with |B(e^{i omega})|.
    Returns (band, worst err/tol, max |B_ref|)."""
    from sigpy.mri.rf import sim, optcont
    b = np.asarray(b).astype(np.complex128)
    n = len(b)
    om = np.linspace(-np.pi, np.pi, NFREQ)
    Bm = np.abs(_resp(b))
    code_max = float(np.max(np.abs(np.fft.fft(b, 16 * n))))       # the grid b2a looks at
    gm = max(code_max, float(Bm.max()), float(np.max(np.abs(np.fft.fft(b, 4096)))))
    renorm = code_max >= 1
    if renorm:
        Bm = Bm / (1e-7 + code_max)
    band, tol = _band(gm, renorm)
    pulse = np.asarray(pulse)
    if pulse.shape != (n,) or not np.all(np.isfinite(pulse)):
        r.fail(key + ":rf-shape-or-nonfinite", "%s: rf shape %s, finite %s" % (what, pulse.shape,
                                                                                bool(np.all(np.isfinite(pulse)))))
        return band, np.inf, gm
    worst = 0.0
    xx = om / gscale
    gw = np.full(n, float(gscale))
    for nm, fn in (("abrm_hp", lambda: sim.abrm_hp(pulse.copy(), gw.copy(), xx.copy())),
                   ("blochsim", lambda: optcont.blochsim(pulse.copy(), xx.copy(), gw.copy()))):
        ok, ab = _call(r, key + ":" + nm, fn)
        if not ok:
            continue
        e = float(np.max(np.abs(np.abs(_flat(ab[1])) - Bm)))
        if not np.isfinite(e):
            e = np.inf
        worst = max(worst, e / tol)
        _note(r, "roundtrip:" + band, e / tol)
        r.check(e <= tol, "%s:roundtrip:%s:%s" % (key, nm, band),
                "%s: max | |beta_sim| - |B| | = %.3e > %.1e (max|B| = %.6f, band %s, n = %d, max|rf| = %.3f)"
                % (what, e, tol, gm, band, n, float(np.max(np.abs(pulse)))))
    return band, worst, float(Bm.max())


@st.composite
def st_dz(draw):
    sets = []
    for _ in range(5):
        big = draw(st.integers(0, 3)) == 3
        n = 2 * (draw(st.integers(65, 128)) if big else draw(st.integers(16, 64)))
        sets.append({"n": n, "tb": draw(st.sampled_from([8, 4, 5, 6, 10, 12, 16])),
                     "d1": round(10.0 ** (_wrap(draw(st.integers(0, 147)), 100, 148, -300) / 100.0), 7),
                     "d2": round(10.0 ** (_wrap(draw(st.integers(0, 147)), 100, 148, -300) / 100.0), 7)})
    return {"sets": sets, "rot": draw(st.integers(0, 4))}


def check_dz(case):
    from sigpy.mri.rf import slr
    r = R()
    worst = 0.0
    flip = False
    for pi, p in enumerate(PT):
        for fi, f in enumerate(FT):
            s = case["sets"][(pi + fi + case["rot"]) % 5]
            n, tb, d1, d2 = s["n"], s["tb"], s["d1"], s["d2"]
            what = "dzrf(%d, %s, %r, %r, %r, %r)" % (n, tb, p, f, d1, d2)
            try:
                with warnings.catch_warnings():
                    warnings.simplefilter("ignore")
                    if p != "ex" and (n + fi + pi) % 3 == 0:
                        # the flag is documented to act on ptype 'ex' only: the design must not depend on it otherwise
                        pulse = slr.dzrf(n, tb, p, f, d1, d2, True)
                    else:
                        pulse = slr.dzrf(n, tb, p, f, d1, d2)
            except Exception as e:
                if isinstance(e, ValueError) and "Failure to converge" in str(e) and f in ("pm", "min", "max"):
                    # scipy.signal.remez gave up (long equiripple filters): no beta polynomial exists to quantify over
                    r.label("dz:remez-no-converge")
                else:
                    r.fail("slr:dz:dzrf:raises", "%s: %s: %s" % (what, type(e).__name__, e))
                continue
            bsf, e1, e2 = slr.calc_ripples(p, d1, d2)
            des = {"ms": lambda: slr.msinc(n, tb / 4), "pm": lambda: slr.dzlp(n, tb, e1, e2),
                   "min": lambda: slr.dzmp(n, tb, e1, e2)[::-1], "max": lambda: slr.dzmp(n, tb, e1, e2),
                   "ls": lambda: slr.dzls(n, tb, e1, e2)}[f]
            ok, h = _call(r, "slr:dz:designer", des)
            if not ok:
                continue
            h = np.asarray(h)
            r.label("%s/%s" % (p, f))
            if p == "st":
                r.check(np.shape(pulse) == h.shape and np.array_equal(np.asarray(pulse), h), "slr:dz:st-is-filter",
                        "%s does not return the filter itself" % what)
                continue
            band, q, bmax = _roundtrip(r, "slr:dz", what, pulse, bsf * h)
            r.label("dz:" + band, "dz:" + _ratio_label(q))
            worst = max(worst, q)
            flip = flip or bmax > np.sqrt(0.5)
    r.notes["worst_ratio"] = worst
    r.nontrivial = flip
    r.sig = "dz|%s|%d" % ([sorted(s.items()) for s in case["sets"]], case["rot"])
    return r


@st.composite
def st_rand(draw):
    n = draw(st.sampled_from(NPOLY))
    if draw(st.sampled_from([False] * 9 + [True])):
        n = draw(st.sampled_from([129, 150, 200, 256]))       # long polynomials (RF length goes up to 256)
    kind = draw(st.sampled_from(["white", "hann", "sinc", "decay"]))
    target = draw(st.one_of(st.sampled_from([900, 999, 995, 990, 997, 980, 950, 985, 500, 50, 200, 700]),
                            st.integers(50, 950), st.integers(950, 999))) / 1000.0
    return {"n": n, "kind": kind, "seed": draw(A.seeds), "target": target,
            "gscale": draw(st.sampled_from([1.0, 1.0, 0.5, 2.0, -1.0]))}


def mk_poly(case):
    n = case["n"]
    rng = np.random.default_rng(case["seed"])
    k = case["kind"]
    if k == "sinc":    # band-pass: windowed sinc moved off DC by a random modulation (complex coefficients)
        b = np.sinc(np.linspace(-rng.uniform(1, 4), rng.uniform(1, 4), n)) * np.hamming(n) \
            * np.exp(1j * rng.uniform(-np.pi, np.pi) * np.arange(n))
    else:
        b = rng.standard_normal(n) + 1j * rng.standard_normal(n)
        if k == "hann":
            b = b * np.hanning(n + 2)[1:-1]
        elif k == "decay":
            b = b * np.exp(-rng.uniform(0.05, 1.0) * np.arange(n))
    mx = float(np.max(np.abs(np.fft.fft(b, 4096))))
    return b / mx * case["target"]


def check_rand(case):
    from sigpy.mri.rf import slr
    r = R()
    b = mk_poly(case)
    b0 = b.copy()
    ok, pulse = _call(r, "slr:rand:b2rf", lambda: slr.b2rf(b))
    if ok:
        band, q, bmax = _roundtrip(r, "slr:rand", "b2rf(%s polynomial, n=%d, target %.4f)"
                                   % (case["kind"], case["n"], case["target"]), pulse, b0, case["gscale"])
        r.label("rand:" + band, "rand:" + _ratio_label(q), "rand:" + case["kind"], "gscale=%s" % case["gscale"])
        if bmax > np.sqrt(0.5):
            r.label("rand:flip>pi/2")
        r.notes["worst_ratio"] = q
    r.label("n<=4" if case["n"] <= 4 else "n<=16" if case["n"] <= 16 else "n>16")
    r.nontrivial = True
    r.sig = "rand|%d|%s|%d|%r|%s" % (case["n"], case["kind"], case["seed"], case["target"], case["gscale"])
    return r


PARTS = [
    Part("sim", check_sim, {"quick": 3600, "thorough": 40000}, strategy=st_sim),
    Part("slr_dz", check_dz, {"quick": 192, "thorough": 3200}, strategy=st_dz,
         shrink={"quick": False, "thorough": False}),
    Part("slr_rand", check_rand, {"quick": 2400, "thorough": 30000}, strategy=st_rand),
]
