"""C07 demo: sigpy.interpolate / sigpy.gridding against an independent
dense reference built directly from the documented definition.

Exit status 0 iff every check passes.
"""
import itertools
import sys

import numpy as np
import scipy.special

import sigpy as sp

FAILS = []


# ----------------------------------------------------------------------------
# independent reference
# ----------------------------------------------------------------------------
def ref_spline(u, order):
    a = abs(u)
    if a > 1:
        return 0.0
    if order == 0:
        return 1.0
    if order == 1:
        return 1.0 - a
    if order == 2:
        if a > 1 / 3:
            return 9 / 8 * (1 - a) ** 2
        return 3 / 4 * (1 - 3 * u * u)
    raise ValueError(order)


def ref_i0_as(x):
    """Abramowitz & Stegun 9.8.1 / 9.8.2 (the documented approximation)."""
    t = x / 3.75
    if x < 3.75:
        c = [1.0, 3.5156229, 3.0899424, 1.2067492, 0.2659732, 0.0360768,
             0.0045813]
        return sum(ck * t ** (2 * k) for k, ck in enumerate(c))
    c = [0.39894228, 0.01328592, 0.00225319, -0.00157565, 0.00916281,
         -0.02057706, 0.02635537, -0.01647633, 0.00392377]
    return np.exp(x) / np.sqrt(x) * sum(ck / t ** k for k, ck in enumerate(c))


def ref_kb(u, beta, exact=False):
    if abs(u) > 1:
        return 0.0
    x = beta * np.sqrt(1 - u * u)
    if exact:
        return float(scipy.special.i0(x))
    return float(ref_i0_as(x))


def ref_matrix(grid_shape, coord, kernel, width, param, exact_i0=False):
    """Dense [npts, prod(grid_shape)] matrix of the documented kernel sums."""
    ndim = len(grid_shape)
    cdt = coord.dtype
    # width / param are stored in the coordinate dtype by the library
    if np.isscalar(width):
        width = [width] * ndim
    if np.isscalar(param):
        param = [param] * ndim
    width = [float(np.array(w, cdt)) for w in width]
    param = [float(np.array(p, cdt)) for p in param]
    c = coord.reshape(-1, ndim).astype(np.float64)
    A = np.zeros((c.shape[0], int(np.prod(grid_shape))))
    for j in range(c.shape[0]):
        axes = []
        for d in range(ndim):
            k = c[j, d]
            hw = width[d] / 2
            lo = int(np.ceil(k - hw))
            hi = int(np.floor(k + hw))
            lst = []
            for i in range(lo, hi + 1):
                u = (i - k) / hw
                if kernel == "spline":
                    w = ref_spline(u, param[d])
                else:
                    w = ref_kb(u, param[d], exact=exact_i0)
                lst.append((i % grid_shape[d], w))
            axes.append(lst)
        for combo in itertools.product(*axes):
            idx = tuple(ci[0] for ci in combo)
            w = 1.0
            for ci in combo:
                w *= ci[1]
            A[j, np.ravel_multi_index(idx, grid_shape)] += w
    return A


def rel_err(a, b):
    a = np.asarray(a)
    b = np.asarray(b)
    scale = max(np.max(np.abs(b)) if b.size else 0.0, 1e-300)
    return (np.max(np.abs(a - b)) if b.size else 0.0) / scale


def check(name, got, want, tol):
    if got.shape != want.shape:
        FAILS.append("%s: shape %s != %s" % (name, got.shape, want.shape))
        return
    e = rel_err(got, want)
    if not e <= tol:
        FAILS.append("%s: rel err %.3e > %.1e" % (name, e, tol))


# ----------------------------------------------------------------------------
# cases
# ----------------------------------------------------------------------------
rng = np.random.RandomState(20240607)


def make_coords(grid_shape, rng):
    ndim = len(grid_shape)
    n = np.array(grid_shape, float)
    pts = []
    pts.append(rng.uniform(-0.5, 1.5, (6, ndim)) * n)           # fractional
    pts.append(rng.randint(-3, 9, (4, ndim)).astype(float))     # integers
    pts.append(rng.randint(-3, 9, (4, ndim)) + 0.5)             # half-ints
    pts.append(-rng.uniform(0, 7, (3, ndim)))                   # negative
    pts.append(rng.uniform(-1, 1, (2, ndim)) * 1000.0 + 0.25)   # far outside
    c = np.concatenate(pts)
    c = np.concatenate([c, c[:3], c[:1]])                       # duplicates
    return c


def rand(shape, dtype, rng):
    x = rng.standard_normal(shape)
    if np.issubdtype(dtype, np.complexfloating):
        x = x + 1j * rng.standard_normal(shape)
    return x.astype(dtype)


GRIDS = [(7,), (1,), (2,), (5, 4), (1, 6), (3, 1), (4, 3, 5), (1, 2, 1),
         (2, 1, 3)]
KERNEL_CFGS = [
    ("spline", 0), ("spline", 1), ("spline", 2),
    ("kaiser_bessel", 0.5), ("kaiser_bessel", 2.34), ("kaiser_bessel", 5.2),
    ("kaiser_bessel", 13.9085),
]
WIDTHS_SCALAR = [1, 2, 3, 4, 2.5, 0.7, 5.25]
BATCHES = [(), (2,), (1, 3)]


def per_axis(vals, ndim, k):
    return tuple(vals[(k + d) % len(vals)] for d in range(ndim))


def run_case(grid, batch, kernel, param, width, dtype, cdtype, tag,
             variant=None):
    ndim = len(grid)
    coord = make_coords(grid, rng).astype(cdtype)
    if cdtype == np.float32:
        # keep float32 coordinates away from window-edge ambiguity: they are
        # exactly representable halves / integers / generic fractions already
        pass
    tol = 1e-5 if (np.dtype(dtype).itemsize // (
        2 if np.issubdtype(dtype, np.complexfloating) else 1) == 4) else 1e-11
    A = ref_matrix(grid, coord, kernel, width, param)

    x = rand(batch + grid, dtype, rng)
    y = rand(batch + (coord.shape[0],), dtype, rng)
    cc = coord
    if variant == "noncontig":
        xbig = rand(batch + tuple(2 * g for g in grid), dtype, rng)
        x = xbig[(Ellipsis,) + tuple(slice(None, None, 2) for _ in grid)]
        cbig = np.zeros((coord.shape[0], 2 * ndim), cdtype)
        cbig[:, ::2] = coord
        cc = cbig[:, ::2]
        ybig = rand(batch + (2 * coord.shape[0],), dtype, rng)
        y = ybig[..., ::2]
        assert not cc.flags.c_contiguous or ndim == 1
    elif variant == "readonly":
        x.setflags(write=False)
        y.setflags(write=False)
        cc = coord.copy()
        cc.setflags(write=False)
    elif variant == "ptsshape":
        # coordinate array with a 2-d point shape
        assert coord.shape[0] % 2 == 0 or True
        npts = coord.shape[0] - coord.shape[0] % 2
        cc = coord[:npts].reshape(2, npts // 2, ndim)
        A = A[:npts]
        y = np.ascontiguousarray(y[..., :npts]).reshape(
            batch + (2, npts // 2))

    x0 = np.array(x)
    y0 = np.array(y)

    out = sp.interpolate(x, cc, kernel=kernel, width=width, param=param)
    want = (x0.reshape(-1, A.shape[1]).astype(np.complex128) @ A.T)
    want = want.reshape(batch + cc.shape[:-1])
    if out.dtype != np.dtype(dtype):
        FAILS.append("%s interp dtype %s" % (tag, out.dtype))
    check(tag + " interp", out.astype(np.complex128), want, tol)

    g = sp.gridding(y, cc, batch + grid, kernel=kernel, width=width,
                    param=param)
    wantg = (y0.reshape(-1, A.shape[0]).astype(np.complex128) @ A)
    wantg = wantg.reshape(batch + grid)
    if g.dtype != np.dtype(dtype):
        FAILS.append("%s grid dtype %s" % (tag, g.dtype))
    check(tag + " grid", g.astype(np.complex128), wantg, tol)

    # inputs untouched
    if not (np.array_equal(x, x0) and np.array_equal(y, y0)):
        FAILS.append(tag + " inputs modified")

    # repeated call gives the same answer (no state)
    out2 = sp.interpolate(x, cc, kernel=kernel, width=width, param=param)
    g2 = sp.gridding(y, cc, batch + grid, kernel=kernel, width=width,
                     param=param)
    if not (np.array_equal(out, out2) and np.array_equal(g, g2)):
        FAILS.append(tag + " repeated call differs")

    # transpose identity <interp(x), y> == <x, gridding(y)> (bilinear form)
    lhs = np.sum(out.astype(np.complex128) * y0)
    rhs = np.sum(x0 * g.astype(np.complex128))
    if abs(lhs - rhs) > 50 * tol * max(abs(lhs), abs(rhs), 1.0):
        FAILS.append("%s transpose identity %r %r" % (tag, lhs, rhs))


count = 0
for gi, grid in enumerate(GRIDS):
    ndim = len(grid)
    for ki, (kernel, param) in enumerate(KERNEL_CFGS):
        for wi, width in enumerate(WIDTHS_SCALAR):
            # keep 3-d cost bounded
            if ndim == 3 and width > 4:
                continue
            sel = (gi + ki + wi) % 4
            batch = BATCHES[(gi + wi) % len(BATCHES)]
            dtype = [np.float64, np.complex128, np.complex64,
                     np.float32][sel]
            cdtype = np.float32 if (gi + ki + wi) % 5 == 0 else np.float64
            variant = [None, "noncontig", "readonly", "ptsshape", None][
                (gi * 3 + ki + wi) % 5]
            tag = "grid=%s batch=%s %s/%s w=%s %s c=%s %s" % (
                grid, batch, kernel, param, width, np.dtype(dtype).name,
                np.dtype(cdtype).name, variant)
            run_case(grid, batch, kernel, param, width, dtype, cdtype, tag,
                     variant)
            count += 1

# per-axis widths and parameters (integer and fractional)
for grid in [(5, 4), (1, 6), (4, 3, 5), (2, 1, 3)]:
    ndim = len(grid)
    for k in range(4):
        width = per_axis([2, 3.5, 1, 4, 1.5], ndim, k)
        for kernel, params in [("spline", [0, 1, 2]),
                               ("kaiser_bessel", [1.5, 6.0, 9.7])]:
            param = per_axis(params, ndim, k)
            if k % 2:
                width = list(width)
                param = np.array(param, float)
            dtype = [np.complex128, np.float64][k % 2]
            tag = "per-axis grid=%s %s param=%s width=%s" % (
                grid, kernel, param, width)
            run_case(grid, BATCHES[k % 3], kernel, param, width, dtype,
                     np.float64, tag, [None, "readonly"][k % 2])
            count += 1

# numpy scalar width / param
run_case((6,), (2,), "spline", np.float64(1), np.int64(3), np.float64,
         np.float64, "np scalar args")
run_case((6, 3), (), "kaiser_bessel", np.float32(4.5), np.float64(2.5),
         np.complex128, np.float64, "np scalar args 2")
count += 2

# Kaiser-Bessel really is I0 (to the documented approximation accuracy)
grid = (9,)
coord = make_coords(grid, rng)
for beta in [0.3, 2.0, 3.74, 3.76, 8.0, 20.0]:
    A = ref_matrix(grid, coord, "kaiser_bessel", 4.5, beta, exact_i0=True)
    x = rand(grid, np.float64, rng)
    out = sp.interpolate(x, coord, kernel="kaiser_bessel", width=4.5,
                         param=beta)
    check("kb true I0 beta=%s" % beta, out, A @ x, 2e-6)
    count += 1

# the upstream unit-test example (linear spline on a delta)
x = np.array([0, 1.0, 0])
c = np.array([[0.1], [1.1], [2.1]])
check("delta", sp.interpolate(x, c, width=2), np.array([0.1, 0.9, 0.0]),
      1e-12)
check("delta grid", sp.gridding(np.array([1.0, 0, 0]), c, [3], width=2),
      np.array([0.9, 0.1, 0.0]), 1e-12)

# coincident + wrapped contributions add
c = np.array([[0.0], [0.0], [5.0], [-5.0], [0.25]])
g = sp.gridding(np.ones(5), c, [5], kernel="spline", width=2, param=1)
check("coincident", g, np.array([4.75, 0.25, 0, 0, 0.0]), 1e-12)

# empty coordinate set
out = sp.interpolate(np.ones((2, 4)), np.zeros((0, 1)), width=2)
if out.shape != (2, 0):
    FAILS.append("empty interp shape %s" % (out.shape,))
g = sp.gridding(np.ones((2, 0)), np.zeros((0, 1)), (2, 4), width=2)
if g.shape != (2, 4) or np.any(g != 0):
    FAILS.append("empty gridding")

if FAILS:
    print("FAILED (%d problems, %d cases)" % (len(FAILS), count))
    for f in FAILS[:40]:
        print("  ", f)
    sys.exit(1)
print("OK: %d cases" % count)
sys.exit(0)
