"""C11 demo: every proximal operator returns the exact minimiser, in the
input's shape.  Independent references are closed forms written directly in
numpy (never calling sigpy.thresh), a bisection for the l1 ball, a polar
decomposition (SVD) for the PSD cone, and the variational inequality /
objective comparisons that characterise a minimiser.

Exit status 0 iff every check passes.
"""
import sys
import warnings

import numpy as np

import sigpy as sp
from sigpy import prox, thresh

# the numba soft-threshold kernel evaluates 0/0 on exact zeros before
# discarding it; the result is correct, the warning is noise here
warnings.filterwarnings("ignore", message="invalid value encountered",
                        category=RuntimeWarning)

FAILS = []
NCHECK = [0]


def tol_of(dtype):
    return 2e-5 if np.dtype(dtype) in (np.float32, np.complex64) else 1e-11


def check(cond, msg):
    NCHECK[0] += 1
    if not cond:
        FAILS.append(msg)
        if len(FAILS) <= 40:
            print("FAIL:", msg)


def close(a, b, tol, scale=None):
    a = np.asarray(a)
    b = np.asarray(b)
    if a.shape != b.shape:
        return False
    if scale is None:
        scale = max(1.0, float(np.max(np.abs(b))) if b.size else 1.0)
    if a.size == 0:
        return True
    return bool(np.max(np.abs(a - b)) <= tol * scale)


def rand(rng, shape, dtype):
    dtype = np.dtype(dtype)
    x = rng.standard_normal(shape)
    if dtype.kind == "c":
        x = x + 1j * rng.standard_normal(shape)
    return x.astype(dtype)


def variants(rng, shape, dtype):
    """The same kind of data presented in several memory layouts."""
    y = rand(rng, shape, dtype)
    yield "contig", y
    # non-contiguous: a strided view of a larger array
    big = rand(rng, tuple(2 * s for s in shape), dtype)
    yield "strided", big[tuple(slice(None, None, 2) for _ in shape)]
    if len(shape) >= 2:
        yield "transposed", np.ascontiguousarray(rand(rng, shape[::-1], dtype)).T
    ro = rand(rng, shape, dtype)
    ro.setflags(write=False)
    yield "readonly", ro
    yield "zeros", np.zeros(shape, dtype)


# ----------------------------------------------------------------------
# independent references
# ----------------------------------------------------------------------
def ref_soft(lam, y):
    a = np.abs(y)
    with np.errstate(divide="ignore", invalid="ignore"):
        sgn = np.where(a > 0, y / np.where(a > 0, a, 1), 0)
    return np.maximum(a - lam, 0) * sgn


def ref_l2_proj(eps, y, axes=None):
    if axes is None:
        axes = tuple(range(y.ndim))
    axes = tuple(a % y.ndim for a in axes)
    n = np.sqrt(np.sum(np.abs(y.astype(np.complex128)) ** 2, axis=axes,
                       keepdims=True))
    scale = np.where(n <= eps, 1.0, eps / np.where(n > 0, n, 1))
    return y * scale


def ref_linf_proj(eps, y, bias=None):
    if bias is None:
        bias = 0
    d = y - bias
    a = np.abs(d)
    scale = np.where(a <= eps, 1.0, eps / np.where(a > 0, a, 1))
    return d * scale + bias


def ref_l1_proj(eps, y):
    a = np.abs(y).astype(np.float64)
    if a.sum() <= eps:
        return y
    lo, hi = 0.0, float(a.max())
    for _ in range(200):
        mid = 0.5 * (lo + hi)
        if np.maximum(a - mid, 0).sum() > eps:
            lo = mid
        else:
            hi = mid
    return ref_soft(0.5 * (lo + hi), y)


def ref_psd_proj(y):
    h = (y + y.conj().T) / 2
    h = h.astype(np.complex128 if np.iscomplexobj(h) else np.float64)
    u, s, vh = np.linalg.svd(h)
    absh = (vh.conj().T * s) @ vh  # |H| = (H^2)^(1/2)
    return (h + absh) / 2


def vi_check(name, y, x, feasible_points, tol):
    """x = proj_C(y)  <=>  Re<y - x, c - x> <= 0 for all c in C."""
    y = np.asarray(y)
    sc = max(1.0, float(np.linalg.norm(y.ravel())) ** 2)
    for c in feasible_points:
        v = np.real(np.vdot((y - x).ravel(), (c - x).ravel()))
        check(v <= 10 * tol * sc, "%s: variational inequality violated (%g)"
              % (name, v))


def objective_check(name, obj, x, rng, tol):
    """x minimises a strongly convex objective: no perturbation does better."""
    f0 = obj(x)
    for s in (1e-3, 1e-1, 1.0):
        for _ in range(4):
            d = rand(rng, x.shape, x.dtype) * s
            check(obj(x + d) >= f0 - 10 * tol * max(1.0, abs(f0)),
                  "%s: perturbation lowers the objective" % name)


def run_prox(name, P, alpha, y, ref, tol, check_dtype=True):
    y0 = y.copy()
    out = P(alpha, y)
    check(out.shape == y.shape, "%s: shape %s != %s" % (name, out.shape, y.shape))
    check(np.array_equal(y, y0), "%s: input was modified" % name)
    if check_dtype and np.iscomplexobj(y):
        check(np.iscomplexobj(out), "%s: complex input gave real output" % name)
    check(close(out, ref, tol), "%s: value differs from reference (max err %g)"
          % (name, np.max(np.abs(np.asarray(out) - ref)) if out.shape == np.shape(ref) and out.size else -1))
    # repeated call on the same object gives the same answer
    out2 = P(alpha, y)
    check(np.array_equal(np.asarray(out), np.asarray(out2)),
          "%s: repeated call differs" % name)
    return out


SHAPES = [(1,), (5,), (7,), (1, 1), (3, 1), (1, 4), (3, 5), (2, 3, 4),
          (1, 3, 1), (5, 1, 2)]
DTYPES = [np.float32, np.float64, np.complex64, np.complex128]
ALPHAS = [0.25, 1, 1.0, 3.7]


def test_l1reg_l2reg(rng):
    for shape in SHAPES:
        for dtype in DTYPES:
            tol = tol_of(dtype)
            for lay, y in variants(rng, shape, dtype):
                for alpha in ALPHAS:
                    lam = float(rng.uniform(0.1, 2))
                    nm = "L1Reg%s/%s/%s/a=%s" % (shape, np.dtype(dtype), lay, alpha)
                    x = run_prox(nm, prox.L1Reg(shape, lam), alpha, y,
                                 ref_soft(lam * alpha, y), tol)
                    if x.shape == y.shape:
                        objective_check(
                            nm, lambda v: 0.5 * np.sum(np.abs(v - y) ** 2)
                            + alpha * lam * np.sum(np.abs(v)), x, rng, tol)
                    # points exactly on the threshold map to zero
                    yt = np.full(shape, lam * alpha, dtype)
                    check(close(prox.L1Reg(shape, lam)(alpha, yt), 0 * yt, tol),
                          nm + ": on-threshold point not mapped to 0")

                    # L2Reg, with bias, with inner prox
                    z = rand(rng, shape, dtype)
                    nm = "L2Reg%s/%s/%s/a=%s" % (shape, np.dtype(dtype), lay, alpha)
                    run_prox(nm, prox.L2Reg(shape, lam), alpha, y,
                             y / (1 + lam * alpha), tol)
                    run_prox(nm + "/bias", prox.L2Reg(shape, lam, y=z), alpha, y,
                             (y + lam * alpha * z) / (1 + lam * alpha), tol)
                    mu = float(rng.uniform(0.1, 1.5))
                    refv = ref_soft(alpha * mu / (1 + lam * alpha),
                                    (y + lam * alpha * z) / (1 + lam * alpha))
                    x = run_prox(nm + "/proxh",
                                 prox.L2Reg(shape, lam, y=z,
                                            proxh=prox.L1Reg(shape, mu)),
                                 alpha, y, refv, tol)
                    if x.shape == y.shape:
                        objective_check(
                            nm + "/proxh",
                            lambda v: 0.5 * np.sum(np.abs(v - y) ** 2)
                            + alpha * (lam / 2 * np.sum(np.abs(v - z) ** 2)
                                       + mu * np.sum(np.abs(v))), x, rng, tol)


def axes_options(ndim):
    opts = [None, tuple(range(ndim)), (-1,), (0,)]
    if ndim >= 2:
        opts += [(0, -1), (-1, 0), (1,), (-2,)]
    if ndim >= 3:
        opts += [(0, 2), (-3, -1), (1, 2)]
    opts.append(())
    return opts


def test_l2proj(rng):
    for shape in SHAPES:
        for dtype in DTYPES:
            tol = tol_of(dtype)
            for lay, y in variants(rng, shape, dtype):
                for axes in axes_options(len(shape)):
                    for eps in (0.3, 1, 2.5, 1e3):
                        nm = "L2Proj%s/%s/%s/axes=%s/eps=%s" % (
                            shape, np.dtype(dtype), lay, axes, eps)
                        ref = ref_l2_proj(eps, y, axes)
                        out = thresh.l2_proj(eps, y, axes)
                        check(out.shape == y.shape, nm + ": thresh shape")
                        check(close(out, ref, tol), nm + ": thresh value")
                        x = run_prox(nm, prox.L2Proj(shape, eps, axes=axes), 1.3,
                                     y, ref, tol)
                        # idempotent
                        x2 = prox.L2Proj(shape, eps, axes=axes)(0.2, x)
                        check(close(x2, x, tol), nm + ": not idempotent")
                        # feasibility of the result
                        ax = tuple(range(y.ndim)) if axes is None else axes
                        nrm = np.sqrt(np.sum(np.abs(x) ** 2, axis=ax))
                        check(np.all(nrm <= eps * (1 + 10 * tol)), nm + ": infeasible")
                        # with a bias term
                        b = rand(rng, shape, dtype)
                        run_prox(nm + "/bias",
                                 prox.L2Proj(shape, eps, y=b, axes=axes), 1.0, y,
                                 ref_l2_proj(eps, y - b, axes) + b, tol)
                # strictly interior / feasible input is returned unchanged
                yf = rand(rng, shape, dtype)
                yf = (yf / max(1e-3, np.linalg.norm(yf.ravel())) * 0.5).astype(dtype)
                out = prox.L2Proj(shape, 1.0)(1.0, yf)
                check(np.array_equal(out, yf), "L2Proj feasible input changed %s %s"
                      % (shape, np.dtype(dtype)))
                # exactly on the boundary: norm == eps (3-4-5 triangle)
                if int(np.prod(shape)) >= 2:
                    yb = np.zeros(shape, dtype)
                    yb.flat[0] = 3
                    yb.flat[-1] = 4
                    out = prox.L2Proj(shape, 5.0)(1.0, yb)
                    check(close(out, yb, tol), "L2Proj boundary point moved")
                    out = prox.L2Proj(shape, 2.5)(1.0, yb)
                    check(close(out, yb / 2, tol), "L2Proj 3-4-5 halving")
                # array-valued eps broadcasting along the kept axis
                if len(shape) == 2:
                    e = rng.uniform(0.2, 2.0, size=(shape[0], 1))
                    yv = rand(rng, shape, dtype)
                    out = thresh.l2_proj(e, yv, axes=(-1,))
                    ref = np.concatenate(
                        [ref_l2_proj(e[i, 0], yv[i:i + 1], (-1,))
                         for i in range(shape[0])], axis=0)
                    check(close(out, ref, tol), "l2_proj array eps")
                # variational inequality
                yv = rand(rng, shape, dtype) * 3
                x = prox.L2Proj(shape, 1.0)(1.0, yv)
                cs = []
                for _ in range(5):
                    c = rand(rng, shape, dtype)
                    cs.append(c / max(1.0, np.linalg.norm(c.ravel())) * rng.uniform(0, 1))
                if x.shape == yv.shape:
                    vi_check("L2Proj%s" % (shape,), yv, x, cs, tol)


def test_linf_l1_box(rng):
    for shape in SHAPES:
        for dtype in DTYPES:
            tol = tol_of(dtype)
            for lay, y in variants(rng, shape, dtype):
                for eps in (0.2, 1, 1.7, 50.0):
                    nm = "LInfProj%s/%s/%s/eps=%s" % (shape, np.dtype(dtype), lay, eps)
                    x = run_prox(nm, prox.LInfProj(shape, eps), 0.7, y,
                                 ref_linf_proj(eps, y), tol)
                    check(close(prox.LInfProj(shape, eps)(2.0, x), x, tol),
                          nm + ": not idempotent")
                    b = rand(rng, shape, dtype)
                    run_prox(nm + "/bias", prox.LInfProj(shape, eps, bias=b), 0.7,
                             y, ref_linf_proj(eps, y, b), tol)

                    nm = "L1Proj%s/%s/%s/eps=%s" % (shape, np.dtype(dtype), lay, eps)
                    x = run_prox(nm, prox.L1Proj(shape, eps), 0.7, y,
                                 ref_l1_proj(eps, y), tol)
                    if x.shape == y.shape:
                        check(np.sum(np.abs(x)) <= eps * (1 + 10 * tol) + 10 * tol,
                              nm + ": infeasible")
                        check(close(prox.L1Proj(shape, eps)(2.0, x), x, 10 * tol),
                              nm + ": not idempotent")
                        cs = []
                        for _ in range(4):
                            c = rand(rng, shape, dtype)
                            cs.append(c / max(1.0, np.sum(np.abs(c))) * eps
                                      * rng.uniform(0, 1))
                        vi_check(nm, y, x, cs, tol)
                # feasible input to the l1 ball comes back unchanged, same shape
                yf = rand(rng, shape, dtype)
                yf = (yf / max(1e-3, np.sum(np.abs(yf))) * 0.5).astype(dtype)
                out = prox.L1Proj(shape, 1.0)(1.0, yf)
                check(out.shape == yf.shape and np.array_equal(out, yf),
                      "L1Proj feasible input changed %s" % (shape,))
                out = thresh.l1_proj(1.0, yf)
                check(out.shape == yf.shape and np.array_equal(out, yf),
                      "l1_proj feasible input changed %s" % (shape,))
                # ties
                yt = np.full(shape, 2.0, dtype)
                n = yt.size
                out = prox.L1Proj(shape, 1.0)(1.0, yt)
                check(close(out, np.full(shape, 1.0 / n), 10 * tol), "L1Proj ties")

            # box constraints (real data)
            if np.dtype(dtype).kind == "f":
                for lay, y in variants(rng, shape, dtype):
                    lo, hi = -0.3, 0.8
                    run_prox("Box%s/%s" % (shape, lay),
                             prox.BoxConstraint(shape, lo, hi), 1.0, y,
                             np.minimum(np.maximum(y, lo), hi), tol_of(dtype))
                    loa = rand(rng, shape, dtype) - 2
                    hia = loa + np.abs(rand(rng, shape, dtype))
                    x = run_prox("BoxArr%s/%s" % (shape, lay),
                                 prox.BoxConstraint(shape, loa, hia), 1.0, y,
                                 np.minimum(np.maximum(y, loa), hia), tol_of(dtype))
                    check(np.array_equal(prox.BoxConstraint(shape, loa, hia)(1, x), x),
                          "Box not idempotent")
                    run_prox("NoOp", prox.NoOp(shape), 1.0, y, y, 0.0)


def random_psd_input(rng, n, dtype, kind):
    dtype = np.dtype(dtype)
    q = rand(rng, (n, n), np.complex128 if dtype.kind == "c" else np.float64)
    q, _ = np.linalg.qr(q)
    if kind == "generic":
        w = rng.standard_normal(n)
        m = (q * w) @ q.conj().T
        m = m + 0.3 * rand(rng, (n, n), m.dtype)  # non-Hermitian part
    elif kind == "repeated":
        w = np.array([(-1.0) ** i * (1 + i // 3) for i in range(n)])
        m = (q * w) @ q.conj().T
    elif kind == "psd":
        w = rng.uniform(0.5, 2, n)
        w[: n // 2] = w[0]
        m = (q * w) @ q.conj().T
    elif kind == "nsd":
        w = -rng.uniform(0.5, 2, n)
        m = (q * w) @ q.conj().T
    elif kind == "zero":
        m = np.zeros((n, n))
    elif kind == "identity":
        m = np.eye(n)
    elif kind == "semidef":
        w = np.maximum(rng.standard_normal(n), 0)
        m = (q * w) @ q.conj().T
    return m.astype(dtype)


def test_psd(rng):
    for n in (1, 2, 3, 4, 5, 7):
        for dtype in DTYPES:
            tol = 5 * tol_of(dtype)
            for kind in ("generic", "repeated", "psd", "nsd", "zero", "identity",
                         "semidef"):
                m = random_psd_input(rng, n, dtype, kind)
                for lay in ("contig", "transposed", "readonly"):
                    y = m
                    if lay == "transposed":
                        y = np.ascontiguousarray(m.T).T
                    elif lay == "readonly":
                        y = m.copy()
                        y.setflags(write=False)
                    nm = "PsdProj n=%d %s %s %s" % (n, np.dtype(dtype), kind, lay)
                    ref = ref_psd_proj(y)
                    out = thresh.psd_proj(y)
                    check(out.shape == y.shape and close(out, ref, tol),
                          nm + ": thresh value")
                    x = run_prox(nm, prox.PsdProj((n, n)), 1.0, y, ref, tol)
                    if x.shape != y.shape:
                        continue
                    ev = np.linalg.eigvalsh((x + x.conj().T) / 2)
                    check(ev.min() >= -10 * tol * max(1, np.abs(y).max()),
                          nm + ": result not PSD")
                    check(close(prox.PsdProj((n, n))(3.0, x), x, tol),
                          nm + ": not idempotent")
                    if kind in ("psd", "identity", "zero", "semidef"):
                        check(close(x, y, tol), nm + ": feasible input moved")
                    if kind == "nsd":
                        check(close(x, 0 * y, tol), nm + ": NSD should map to 0")
                    cs = []
                    for _ in range(4):
                        g = rand(rng, (n, n), dtype)
                        cs.append(g @ g.conj().T)
                    vi_check(nm, (y + y.conj().T) / 2, x, cs, tol)


def test_combinators(rng):
    for dtype in DTYPES:
        tol = tol_of(dtype)
        # ---- Conj: Moreau identity, checked against known conjugates -------
        for shape in SHAPES:
            for lay, y in variants(rng, shape, dtype):
                for alpha in ALPHAS:
                    lam = float(rng.uniform(0.2, 2))
                    # (lam |.|_1)^* = indicator of the linf ball of radius lam
                    run_prox("Conj(L1Reg)%s/%s" % (shape, lay),
                             prox.Conj(prox.L1Reg(shape, lam)), alpha, y,
                             ref_linf_proj(lam, y), 4 * tol)
                    # (indicator of l2 ball radius e)^* = e |.|_2
                    e = float(rng.uniform(0.2, 2))
                    nrm = np.linalg.norm(y.ravel())
                    ref = y * max(1 - alpha * e / nrm, 0) if nrm > 0 else y
                    run_prox("Conj(L2Proj)%s/%s" % (shape, lay),
                             prox.Conj(prox.L2Proj(shape, e)), alpha, y, ref,
                             4 * tol)
                    # double conjugate is the original
                    run_prox("Conj(Conj(L1Reg))%s/%s" % (shape, lay),
                             prox.Conj(prox.Conj(prox.L1Reg(shape, lam))), alpha, y,
                             ref_soft(lam * alpha, y), 8 * tol)
        # ---- Stack ---------------------------------------------------------
        for shapes in ([(3,), (2, 2)], [(1,)], [(1, 1), (5,), (2, 1, 3)],
                       [(4, 3)], [(2,), (2,), (2,), (1, 2)]):
            sizes = [int(np.prod(s)) for s in shapes]
            total = sum(sizes)
            offs = np.concatenate([[0], np.cumsum(sizes)])
            for lay, y in variants(rng, (total,), dtype):
                for alpha in ALPHAS:
                    kinds, ps, refs = [], [], []
                    for i, s in enumerate(shapes):
                        blk = y[offs[i]:offs[i + 1]].reshape(s)
                        k = i % 4
                        if k == 0:
                            lam = 0.6
                            ps.append(prox.L1Reg(s, lam))
                            refs.append(ref_soft(lam * alpha, blk))
                        elif k == 1:
                            ps.append(prox.L2Proj(s, 0.9, axes=(-1,)))
                            refs.append(ref_l2_proj(0.9, blk, (-1,)))
                        elif k == 2:
                            ps.append(prox.Conj(prox.L1Reg(s, 0.5)))
                            refs.append(ref_linf_proj(0.5, blk))
                        else:
                            ps.append(prox.L1Proj(s, 0.8))
                            refs.append(ref_l1_proj(0.8, blk))
                    ref = np.concatenate([np.asarray(r).ravel() for r in refs])
                    P = prox.Stack(ps)
                    check(list(P.shape) == [total], "Stack shape attr %s" % (P.shape,))
                    run_prox("Stack%s/%s/a=%s" % (shapes, lay, alpha), P, alpha, y,
                             ref, 4 * tol)
                    # nested: Conj(Stack) and Stack of Stack
                    P2 = prox.Stack([P, prox.L1Reg((2,), 0.3)])
                    y2 = np.concatenate([y, rand(rng, (2,), dtype)])
                    ref2 = np.concatenate([ref, ref_soft(0.3 * alpha, y2[total:])])
                    run_prox("Stack(Stack)%s" % (shapes,), P2, alpha, y2, ref2,
                             4 * tol)
                # array-valued alpha: one step size per element
                if np.dtype(dtype).kind == "f" or True:
                    rdt = np.float32 if dtype in (np.float32, np.complex64) else np.float64
                    av = rng.uniform(0.2, 2.0, total).astype(rdt)
                    yv = rand(rng, (total,), dtype)
                    ps = [prox.L1Reg(s, 0.7) for s in shapes]
                    run_prox("Stack/array alpha %s" % (shapes,), prox.Stack(ps), av,
                             yv, ref_soft(0.7 * av, yv), 4 * tol)
        # ---- UnitaryTransform ---------------------------------------------
        if np.dtype(dtype).kind == "c":
            for shape in [(1,), (5,), (3, 4), (2, 1, 3), (7, 1)]:
                F = sp.linop.FFT(shape)
                for lay, y in variants(rng, shape, dtype):
                    for alpha in ALPHAS:
                        # the l2 ball is invariant under unitary maps
                        run_prox("UT(L2Proj,FFT)%s/%s" % (shape, lay),
                                 prox.UnitaryTransform(prox.L2Proj(shape, 0.8), F),
                                 alpha, y, ref_l2_proj(0.8, y), 8 * tol)
                        # so is the squared l2 norm
                        run_prox("UT(L2Reg,FFT)%s/%s" % (shape, lay),
                                 prox.UnitaryTransform(prox.L2Reg(shape, 0.4), F),
                                 alpha, y, y / (1 + 0.4 * alpha), 8 * tol)
                        # l1 in the Fourier domain, reference via numpy's fft
                        ax = tuple(range(len(shape)))
                        fy = np.fft.fftshift(np.fft.fftn(np.fft.ifftshift(
                            y.astype(np.complex128), axes=ax), axes=ax, norm="ortho"),
                            axes=ax)
                        st = ref_soft(0.5 * alpha, fy)
                        ref = np.fft.fftshift(np.fft.ifftn(np.fft.ifftshift(
                            st, axes=ax), axes=ax, norm="ortho"), axes=ax)
                        run_prox("UT(L1Reg,FFT)%s/%s" % (shape, lay),
                                 prox.UnitaryTransform(prox.L1Reg(shape, 0.5), F),
                                 alpha, y, ref, 8 * tol)
                        run_prox("Conj(UT(L1Reg,FFT))%s/%s" % (shape, lay),
                                 prox.Conj(prox.UnitaryTransform(
                                     prox.L1Reg(shape, 0.5), F)),
                                 alpha, y,
                                 y - alpha * _ut_l1(y / alpha, 0.5 / alpha, ax),
                                 16 * tol)
        # a real orthogonal transform given as a MatMul linop
        for n in (1, 3, 6):
            q, _ = np.linalg.qr(rng.standard_normal((n, n)))
            q = q.astype(np.float32 if dtype in (np.float32, np.complex64) else np.float64)
            A = sp.linop.MatMul((n, 1), q)
            for lay, y in variants(rng, (n, 1), dtype):
                ref = q.T.astype(np.float64) @ ref_soft(0.4 * 1.5, q.astype(np.float64) @ y)
                run_prox("UT(L1Reg,MatMul) n=%d/%s" % (n, lay),
                         prox.UnitaryTransform(prox.L1Reg((n, 1), 0.4), A), 1.5, y,
                         ref, 8 * tol)


def _ut_l1(y, lam, ax):
    fy = np.fft.fftshift(np.fft.fftn(np.fft.ifftshift(
        y.astype(np.complex128), axes=ax), axes=ax, norm="ortho"), axes=ax)
    st = ref_soft(lam, fy)
    return np.fft.fftshift(np.fft.ifftn(np.fft.ifftshift(st, axes=ax), axes=ax,
                                        norm="ortho"), axes=ax)


def test_thresh_functions(rng):
    for shape in SHAPES:
        for dtype in DTYPES:
            tol = tol_of(dtype)
            rdt = np.float32 if dtype in (np.float32, np.complex64) else np.float64
            for lay, y in variants(rng, shape, dtype):
                lam = rdt(0.6)
                out = thresh.soft_thresh(lam, y)
                check(out.shape == y.shape and close(out, ref_soft(0.6, y), tol),
                      "soft_thresh %s %s" % (shape, lay))
                out = thresh.hard_thresh(lam, y)
                check(out.shape == y.shape
                      and close(out, np.where(np.abs(y) > lam, y, 0), tol),
                      "hard_thresh %s %s" % (shape, lay))
                out = thresh.linf_proj(0.6, y)
                check(out.shape == y.shape
                      and close(out, ref_linf_proj(0.6, y), tol),
                      "linf_proj %s %s" % (shape, lay))


def main():
    rng = np.random.default_rng(20240611)
    test_thresh_functions(rng)
    test_l1reg_l2reg(rng)
    test_l2proj(rng)
    test_linf_l1_box(rng)
    test_psd(rng)
    test_combinators(rng)
    print("checks: %d, failures: %d" % (NCHECK[0], len(FAILS)))
    return 1 if FAILS else 0


if __name__ == "__main__":
    sys.exit(main())
