"""C09 demo: array-rearrangement functions move exactly the documented elements.

Every sigpy function is compared against a slow, element-by-element pure
Python reference written directly from the documentation.  Exit code 0 iff
all comparisons hold.
"""
import itertools
import sys

import numpy as np

import sigpy as sp
from sigpy import block, linop, util

rng = np.random.RandomState(1234)
FAIL = []
NCHECK = [0]


def check(cond, msg):
    NCHECK[0] += 1
    if not cond:
        FAIL.append(msg)
        if len(FAIL) < 30:
            print("FAIL:", msg)


def same(a, b):
    a = np.asarray(a)
    b = np.asarray(b)
    return a.shape == b.shape and a.dtype == b.dtype and np.array_equal(a, b)


def labelled(shape, dtype, variant="plain"):
    """Distinct non-zero integer labels; optionally non-contiguous/read-only."""
    shape = tuple(shape)
    n = int(np.prod(shape)) if len(shape) else 1
    dtype = np.dtype(dtype)
    if variant == "strided":
        big = np.arange(1, 2 * n + 1).reshape(shape[:-1] + (2 * shape[-1],))
        lab = big[..., ::2]
    elif variant == "transposed" and len(shape) >= 2:
        lab = np.arange(1, n + 1).reshape(shape[::-1]).T
    else:
        lab = np.arange(1, n + 1).reshape(shape)
    if dtype.kind == "c":
        x = (lab + 1j * (lab + 1000)).astype(dtype)
    elif dtype.kind == "b":
        x = (lab % 2).astype(dtype)
    else:
        x = lab.astype(dtype)
    if variant == "strided":
        big = np.zeros(shape[:-1] + (2 * shape[-1],), dtype=dtype)
        big[..., ::2] = x
        x = big[..., ::2]
    elif variant == "transposed" and len(shape) >= 2:
        x = np.asfortranarray(x)
    elif variant == "readonly":
        x.setflags(write=False)
    return x


VARIANTS = ["plain", "strided", "transposed", "readonly"]
DTYPES = [np.float64, np.complex64, np.int32, np.float32, np.complex128,
          np.int64, np.uint8]


# ----------------------------------------------------------------- resize --
def _expand(shape, ndim):
    return (1,) * (ndim - len(shape)) + tuple(shape)


def resize_ref(x, oshape, ishift=None, oshift=None):
    oshape = tuple(oshape)
    ndim = max(x.ndim, len(oshape))
    ish = _expand(x.shape, ndim)
    osh = _expand(oshape, ndim)
    if ish == osh:
        return np.array(x).reshape(oshape)
    xi = np.array(x).reshape(ish)
    if ishift is None:
        ishift = [max(n // 2 - m // 2, 0) for n, m in zip(ish, osh)]
    if oshift is None:
        oshift = [max(m // 2 - n // 2, 0) for n, m in zip(ish, osh)]
    out = np.zeros(osh, dtype=x.dtype)
    for k in np.ndindex(*osh):
        src = []
        ok = True
        for d in range(ndim):
            j = k[d] - oshift[d]
            s = ishift[d] + j
            if j < 0 or s >= ish[d]:
                ok = False
                break
            src.append(s)
        if ok:
            out[k] = xi[tuple(src)]
    return out.reshape(oshape)


def resize_centre_ref(x, oshape):
    """Statement form: input index n//2 aligned with output index m//2."""
    oshape = tuple(oshape)
    ndim = max(x.ndim, len(oshape))
    ish = _expand(x.shape, ndim)
    osh = _expand(oshape, ndim)
    xi = np.array(x).reshape(ish)
    out = np.zeros(osh, dtype=x.dtype)
    for k in np.ndindex(*osh):
        src = tuple(k[d] - osh[d] // 2 + ish[d] // 2 for d in range(ndim))
        if all(0 <= s < n for s, n in zip(src, ish)):
            out[k] = xi[src]
    return out.reshape(oshape)


def test_resize():
    cnt = 0
    sizes = [1, 2, 3, 4, 5, 6, 7]
    for n in sizes + [8, 9]:
        for m in sizes + [8, 9, 12]:
            for dt in (np.float64, np.complex64, np.int32):
                x = labelled((n,), dt, VARIANTS[cnt % 4])
                cnt += 1
                keep = x.copy()
                y = util.resize(x, [m])
                check(same(y, resize_ref(x, (m,))), "resize 1d %d->%d" % (n, m))
                check(same(y, resize_centre_ref(x, (m,))),
                      "resize centre 1d %d->%d" % (n, m))
                check(same(x, keep), "resize mutated input")
    shapes2 = list(itertools.product([1, 2, 3, 4, 5], repeat=2))
    for ish in shapes2:
        for osh in shapes2:
            dt = DTYPES[cnt % len(DTYPES)]
            x = labelled(ish, dt, VARIANTS[cnt % 4])
            cnt += 1
            for oshape in (list(osh), tuple(osh)):
                y = util.resize(x, oshape)
                check(same(y, resize_centre_ref(x, osh)),
                      "resize 2d %s->%s" % (ish, osh))
            y2 = util.resize(x, osh)
            check(same(y, y2), "resize repeat call")
    shapes3 = [(1, 1, 1), (2, 3, 4), (3, 3, 3), (4, 5, 2), (5, 1, 6), (6, 4, 1),
               (3, 2, 5)]
    for ish in shapes3:
        for osh in shapes3 + [(7, 7, 7), (2, 2, 2)]:
            dt = DTYPES[cnt % len(DTYPES)]
            x = labelled(ish, dt, VARIANTS[cnt % 4])
            cnt += 1
            check(same(util.resize(x, osh), resize_centre_ref(x, osh)),
                  "resize 3d %s->%s" % (ish, osh))
    # differing number of dimensions (shapes are left-padded with ones)
    for ish, osh in [((4,), (1, 6)), ((4,), (2, 6)), ((1, 5), (3,)),
                     ((3,), (2, 5)), ((2, 3), (1, 2, 3)), ((1, 2, 3), (2, 3)),
                     ((1, 1, 4), (7,)), ((5,), (3, 1, 2)), ((6,), (1, 1, 6))]:
        x = labelled(ish, np.complex64, VARIANTS[cnt % 4])
        cnt += 1
        check(same(util.resize(x, osh), resize_centre_ref(x, osh)),
              "resize ndim %s->%s" % (ish, osh))
        check(same(util.resize(x, osh), resize_ref(x, osh)),
              "resize ndim(ref2) %s->%s" % (ish, osh))
    # explicit shifts (one or both), given as lists, tuples or numpy ints
    for ish, osh in [((5,), (8,)), ((8,), (5,)), ((4, 6), (6, 3)),
                     ((3, 5, 2), (4, 2, 4)), ((6, 6), (6, 5)), ((2, 7), (2, 9))]:
        nd = len(ish)
        for trial in range(12):
            si = [rng.randint(0, n) for n in ish]
            so = [rng.randint(0, m) for m in osh]
            x = labelled(ish, DTYPES[cnt % len(DTYPES)], VARIANTS[cnt % 4])
            cnt += 1
            conv = [list, tuple, lambda v: np.array(v)][trial % 3]
            check(same(util.resize(x, osh, ishift=conv(si), oshift=conv(so)),
                       resize_ref(x, osh, si, so)),
                  "resize shifts %s->%s %s %s" % (ish, osh, si, so))
            check(same(util.resize(x, osh, ishift=conv(si)),
                       resize_ref(x, osh, si, None)),
                  "resize ishift only %s->%s %s" % (ish, osh, si))
            check(same(util.resize(x, osh, oshift=conv(so)),
                       resize_ref(x, osh, None, so)),
                  "resize oshift only %s->%s %s" % (ish, osh, so))
            check(same(util.resize(x, osh, [0] * nd, [0] * nd),
                       resize_ref(x, osh, [0] * nd, [0] * nd)),
                  "resize zero shifts")
    # equal shapes: values unchanged whatever the shifts are
    x = labelled((3, 4), np.float64)
    check(same(util.resize(x, (3, 4)), x), "resize identity")
    check(same(util.resize(x, [3, 4], ishift=[1, 1]), x), "resize identity+shift")
    # dirac and the Resize linop (forward and adjoint) use the same rule
    for shp in [(1,), (4,), (5,), (3, 4), (2, 1, 5)]:
        d = util.dirac(shp)
        ref = np.zeros(shp)
        ref[tuple(s // 2 for s in shp)] = 1
        check(same(d, ref), "dirac %s" % (shp,))
    for ish, osh in [((5,), (8,)), ((4, 7), (6, 3)), ((3, 3, 2), (2, 5, 2))]:
        R = linop.Resize(osh, ish)
        x = labelled(ish, np.complex64)
        y = labelled(osh, np.complex64)
        check(same(R(x), resize_centre_ref(x, osh)), "Resize linop fwd")
        check(same(R.H(y), resize_centre_ref(y, ish)), "Resize linop adj")
        check(same(R(x), R(x)), "Resize linop repeat")


# ---------------------------------------------------- flip / circshift ----
def flip_ref(x, axes):
    if axes is None:
        axes = range(x.ndim)
    axes = set(a % x.ndim for a in axes)
    out = np.zeros(x.shape, dtype=x.dtype)
    for k in np.ndindex(*x.shape):
        src = tuple(x.shape[d] - 1 - k[d] if d in axes else k[d]
                    for d in range(x.ndim))
        out[k] = x[src]
    return out


def circshift_ref(x, shifts, axes):
    if axes is None:
        axes = range(x.ndim)
    tot = [0] * x.ndim
    for a, s in zip(axes, shifts):
        tot[a % x.ndim] += int(s)
    out = np.zeros(x.shape, dtype=x.dtype)
    for k in np.ndindex(*x.shape):
        dst = tuple((k[d] + tot[d]) % x.shape[d] for d in range(x.ndim))
        out[dst] = x[k]
    return out


def test_flip_circshift():
    cnt = 0
    shapes = [(1,), (5,), (6,), (1, 4), (3, 1), (3, 4), (5, 5), (2, 3, 4),
              (3, 1, 5), (1, 1, 1), (2, 2, 3, 2)]
    for shp in shapes:
        nd = len(shp)
        axes_list = [None]
        for r in range(0, nd + 1):
            for c in itertools.combinations(range(nd), r):
                axes_list.append(tuple(c))
                axes_list.append(tuple(a - nd for a in c))
                axes_list.append(list(c)[::-1])
        for axes in axes_list:
            x = labelled(shp, DTYPES[cnt % len(DTYPES)], VARIANTS[cnt % 4])
            cnt += 1
            keep = x.copy()
            check(same(util.flip(x, axes=axes), flip_ref(x, axes)),
                  "flip %s %s" % (shp, axes))
            na = nd if axes is None else len(axes)
            for trial in range(3):
                shifts = [int(rng.randint(-2 * max(shp) - 1, 2 * max(shp) + 2))
                          for _ in range(na)]
                if trial == 1:
                    shifts = tuple(shifts)
                if trial == 2:
                    shifts = [np.int64(s) for s in shifts]
                y = util.circshift(x, shifts, axes=axes)
                check(same(y, circshift_ref(x, shifts, axes)),
                      "circshift %s %s %s" % (shp, shifts, axes))
                check(same(util.circshift(x, shifts, axes=axes), y),
                      "circshift repeat")
            check(same(x, keep), "flip/circshift mutated input")
    # same axis given twice: shifts accumulate (sequential rolls)
    x = labelled((4, 5), np.complex64)
    check(same(util.circshift(x, [1, 2, -4], axes=[0, 0, 1]),
               circshift_ref(x, [1, 2, -4], [0, 0, 1])), "circshift dup axes")
    check(same(util.circshift(x, [3, 3], axes=(-1, 1)),
               circshift_ref(x, [3, 3], (-1, 1))), "circshift dup axes neg")
    # Flip / Circshift linops
    for shp, axes in [((4, 5), None), ((4, 5), (-1,)), ((3, 2, 4), (0, 2))]:
        x = labelled(shp, np.complex64)
        F = linop.Flip(shp, axes=axes)
        check(same(F(x), flip_ref(x, axes)), "Flip linop")
        check(same(F.H(x), flip_ref(x, axes)), "Flip linop adj")
        na = len(shp) if axes is None else len(axes)
        sh = [2, -3, 5][:na]
        C = linop.Circshift(shp, sh, axes=axes)
        check(same(C(x), circshift_ref(x, sh, axes)), "Circshift linop")
        check(same(C.H(x), circshift_ref(x, [-s for s in sh], axes)),
              "Circshift linop adj")
        check(same(C.H(C(x)), x), "Circshift linop roundtrip")


# ------------------------------------------------ downsample / upsample ---
def downsample_ref(x, factors, shift):
    if shift is None:
        shift = [0] * len(factors)
    nd = len(factors)
    osh = []
    for d in range(x.ndim):
        if d < nd:
            osh.append(len(range(shift[d], x.shape[d], factors[d])))
        else:
            osh.append(x.shape[d])
    out = np.zeros(osh, dtype=x.dtype)
    for k in np.ndindex(*osh):
        src = tuple(shift[d] + k[d] * factors[d] if d < nd else k[d]
                    for d in range(x.ndim))
        out[k] = x[src]
    return out


def upsample_ref(x, oshape, factors, shift):
    if shift is None:
        shift = [0] * len(factors)
    nd = len(factors)
    out = np.zeros(oshape, dtype=x.dtype)
    for k in np.ndindex(*x.shape):
        dst = tuple(shift[d] + k[d] * factors[d] if d < nd else k[d]
                    for d in range(x.ndim))
        out[dst] = x[k]
    return out


def test_down_up():
    cnt = 0
    shapes = [(1,), (2,), (7,), (8,), (1, 5), (4, 6), (5, 5), (3, 4, 5),
              (6, 1, 3), (2, 9)]
    for shp in shapes:
        nd = len(shp)
        for trial in range(14):
            factors = [int(rng.randint(1, 5)) for _ in range(nd)]
            if trial % 7 == 6 and nd > 1:
                factors = factors[:-1]  # trailing axes untouched
            shift = [int(rng.randint(0, min(f, n)))
                     for f, n in zip(factors, shp)]
            if trial % 3 == 0:
                shift_arg = None
                shift = [0] * len(factors)
            elif trial % 3 == 1:
                shift_arg = tuple(shift)
                factors = tuple(factors)
            else:
                shift_arg = list(shift)
            x = labelled(shp, DTYPES[cnt % len(DTYPES)], VARIANTS[cnt % 4])
            cnt += 1
            keep = x.copy()
            y = util.downsample(x, factors, shift=shift_arg)
            yref = downsample_ref(x, factors, shift)
            check(same(y, yref), "downsample %s %s %s" % (shp, factors, shift))
            z = util.upsample(np.ascontiguousarray(y) if trial % 2 else y,
                              shp, factors, shift=shift_arg)
            zref = upsample_ref(yref, shp, factors, shift)
            check(same(z, zref), "upsample %s %s %s" % (shp, factors, shift))
            check(same(util.upsample(y, list(shp), factors, shift=shift_arg), z),
                  "upsample repeat")
            check(same(x, keep), "down/upsample mutated input")
            mask = np.zeros(shp, dtype=bool)
            mask[tuple(slice(s, None, f) for s, f in zip(shift, factors))] = 1
            check(same(z, np.where(mask, x, np.zeros((), x.dtype))),
                  "upsample(downsample) = masking")
            D = linop.Downsample(shp, factors, shift=shift_arg)
            xc = labelled(shp, np.complex64)
            check(same(D(xc), downsample_ref(xc, factors, shift)),
                  "Downsample linop")
            check(same(D.H(D(xc)), upsample_ref(
                downsample_ref(xc, factors, shift), shp, factors, shift)),
                "Downsample linop adj")


# ------------------------------------------------------------- blocks -----
def a2b_ref(x, B, S):
    nd = len(B)
    batch = x.shape[:-nd]
    N = x.shape[-nd:]
    nb = [(n - b + s) // s for n, b, s in zip(N, B, S)]
    out = np.zeros(tuple(batch) + tuple(nb) + tuple(B), dtype=x.dtype)
    for bi in np.ndindex(*batch):
        for n in np.ndindex(*nb):
            for k in np.ndindex(*B):
                src = tuple(n[d] * S[d] + k[d] for d in range(nd))
                out[bi + n + k] = x[bi + src]
    return out


def b2a_ref(blks, oshape, B, S):
    nd = len(B)
    oshape = tuple(oshape)
    batch = oshape[:-nd]
    nb = blks.shape[-2 * nd:-nd]
    out = np.zeros(oshape, dtype=blks.dtype)
    bl = blks.reshape(tuple(batch) + tuple(nb) + tuple(B))
    for bi in np.ndindex(*batch):
        for n in np.ndindex(*nb):
            for k in np.ndindex(*B):
                dst = tuple(n[d] * S[d] + k[d] for d in range(nd))
                if all(dst[d] < oshape[len(batch) + d] for d in range(nd)):
                    out[bi + dst] += bl[bi + n + k]
    return out


def close(a, b, dtype):
    a = np.asarray(a)
    b = np.asarray(b)
    if a.shape != b.shape or a.dtype != b.dtype:
        return False
    tol = 1e-5 if np.dtype(dtype) in (np.float32, np.complex64) else 1e-12
    scale = max(1.0, float(np.max(np.abs(b))) if b.size else 1.0)
    return bool(np.all(np.abs(a - b) <= tol * scale))


def test_blocks():
    cnt = 0
    configs = []
    for N in [1, 2, 5, 6, 7, 9]:
        for B in [1, 2, 3, 5]:
            for S in [1, 2, 3, 4]:
                if B <= N:
                    configs.append(((N,), (B,), (S,)))
    for trial in range(60):
        nd = 2 if trial < 40 else 3
        hi = 8 if nd == 2 else 6
        N = tuple(int(rng.randint(1, hi)) for _ in range(nd))
        B = tuple(int(rng.randint(1, n + 1)) for n in N)
        S = tuple(int(rng.randint(1, 5)) for _ in range(nd))
        configs.append((N, B, S))
    configs += [((6, 6), (2, 2), (2, 2)), ((7, 5), (3, 2), (3, 2)),
                ((7, 7), (2, 2), (3, 3)), ((5, 6), (4, 4), (1, 1)),
                ((4, 4, 4), (2, 2, 2), (2, 2, 2)), ((5, 4, 6), (3, 2, 4), (1, 3, 2)),
                ((5, 5, 5), (2, 2, 2), (3, 3, 3)), ((1, 1, 1), (1, 1, 1), (1, 1, 1)),
                ((3, 4, 5), (3, 4, 5), (2, 2, 2)), ((6, 1, 6), (3, 1, 2), (2, 1, 5))]
    batches = [(), (1,), (3,), (2, 2)]
    for N, B, S in configs:
        nd = len(N)
        batch = batches[cnt % 4]
        dt = [np.float64, np.complex64, np.int32, np.complex128, np.float32,
              np.int64][cnt % 6]
        var = VARIANTS[cnt % 4]
        cnt += 1
        x = labelled(batch + N, dt, var)
        keep = x.copy()
        conv = [list, tuple][cnt % 2]
        y = block.array_to_blocks(x, conv(B), conv(S))
        yref = a2b_ref(x, B, S)
        tag = "%s N=%s B=%s S=%s %s %s" % (batch, N, B, S, np.dtype(dt).name, var)
        check(same(y, yref), "array_to_blocks " + tag)
        check(same(x, keep), "array_to_blocks mutated input " + tag)
        nb = yref.shape[len(batch):len(batch) + nd]
        # scatter labelled blocks back (integer labels: sums are exact)
        blk = labelled(batch + tuple(nb) + B, dt, VARIANTS[(cnt + 1) % 4])
        if blk.size:
            keepb = blk.copy()
            z = block.blocks_to_array(blk, conv(batch + N), conv(B), conv(S))
            zref = b2a_ref(blk, batch + N, B, S)
            check(same(z, zref), "blocks_to_array " + tag)
            check(same(block.blocks_to_array(blk, batch + N, B, S), z),
                  "blocks_to_array repeat " + tag)
            check(same(blk, keepb), "blocks_to_array mutated input " + tag)
            # uncovered positions stay zero, covered ones count overlaps
            ones = np.ones(batch + tuple(nb) + B, dtype=dt)
            cover = block.blocks_to_array(ones, batch + N, B, S)
            cref = b2a_ref(ones, batch + N, B, S)
            check(same(cover, cref), "coverage counts " + tag)
            check(same(block.blocks_to_array(y, batch + N, B, S),
                       (x * cref).astype(dt)), "b2a(a2b(x)) = x*count " + tag)
            # random floating-point values: rounding-level agreement
            if np.dtype(dt).kind in "fc":
                r = rng.standard_normal(blk.shape)
                if np.dtype(dt).kind == "c":
                    r = r + 1j * rng.standard_normal(blk.shape)
                r = r.astype(dt)
                check(close(block.blocks_to_array(r, batch + N, B, S),
                            b2a_ref(r, batch + N, B, S), dt),
                      "blocks_to_array random " + tag)
            # linops
            A = linop.ArrayToBlocks(batch + N, B, S)
            check(same(A(x), yref), "ArrayToBlocks linop " + tag)
            check(same(A.H(blk), zref), "ArrayToBlocks.H linop " + tag)
            check(same(A.H.H(x), yref), "BlocksToArray.H linop " + tag)
    # output shape larger than what the blocks cover / not reached by blocks
    for N, B, S, nb in [((9,), (2,), (3,), (2,)), ((6, 7), (2, 3), (2, 4), (2, 1)),
                        ((5, 5, 6), (2, 2, 2), (2, 3, 2), (1, 1, 2))]:
        blk = labelled((2,) + nb + B, np.complex64)
        z = block.blocks_to_array(blk, (2,) + N, B, S)
        check(same(z, b2a_ref(blk, (2,) + N, B, S)), "b2a partial cover %s" % (N,))
    # block larger than the array: no blocks
    y = block.array_to_blocks(labelled((2, 3), np.float64), [4], [2])
    check(y.shape == (2, 0, 4), "array_to_blocks empty")


def main():
    test_resize()
    test_flip_circshift()
    test_down_up()
    test_blocks()
    print("checks: %d, failures: %d" % (NCHECK[0], len(FAIL)))
    return 1 if FAIL else 0


if __name__ == "__main__":
    sys.exit(main())
