"""C18 demo: Poisson-disc masks are binary, reproducible, calibrated, hit the
requested acceleration (or raise), respect corner cropping and leave NumPy's
global random state untouched.

Standalone (numpy / sigpy only).  Exit status 0 iff every check passes.

Everything the masks are compared with is recomputed here with plain
python / numpy integer and float arithmetic (calibration block, normalised
elliptical radius, acceleration); nothing is imported from sigpy.mri.samp
except the function under test.  In addition the masks are compared with
SHA-1 digests recorded from the unmodified library (same interpreter), which
pins down "depends only on the arguments and the seed" across processes;
pass --no-golden to skip that comparison.
"""
import hashlib
import sys
import warnings

import numpy as np

import sigpy.mri as mr

FAILURES = []
USE_GOLDEN = "--no-golden" not in sys.argv
PRINT_GOLDEN = "--print-golden" in sys.argv
SEEN = {}


def check(cond, msg):
    if not cond:
        FAILURES.append(msg)
        print("FAIL:", msg)


def same_state(a, b):
    return (
        a[0] == b[0]
        and np.array_equal(a[1], b[1])
        and tuple(a[2:]) == tuple(b[2:])
    )


def radius_reference(ny, nx, cy, cx):
    """Normalised elliptical k-space radius used for corner cropping."""
    r = np.empty((ny, nx))
    xmax = max(max(abs(j - nx / 2) - cx / 2, 0) for j in range(nx))
    ymax = max(max(abs(i - ny / 2) - cy / 2, 0) for i in range(ny))
    for i in range(ny):
        yy = max(abs(i - ny / 2) - cy / 2, 0) / ymax
        for j in range(nx):
            xx = max(abs(j - nx / 2) - cx / 2, 0) / xmax
            r[i, j] = (xx * xx + yy * yy) ** 0.5
    return r


def calib_block(ny, nx, cy, cx):
    """Centred calibration block, integer arithmetic."""
    return (
        slice((ny - cy) // 2, (ny + cy) // 2),
        slice((nx - cx) // 2, (nx + cx) // 2),
    )


def call(img_shape, accel, **kw):
    """Runs poisson under a scrambled global RNG and checks that the global
    state is left untouched.  Returns the mask or the ValueError."""
    scramble = kw.pop("_scramble", 12345)
    np.random.seed(scramble)
    np.random.random(scramble % 7)  # move the stream a little
    before = np.random.get_state()
    try:
        with warnings.catch_warnings():
            warnings.simplefilter("ignore")
            out = mr.poisson(img_shape, accel, **kw)
    except ValueError as e:
        out = e
    after = np.random.get_state()
    check(
        same_state(before, after),
        f"poisson({img_shape}, {accel}, {kw}): global RNG state changed",
    )
    return out


def check_mask(tag, mask, img_shape, accel, calib, tol, crop_corner, dtype):
    ny, nx = (int(n) for n in img_shape)
    cy, cx = (int(c) for c in calib)
    check(isinstance(mask, np.ndarray), f"{tag}: not an array")
    check(mask.shape == (ny, nx), f"{tag}: shape {mask.shape}")
    check(mask.dtype == np.dtype(dtype), f"{tag}: dtype {mask.dtype}")
    m = np.asarray(mask)
    check(np.all((m == 0) | (m == 1)), f"{tag}: mask is not binary")
    nsamp = int(np.count_nonzero(m))
    check(nsamp > 0, f"{tag}: empty mask")
    actual = ny * nx / max(nsamp, 1)
    check(
        abs(actual - accel) < tol,
        f"{tag}: acceleration {actual} not within {tol} of {accel}",
    )
    r = radius_reference(ny, nx, cy, cx)
    blk = calib_block(ny, nx, cy, cx)
    inside = m[blk] != 0
    if crop_corner:
        # calibration points outside the ellipse are cropped as well
        inside = inside | (r[blk] >= 1 - 1e-9)
        check(
            not np.any((m != 0) & (r > 1 + 1e-9)),
            f"{tag}: sample outside the inscribed ellipse",
        )
    check(np.all(inside), f"{tag}: calibration region not fully sampled")
    return nsamp


def digest(mask):
    m = np.ascontiguousarray(np.asarray(mask) != 0)
    return hashlib.sha1(m.tobytes()).hexdigest()[:16]


def golden(key, mask):
    d = digest(mask) if isinstance(mask, np.ndarray) else "ValueError"
    SEEN[key] = d
    if USE_GOLDEN and not PRINT_GOLDEN:
        want = GOLDEN.get(key)
        check(
            want == d,
            f"{key}: mask differs from the recorded one ({d} != {want})",
        )


def run_case(k, prefix, shape, accel, calib, tol, seed, crop, dtype):
    """Generates one mask and checks every clause of the property.
    Returns True if a mask was produced, False if ValueError was raised."""
    tag = f"{prefix}{k}:{tuple(int(s) for s in shape)}/R{float(accel):g}"
    kw = dict(
        calib=calib, tol=tol, seed=seed, crop_corner=crop, dtype=dtype
    )
    out = call(shape, accel, **kw)
    golden(tag, out)
    if isinstance(out, ValueError):
        # raising must be deterministic too
        again = call(shape, accel, _scramble=999, **kw)
        check(isinstance(again, ValueError), f"{tag}: error not repeatable")
        return False
    check_mask(tag, out, shape, accel, calib, tol, crop, dtype)
    # depends only on arguments and seed: other global RNG history,
    # repeated call, equivalent argument containers
    again = call(shape, accel, _scramble=4242 + k, **kw)
    check(
        isinstance(again, np.ndarray) and np.array_equal(out, again),
        f"{tag}: not reproducible",
    )
    kw2 = dict(kw, calib=tuple(int(c) for c in calib), seed=int(seed))
    third = call(tuple(int(s) for s in shape), float(accel), **kw2)
    check(
        isinstance(third, np.ndarray) and np.array_equal(out, third),
        f"{tag}: depends on argument container types",
    )
    if k % 4 == 0:
        # same pattern irrespective of the output dtype
        other = call(shape, accel, **dict(kw, dtype=np.float32))
        check(
            np.array_equal(np.asarray(out) != 0, other != 0),
            f"{tag}: pattern depends on dtype",
        )
    if k % 4 == 0 and accel >= 2:
        # a different seed gives a valid (generally different) mask
        alt = call(shape, accel, **dict(kw, seed=int(seed) + 101))
        if isinstance(alt, np.ndarray):
            check_mask(
                tag + "/altseed", alt, shape, accel, calib, tol, crop, dtype
            )
    return True


def core_checks():
    n_ok = n_err = 0
    cases = [
        # (img_shape, accel, calib, tol, seed, crop_corner, dtype)
        ((16, 16), 2, (0, 0), 0.1, 0, True, np.complex128),
        ((16, 16), 1.5, (4, 4), 0.1, 1, True, np.complex64),
        ((17, 23), 3.0, (5, 3), 0.1, 2, True, np.float64),
        ((32, 32), 4, (8, 8), 0.1, 3, False, np.float32),
        ((32, 48), 6.5, (6, 10), 0.2, 4, True, np.complex128),
        ((48, 32), 6.5, (6, 10), 0.2, 4, False, np.complex128),
        ((33, 31), 2.5, (7, 5), 0.05, 5, True, np.int32),
        ((64, 64), 8, (12, 12), 0.1, 6, True, bool),
        ((64, 40), 12, (4, 4), 0.3, 7, True, np.complex64),
        ((60, 60), 6, (0, 0), 0.1, 80, True, np.complex128),
        ((120, 120), 6, (0, 0), 0.1, 80, True, np.complex128),
        ((128, 96), 10, (16, 12), 0.1, 8, False, np.float64),
        ((128, 128), 3, (24, 24), 0.02, 9, True, np.complex128),
        ((100, 16), 5, (10, 2), 0.1, 10, True, np.complex128),
        ((16, 100), 5, (2, 10), 0.1, 10, False, np.complex128),
        ([40, 56], 4.2, [6, 6], 0.1, 11, True, np.complex128),
        ((np.int64(40), np.int64(56)), np.float32(4.5), (6, 6), 0.1,
         np.int64(11), True, "complex64"),
        ((50, 50), 1.3, (10, 10), 0.05, 12, False, np.float64),
        ((40, 40), 1.25, (30, 30), 0.05, 3, False, np.float64),
        ((32, 32), 1.05, (31, 31), 0.05, 3, False, np.float64),
        ((50, 50), 1.4, (10, 10), 0.05, 12, True, np.float64),
        ((24, 24), 12, (2, 2), 0.5, 13, True, np.float64),
        # requests that are (nearly) impossible: ValueError is acceptable
        ((16, 16), 12, (8, 8), 0.01, 14, True, np.float64),
        ((20, 20), 7, (14, 14), 0.001, 15, True, np.float64),
        ((64, 64), 2, (8, 8), 1e-6, 16, True, np.float64),
        ((40, 40), 1.1, (36, 36), 0.05, 3, False, np.float64),
    ]
    for k, case in enumerate(cases):
        if run_case(k, "case", *case):
            n_ok += 1
        else:
            n_err += 1
    check(n_ok >= 20, f"only {n_ok} masks were generated")

    # defaults
    out = call((64, 64), 4)
    golden("defaults", out)
    check_mask("defaults", out, (64, 64), 4, (0, 0), 0.1, True, np.complex128)

    # seed=None: still a valid mask (not reproducible by design), and the
    # global state is neither read nor written
    out = call((48, 48), 3, calib=(6, 6), seed=None)
    if isinstance(out, np.ndarray):
        check_mask(
            "seed=None", out, (48, 48), 3, (6, 6), 0.1, True, np.complex128
        )

    # accel <= 1 is rejected (documented: must be greater than 1)
    for bad in [1, 1.0, 0.5, 0, -2]:
        out = call((32, 32), bad)
        check(isinstance(out, ValueError), f"accel={bad} accepted")

    # the arguments are not modified
    shape, calib = [32, 40], [4, 6]
    call(shape, 3, calib=calib, seed=3)
    check(shape == [32, 40] and calib == [4, 6], "arguments modified")
    return n_ok, n_err


# ----------------------------------------------------------------------
# extra: the density / cropping geometry (rectangular, odd, anisotropic)
# ----------------------------------------------------------------------
def geometry_checks():
    cases = [
        ((31, 77), 4, (5, 9), 0.1, 21, True, np.float64),
        ((77, 31), 4, (9, 5), 0.1, 21, True, np.float64),
        ((16, 128), 3, (2, 32), 0.1, 22, True, np.complex64),
        ((128, 16), 3, (32, 2), 0.1, 22, False, np.complex64),
        ((45, 45), 5, (1, 1), 0.1, 23, True, np.float64),
        ((45, 64), 7, (11, 0), 0.15, 24, True, np.float64),
        ((64, 45), 7, (0, 11), 0.15, 24, False, np.float64),
        ((96, 96), 9, (20, 8), 0.1, 25, True, np.complex128),
        ((19, 19), 2, (3, 3), 0.1, 26, True, np.float64),
        ((80, 40), 2.2, (16, 30), 0.05, 27, True, np.float64),
    ]
    n = 0
    for k, case in enumerate(cases):
        n += bool(run_case(k, "geom", *case))
    check(n >= 8, f"only {n} geometry masks were generated")
    # corner cropping only removes samples: with the same seed the cropped
    # mask of the accepted slope is a subset of the ellipse, and the
    # uncropped one has samples outside it for a strongly undersampled grid
    a = call((64, 64), 3, calib=(8, 8), seed=5, crop_corner=True)
    b = call((64, 64), 3, calib=(8, 8), seed=5, crop_corner=False)
    r = radius_reference(64, 64, 8, 8)
    if isinstance(a, np.ndarray) and isinstance(b, np.ndarray):
        check(not np.any((a != 0) & (r > 1 + 1e-9)), "cropped mask leaks")
        check(np.any((b != 0) & (r > 1 + 1e-9)), "uncropped mask has no corners")


# SHA-1 digests (first 16 hex digits) of the boolean masks produced by the
# unmodified library for the cases above.
GOLDEN = {
    'case0:(16, 16)/R2': '307bae6bf68a994a',
    'case1:(16, 16)/R1.5': '96a14b1d037ae896',
    'case2:(17, 23)/R3': '9c41c4007de2dcfe',
    'case3:(32, 32)/R4': '5dbbeaa140bc8562',
    'case4:(32, 48)/R6.5': '67d725c498442974',
    'case5:(48, 32)/R6.5': 'f7e4d9a4db407db0',
    'case6:(33, 31)/R2.5': 'feb2eb1797d5af5a',
    'case7:(64, 64)/R8': '1591e9342fa97166',
    'case8:(64, 40)/R12': '34c9a5e7e4ca417b',
    'case9:(60, 60)/R6': 'c48dfe8011d74a41',
    'case10:(120, 120)/R6': '1a7669cacb3332a8',
    'case11:(128, 96)/R10': '6600a49e2040d24a',
    'case12:(128, 128)/R3': '2d070d65f89b5b2b',
    'case13:(100, 16)/R5': 'e1345fc37a825c75',
    'case14:(16, 100)/R5': 'e0687977288694db',
    'case15:(40, 56)/R4.2': '94ddb1777047886f',
    'case16:(40, 56)/R4.5': '36689047f3ab8d71',
    'case17:(50, 50)/R1.3': 'a1130f20927c8a80',
    'case18:(40, 40)/R1.25': 'acac931d037af455',
    'case19:(32, 32)/R1.05': 'edd49e6c9446ed6b',
    'case20:(50, 50)/R1.4': 'aec63487a2ece245',
    'case21:(24, 24)/R12': '2a4faf5b7f0c1a84',
    'case22:(16, 16)/R12': 'ValueError',
    'case23:(20, 20)/R7': 'ValueError',
    'case24:(64, 64)/R2': 'ValueError',
    'case25:(40, 40)/R1.1': 'ValueError',
    'defaults': '56a93cd518597706',
    'geom0:(31, 77)/R4': 'f5bbb3cc9fca67f0',
    'geom1:(77, 31)/R4': 'c938e77d5e4d3b6a',
    'geom2:(16, 128)/R3': '91a66179f1f76760',
    'geom3:(128, 16)/R3': '0c31b727a8ff167f',
    'geom4:(45, 45)/R5': 'ab2b822f4d7ce36f',
    'geom5:(45, 64)/R7': '6c20029855691b62',
    'geom6:(64, 45)/R7': '1c332d001afbc720',
    'geom7:(96, 96)/R9': '27fc6cda02de249f',
    'geom8:(19, 19)/R2': 'ebfedbf176a571ef',
    'geom9:(80, 40)/R2.2': 'f6ded14281587d7b',
}


if __name__ == "__main__":
    n_ok, n_err = core_checks()
    geometry_checks()
    if PRINT_GOLDEN:
        print("GOLDEN = {")
        for k, v in SEEN.items():
            print(f"    {k!r}: {v!r},")
        print("}")
    print(f"{n_ok} masks checked, {n_err} requests raised ValueError")
    if FAILURES:
        print(f"{len(FAILURES)} check(s) FAILED")
        sys.exit(1)
    print("C18 holds on all cases")
    sys.exit(0)
