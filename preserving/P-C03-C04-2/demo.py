"""C03 demo: operator algebra agrees with matrix algebra and advertised shapes.

Every operator tree is built twice: once with sigpy's operator algebra and
once as an explicit dense numpy matrix assembled independently (np.kron,
np.split based index maps, np.fft on the identity ...).  The program exits 0
iff for all trees and inputs  A(x) == (M @ x.ravel()).reshape(A.oshape),
A(x).shape == A.oshape, A.H agrees with M^H, and all shape-incompatible
operand pairs are rejected with an exception.
"""
import sys

import numpy as np

import sigpy as sp
from sigpy import linop

FAIL = []
SKIPPED = []
USED_FFT = [False]


def is_inplace_cast_error(e):
    while e is not None:
        if isinstance(e, TypeError) and "Cannot cast ufunc" in str(e):
            return True
        e = e.__cause__
    return False


def fail(msg):
    FAIL.append(msg)
    print("FAIL:", msg)


def prod(shape):
    p = 1
    for s in shape:
        p *= int(s)
    return p


# ----------------------------------------------------------------------
# independent dense references for leaves
# ----------------------------------------------------------------------
def perm_matrix(src_index):
    """Matrix P with (P x)[k] = x[src_index[k]]."""
    n = src_index.size
    P = np.zeros((n, n))
    P[np.arange(n), src_index.ravel()] = 1
    return P


def dense_leaf(rng, oshape, ishape):
    No, Ni = prod(oshape), prod(ishape)
    M = rng.standard_normal((No, Ni)) + 1j * rng.standard_normal((No, Ni))
    A = (
        linop.Reshape(oshape, [No, 1])
        * linop.MatMul([Ni, 1], M)
        * linop.Reshape([Ni, 1], ishape)
    )
    return A, M


def square_leaf(rng, shape):
    N = prod(shape)
    ndim = len(shape)
    idx = np.arange(N).reshape(shape)
    kind = rng.integers(0, 7)
    if kind == 0:
        return linop.Identity(shape), np.eye(N)
    if kind == 1:
        m = rng.standard_normal(shape) + 1j * rng.standard_normal(shape)
        return linop.Multiply(shape, m), np.diag(m.ravel())
    if kind == 2:
        axes = tuple(
            int(a) - (ndim if rng.integers(0, 2) else 0)
            for a in rng.permutation(ndim)[: rng.integers(1, ndim + 1)]
        )
        center = bool(rng.integers(0, 2))
        USED_FFT[0] = True
        eye = np.eye(N).reshape([N] + list(shape))
        ax = tuple(a % ndim + 1 for a in axes)
        if center:
            F = np.fft.fftshift(
                np.fft.fftn(
                    np.fft.ifftshift(eye, axes=ax), axes=ax, norm="ortho"
                ),
                axes=ax,
            )
        else:
            F = np.fft.fftn(eye, axes=ax, norm="ortho")
        return (
            linop.FFT(shape, axes=axes, center=center),
            F.reshape(N, N).T,
        )
    if kind == 3:
        ax = int(rng.integers(-ndim, ndim))
        sh = int(rng.integers(-3, 4))
        return (
            linop.Circshift(shape, [sh], axes=[ax]),
            perm_matrix(np.roll(idx, sh, axis=ax)),
        )
    if kind == 4:
        ax = int(rng.integers(-ndim, ndim))
        return (
            linop.Flip(shape, axes=[ax]),
            perm_matrix(np.flip(idx, axis=ax % ndim)),
        )
    if kind == 5:
        # scalar Multiply
        a = complex(rng.standard_normal(), rng.standard_normal())
        return linop.Multiply(shape, a), a * np.eye(N)
    return dense_leaf(rng, shape, shape)


def shape_changing_leaf(rng, oshape, ishape):
    """Non-dense leaves when the shapes allow it, else a dense leaf."""
    if prod(oshape) == prod(ishape) and rng.integers(0, 2):
        return linop.Reshape(oshape, ishape), np.eye(prod(ishape))
    if sorted(oshape) == sorted(ishape) and len(set(ishape)) == len(ishape):
        axes = tuple(ishape.index(o) for o in oshape)
        idx = np.arange(prod(ishape)).reshape(ishape)
        neg = tuple(a - len(ishape) for a in axes)
        return (
            linop.Transpose(ishape, axes=neg),
            perm_matrix(idx.transpose(axes)),
        )
    return dense_leaf(rng, oshape, ishape)


# ----------------------------------------------------------------------
# independent index maps for stacking
# ----------------------------------------------------------------------
def split_positions(total_shape, sizes, axis):
    """Flat positions of every block inside the stacked array."""
    idx = np.arange(prod(total_shape)).reshape(total_shape)
    cuts = np.cumsum(sizes)[:-1]
    return [p.ravel() for p in np.split(idx, cuts, axis=axis)]


def random_split(rng, n):
    """Split n >= 1 into 1..3 positive parts."""
    k = int(rng.integers(1, min(n, 3) + 1))
    cuts = np.sort(rng.choice(np.arange(1, n), size=k - 1, replace=False))
    parts = np.diff(np.concatenate([[0], cuts, [n]]))
    return [int(p) for p in parts]


def factor_shape(rng, n):
    """A random shape with prod == n (may contain size-1 axes)."""
    shape = []
    for f in (2, 3):
        while n % f == 0 and rng.integers(0, 2):
            shape.append(f)
            n //= f
    shape.append(n)
    if rng.integers(0, 3) == 0:
        shape.insert(int(rng.integers(0, len(shape) + 1)), 1)
    return [int(s) for s in shape]


def part_shapes(rng, shape, nparts_or_none):
    """Choose stacking axis (or None) and part shapes for `shape`.

    Returns (axis, shapes, positions) or None if not splittable."""
    ndim = len(shape)
    use_none = ndim == 1 and rng.integers(0, 2)
    if use_none:
        n = shape[0]
        if nparts_or_none is None:
            sizes = random_split(rng, n)
        else:
            if n < nparts_or_none:
                return None
            cuts = np.sort(
                rng.choice(
                    np.arange(1, n), size=nparts_or_none - 1, replace=False
                )
            )
            sizes = [
                int(p) for p in np.diff(np.concatenate([[0], cuts, [n]]))
            ]
        shapes = [factor_shape(rng, s) for s in sizes]
        return None, shapes, split_positions(shape, sizes, 0)

    axis = int(rng.integers(-ndim, ndim))
    n = shape[axis]
    if nparts_or_none is None:
        sizes = random_split(rng, n)
    else:
        if n < nparts_or_none:
            return None
        cuts = np.sort(
            rng.choice(np.arange(1, n), size=nparts_or_none - 1, replace=False)
        )
        sizes = [int(p) for p in np.diff(np.concatenate([[0], cuts, [n]]))]
    shapes = []
    for s in sizes:
        sh = list(shape)
        sh[axis] = s
        shapes.append(sh)
    return axis, shapes, split_positions(shape, sizes, axis % ndim)


MID_SHAPES = [[3], [4], [1], [2, 3], [3, 1], [1, 2, 2], [5], [2, 2]]


def gen(rng, oshape, ishape, depth):
    oshape, ishape = list(oshape), list(ishape)
    No, Ni = prod(oshape), prod(ishape)
    if depth == 0:
        if oshape == ishape and rng.integers(0, 4):
            return square_leaf(rng, oshape)
        return shape_changing_leaf(rng, oshape, ishape)

    kind = rng.integers(0, 10)
    if kind == 0:
        mid = MID_SHAPES[rng.integers(0, len(MID_SHAPES))]
        if rng.integers(0, 2):
            mid = [oshape, ishape][rng.integers(0, 2)]
        A, MA = gen(rng, oshape, mid, depth - 1)
        B, MB = gen(rng, mid, ishape, depth - 1)
        return A * B, MA @ MB
    if kind == 1:
        A, MA = gen(rng, oshape, ishape, depth - 1)
        B, MB = gen(rng, oshape, ishape, depth - 1)
        if rng.integers(0, 2):
            return A + B, MA + MB
        return A - B, MA - MB
    if kind == 2:
        A, MA = gen(rng, oshape, ishape, depth - 1)
        a = [
            2.5,
            -1,
            1,
            3,
            complex(0.5, -2),
            1j,
            np.float32(0.5),
            np.complex64(1 - 1j),
            0,
        ][rng.integers(0, 9)]
        if rng.integers(0, 2):
            return a * A, complex(a) * MA
        return A * a, MA * complex(a)
    if kind == 3:
        A, MA = gen(rng, oshape, ishape, depth - 1)
        return -A, -MA
    if kind in (4, 5):  # Hstack
        ps = part_shapes(rng, ishape, None)
        axis, shapes, pos = ps
        M = np.zeros((No, Ni), dtype=complex)
        ops = []
        for sh, p in zip(shapes, pos):
            A, MA = gen(rng, oshape, sh, depth - 1)
            ops.append(A)
            M[:, p] = MA
        return linop.Hstack(ops, axis=axis), M
    if kind in (6, 7):  # Vstack
        ps = part_shapes(rng, oshape, None)
        axis, shapes, pos = ps
        M = np.zeros((No, Ni), dtype=complex)
        ops = []
        for sh, p in zip(shapes, pos):
            A, MA = gen(rng, sh, ishape, depth - 1)
            ops.append(A)
            M[p, :] = MA
        return linop.Vstack(ops, axis=axis), M
    # Diag
    for _ in range(5):
        k = int(rng.integers(1, 4))
        po = part_shapes(rng, oshape, k)
        pi = part_shapes(rng, ishape, k)
        if po is None or pi is None:
            continue
        oaxis, oshapes, opos = po
        iaxis, ishapes, ipos = pi
        M = np.zeros((No, Ni), dtype=complex)
        ops = []
        for osh, ish, p, q in zip(oshapes, ishapes, opos, ipos):
            A, MA = gen(rng, osh, ish, depth - 1)
            ops.append(A)
            M[np.ix_(p, q)] = MA
        return linop.Diag(ops, oaxis=oaxis, iaxis=iaxis), M
    return gen(rng, oshape, ishape, depth - 1)


# ----------------------------------------------------------------------
# inputs
# ----------------------------------------------------------------------
def make_inputs(rng, shape):
    # sigpy's FFT computes real inputs in single precision (documented
    # upstream behaviour), so real inputs get the single tolerance there.
    rtol = 2e-4 if USED_FFT[0] else 1e-10
    xs = []
    x = rng.standard_normal(shape) + 1j * rng.standard_normal(shape)
    xs.append(("c128", x, 1e-10))
    xs.append(("c64", x.astype(np.complex64), 2e-4))
    xr = rng.standard_normal(shape)
    xs.append(("f64", xr, rtol))
    # non-contiguous: every other element of a twice larger array
    big = rng.standard_normal([2 * s for s in shape]) + 0j
    big += 1j * rng.standard_normal(big.shape)
    nc = big[tuple(slice(None, None, 2) for _ in shape)]
    assert nc.shape == tuple(shape)
    xs.append(("noncontig", nc, 1e-10))
    # Fortran ordered
    xs.append(("fortran", np.asfortranarray(x), 1e-10))
    ro = x.copy()
    ro.setflags(write=False)
    xs.append(("readonly", ro, 1e-10))
    xs.append(("zeros", np.zeros(shape, dtype=complex), 1e-10))
    return xs


def check_op(tag, A, M, rng):
    if M.shape != (
        prod(A.oshape),
        prod(A.ishape),
    ):
        fail("%s: advertised shapes %s x %s vs matrix %s"
             % (tag, A.oshape, A.ishape, M.shape))
        return
    scale = max(1.0, np.abs(M).sum(axis=1).max())
    for name, x, tol in make_inputs(rng, A.ishape):
        keep = np.array(x, copy=True)
        for rep in range(2):  # repeated calls on the same object
            try:
                y = A(x)
            except RuntimeError as e:
                # Known upstream limitation (independent of this demo): Add
                # and Hstack accumulate in place, so a real-valued partial
                # sum followed by a complex term cannot be cast.  Only real
                # inputs can trigger it; they are skipped, not passed.
                if name == "f64" and is_inplace_cast_error(e):
                    SKIPPED.append(tag)
                    break
                raise
            if tuple(y.shape) != tuple(A.oshape):
                fail("%s[%s]: shape %s != oshape %s"
                     % (tag, name, y.shape, A.oshape))
                break
            ref = (M @ keep.ravel().astype(complex)).reshape(A.oshape)
            err = np.abs(y - ref).max() if y.size else 0.0
            bound = tol * scale * max(1.0, np.abs(keep).max())
            if not err <= bound:
                fail("%s[%s] rep%d: err %.3e > %.3e" % (tag, name, rep, err,
                                                        bound))
                break
        if not np.array_equal(keep, x):
            fail("%s[%s]: input modified" % (tag, name))
    # adjoint agrees with M^H (exercises Hstack<->Vstack<->Diag duality)
    yv = rng.standard_normal(A.oshape) + 1j * rng.standard_normal(A.oshape)
    z = A.H(yv)
    if tuple(z.shape) != tuple(A.ishape) or list(A.H.oshape) != list(A.ishape):
        fail("%s: adjoint shape" % tag)
    else:
        ref = (M.conj().T @ yv.ravel()).reshape(A.ishape)
        scaleH = max(1.0, np.abs(M).sum(axis=0).max())
        if not np.abs(z - ref).max() <= 1e-10 * scaleH * np.abs(yv).max():
            fail("%s: adjoint mismatch %.3e" % (tag, np.abs(z - ref).max()))


# ----------------------------------------------------------------------
# hand written structural cases
# ----------------------------------------------------------------------
def structural(rng):
    # A*B applies B then A
    A, MA = dense_leaf(rng, [2, 3], [4])
    B, MB = dense_leaf(rng, [4], [3, 1])
    check_op("compose", A * B, MA @ MB, rng)
    C, MC = dense_leaf(rng, [3, 1], [3, 1])
    check_op("compose3", A * B * C, MA @ MB @ MC, rng)
    check_op("compose-nested", A * (B * C), MA @ MB @ MC, rng)
    check_op("compose-nested2", (A * B) * (C * C), MA @ MB @ MC @ MC, rng)
    D, MD = dense_leaf(rng, [2, 3], [4])
    check_op("add", A + D, MA + MD, rng)
    check_op("sub", A - D, MA - MD, rng)
    check_op("add3", A + D + A, 2 * MA + MD, rng)
    check_op("neg", -A, -MA, rng)
    for a in (2, -1.5, 1, 0, 1 + 2j, np.float64(3.0), np.complex64(2j)):
        check_op("lscale %r" % (a,), a * A, complex(a) * MA, rng)
        check_op("rscale %r" % (a,), A * a, complex(a) * MA, rng)
    check_op("mixed", 2 * A * B - (D * B) * 1j,
             2 * MA @ MB - 1j * MD @ MB, rng)

    # stacks along every axis of a 3-d shape with different block sizes
    base = [2, 3, 2]
    for axis in list(range(-3, 3)):
        sizes = [1, 3, 2]
        shapes = []
        for s in sizes:
            sh = list(base)
            sh[axis] = s
            shapes.append(sh)
        tot = list(base)
        tot[axis] = sum(sizes)
        pos = split_positions(tot, sizes, axis % 3)
        # Hstack: same oshape [4], ishapes = shapes
        ops, mats = zip(*[dense_leaf(rng, [4], sh) for sh in shapes])
        M = np.zeros((4, prod(tot)), dtype=complex)
        for p, m in zip(pos, mats):
            M[:, p] = m
        H = linop.Hstack(list(ops), axis=axis)
        if list(H.ishape) != tot or list(H.oshape) != [4]:
            fail("Hstack advertised shape axis=%d" % axis)
        check_op("Hstack axis=%d" % axis, H, M, rng)
        # Vstack
        ops, mats = zip(*[dense_leaf(rng, sh, [4]) for sh in shapes])
        M = np.zeros((prod(tot), 4), dtype=complex)
        for p, m in zip(pos, mats):
            M[p, :] = m
        V = linop.Vstack(list(ops), axis=axis)
        if list(V.oshape) != tot or list(V.ishape) != [4]:
            fail("Vstack advertised shape axis=%d" % axis)
        check_op("Vstack axis=%d" % axis, V, M, rng)
        # Diag with a different input axis
        for iaxis in (-2, 0, 1, None):
            if iaxis is None:
                isizes = [2, 6, 1]
                ishapes = [[2], [3, 2], [1, 1]]
                itot = [9]
                ipos = split_positions(itot, isizes, 0)
            else:
                isizes = [2, 1, 1]
                ishapes = []
                ibase = [3, 2]
                for s in isizes:
                    sh = list(ibase)
                    sh[iaxis] = s
                    ishapes.append(sh)
                itot = list(ibase)
                itot[iaxis] = sum(isizes)
                ipos = split_positions(itot, isizes, iaxis % 2)
            ops, mats = zip(
                *[dense_leaf(rng, o, i) for o, i in zip(shapes, ishapes)]
            )
            M = np.zeros((prod(tot), prod(itot)), dtype=complex)
            for p, q, m in zip(pos, ipos, mats):
                M[np.ix_(p, q)] = m
            Dg = linop.Diag(list(ops), oaxis=axis, iaxis=iaxis)
            if list(Dg.oshape) != tot or list(Dg.ishape) != itot:
                fail("Diag advertised shape %s %s" % (axis, iaxis))
            check_op("Diag oaxis=%d iaxis=%s" % (axis, iaxis), Dg, M, rng)

    # many blocks, including size-1 blocks, stacked along a middle axis
    sizes = [1, 1, 2, 1, 3]
    for axis in (1, -2):
        shapes = [[2, s, 1] for s in sizes]
        tot = [2, sum(sizes), 1]
        pos = split_positions(tot, sizes, 1)
        ops, mats = zip(*[dense_leaf(rng, [3], sh) for sh in shapes])
        M = np.zeros((3, prod(tot)), dtype=complex)
        for p, m in zip(pos, mats):
            M[:, p] = m
        check_op("Hstack 5 blocks", linop.Hstack(list(ops), axis=axis), M,
                 rng)
        ops, mats = zip(*[dense_leaf(rng, sh, [3]) for sh in shapes])
        M = np.zeros((prod(tot), 3), dtype=complex)
        for p, m in zip(pos, mats):
            M[p, :] = m
        check_op("Vstack 5 blocks", linop.Vstack(list(ops), axis=axis), M,
                 rng)
        # stack of stacks
        V = linop.Vstack(list(ops), axis=axis)
        VV = linop.Vstack([V, V * 2], axis=0)
        check_op("Vstack of Vstacks", VV, np.vstack([M, 2 * M]), rng)
        HH = linop.Hstack([V.H, 1j * V.H], axis=-1)
        Mh = M.conj().T
        MM = np.zeros((3, 2 * prod(tot)), dtype=complex)
        pp = split_positions([2, sum(sizes), 2], [1, 1], 2)
        MM[:, pp[0]] = Mh
        MM[:, pp[1]] = 1j * Mh
        check_op("Hstack of Hstacks", HH, MM, rng)

    # axis None (flattened vectors), single-operand stacks
    shapes = [[2, 2], [3], [1, 2, 1]]
    sizes = [4, 3, 2]
    pos = split_positions([9], sizes, 0)
    ops, mats = zip(*[dense_leaf(rng, [2, 1], sh) for sh in shapes])
    M = np.zeros((2, 9), dtype=complex)
    for p, m in zip(pos, mats):
        M[:, p] = m
    check_op("Hstack None", linop.Hstack(list(ops)), M, rng)
    ops, mats = zip(*[dense_leaf(rng, sh, [2, 1]) for sh in shapes])
    M = np.zeros((9, 2), dtype=complex)
    for p, m in zip(pos, mats):
        M[p, :] = m
    check_op("Vstack None", linop.Vstack(list(ops)), M, rng)
    ops, mats = zip(*[dense_leaf(rng, sh, sh[::-1]) for sh in shapes])
    M = np.zeros((9, 9), dtype=complex)
    for p, m in zip(pos, mats):
        M[np.ix_(p, p)] = m
    check_op("Diag None", linop.Diag(list(ops)), M, rng)
    A1, M1 = dense_leaf(rng, [2, 3], [3, 1])
    check_op("Hstack single", linop.Hstack([A1], axis=-1), M1, rng)
    check_op("Vstack single", linop.Vstack([A1], axis=0), M1, rng)
    check_op("Diag single", linop.Diag([A1], oaxis=1, iaxis=-2), M1, rng)
    check_op("Hstack single None", linop.Hstack([A1]), M1, rng)
    check_op("Vstack single None", linop.Vstack([A1]), M1, rng)

    # real valued blocks after complex ones and vice versa (dtype promotion)
    USED_FFT[0] = True
    R = linop.Identity([3])
    F = linop.FFT([3])
    eye = np.eye(3)
    FM = np.fft.fftshift(
        np.fft.fft(np.fft.ifftshift(eye, axes=0), axis=0, norm="ortho"),
        axes=0,
    )
    check_op("Vstack real,complex", linop.Vstack([R, F], axis=0),
             np.vstack([eye, FM]), rng)
    check_op("Vstack complex,real", linop.Vstack([F, R], axis=-1),
             np.vstack([FM, eye]), rng)
    check_op("Diag real,complex", linop.Diag([R, F], oaxis=0, iaxis=0),
             np.block([[eye, 0 * eye], [0 * eye, FM]]), rng)
    USED_FFT[0] = False


# ----------------------------------------------------------------------
# rejection of incompatible operands
# ----------------------------------------------------------------------
def must_raise(tag, f):
    try:
        f()
    except Exception:
        return
    fail("%s: incompatible operands were accepted" % tag)


def rejections():
    I = linop.Identity
    R = linop.Reshape
    must_raise("compose", lambda: I([3]) * I([4]))
    must_raise("compose ndim", lambda: I([3]) * I([3, 1]))
    must_raise("compose list", lambda: linop.Compose([I([2]), I([2]), I([3])]))
    must_raise("add ishape", lambda: R([6], [2, 3]) + R([6], [3, 2]))
    must_raise("add oshape", lambda: R([2, 3], [6]) + R([3, 2], [6]))
    must_raise("sub", lambda: I([3]) - I([4]))
    must_raise("hstack oshape",
               lambda: linop.Hstack([R([6], [2, 3]), R([3, 2], [2, 3])], 0))
    must_raise("vstack ishape",
               lambda: linop.Vstack([R([2, 3], [6]), R([2, 3], [3, 2])], 0))
    for axis in (0, -2):
        must_raise("hstack offaxis %d" % axis, lambda: linop.Hstack(
            [R([6], [2, 3]), R([6], [3, 2])], axis=axis))
        must_raise("vstack offaxis %d" % axis, lambda: linop.Vstack(
            [R([2, 3], [6]), R([3, 2], [6])], axis=axis))
        must_raise("diag offaxis-o %d" % axis, lambda: linop.Diag(
            [R([2, 3], [6]), R([3, 2], [6])], oaxis=axis, iaxis=0))
        must_raise("diag offaxis-i %d" % axis, lambda: linop.Diag(
            [R([6], [2, 3]), R([6], [3, 2])], oaxis=0, iaxis=axis))
    must_raise("hstack ndim", lambda: linop.Hstack(
        [R([6], [2, 3]), R([6], [6])], axis=0))
    must_raise("vstack ndim", lambda: linop.Vstack(
        [R([2, 3], [6]), R([6], [6])], axis=0))
    must_raise("hstack 3rd block", lambda: linop.Hstack(
        [I([2, 3]), I([2, 3]), R([2, 3], [3, 2])], axis=0))
    must_raise("vstack 3rd block", lambda: linop.Vstack(
        [I([2, 3]), I([2, 3]), R([3, 2], [2, 3])], axis=1))
    # wrong input shape on application
    A = linop.Hstack([I([2, 3]), I([2, 3])], axis=1)
    must_raise("apply wrong shape", lambda: A(np.zeros([2, 5])))
    must_raise("apply wrong shape 2", lambda: (I([3]) + I([3]))(np.zeros(4)))
    # accepted borderline cases must keep working
    A(np.zeros([2, 6]))
    if list(A.ishape) != [2, 6] or list(A.oshape) != [2, 3]:
        fail("Hstack shape")


def main():
    rng = np.random.default_rng(20240603)
    structural(rng)
    rejections()
    shapes = [[3], [4], [1], [2, 3], [3, 1], [1, 2, 2], [5], [2, 2], [6],
              [2, 1, 3]]
    ntree = 0
    for depth in (1, 2, 3):
        for t in range(60):
            o = shapes[rng.integers(0, len(shapes))]
            i = shapes[rng.integers(0, len(shapes))]
            if rng.integers(0, 3) == 0:
                i = o
            USED_FFT[0] = False
            A, M = gen(rng, o, i, depth)
            if list(A.oshape) != list(o) or list(A.ishape) != list(i):
                fail("tree %d/%d: advertised %s x %s expected %s x %s"
                     % (depth, t, A.oshape, A.ishape, o, i))
                continue
            check_op("tree d%d #%d %r" % (depth, t, A), A, M, rng)
            ntree += 1
    print("checked %d random trees (%d real-input cases skipped: in-place "
          "cast limitation)" % (ntree, len(SKIPPED)))
    if FAIL:
        print("%d FAILURES" % len(FAIL))
        sys.exit(1)
    print("OK")


if __name__ == "__main__":
    main()
