"""C06 demo: sigpy.nufft approximates the exact non-uniform DFT

    y_j = N^(-1/2) * sum_n x_n exp(-2 pi i k_j . (n - N//2) / N)

to its stated accuracy and nufft_adjoint is its exact adjoint with the same
scaling.  Independent reference: the dense NUDFT matrix built with numpy.

Exits 0 iff every check passes.
"""
import sys
import warnings

import numpy as np

import sigpy as sp

warnings.simplefilter("ignore")
rng = np.random.default_rng(606)
failures = []
nchecks = 0


def check(cond, msg):
    global nchecks
    nchecks += 1
    if not cond:
        failures.append(msg)


def nudft_matrix(coord, shape):
    """Dense E with E[pts..., n...] for the transform dims `shape`."""
    ndim = len(shape)
    coord = np.asarray(coord, dtype=np.float64)
    pts = coord.shape[:-1]
    phase = np.zeros(pts + tuple(shape))
    for d in range(ndim):
        n = np.arange(shape[d]) - shape[d] // 2
        n = n.reshape((1,) * len(pts) + tuple(
            shape[d] if e == d else 1 for e in range(ndim)))
        k = coord[..., d].reshape(pts + (1,) * ndim)
        phase = phase + k * n / shape[d]
    return np.exp(-2j * np.pi * phase) / np.sqrt(np.prod(shape))


def nudft(x, coord, ndim):
    E = nudft_matrix(coord, x.shape[x.ndim - ndim:])
    ax = list(range(-ndim, 0))
    return np.tensordot(np.asarray(x, dtype=np.complex128), E, axes=(ax, ax))


def nudft_adjoint(y, coord, shape, ndim):
    E = nudft_matrix(coord, shape[len(shape) - ndim:])
    npd = coord.ndim - 1
    ya = list(range(y.ndim - npd, y.ndim))
    return np.tensordot(np.asarray(y, dtype=np.complex128), E.conj(),
                        axes=(ya, list(range(npd))))


def relerr(a, b):
    a = np.asarray(a, dtype=np.complex128)
    b = np.asarray(b, dtype=np.complex128)
    den = np.linalg.norm(b.ravel())
    return np.linalg.norm((a - b).ravel()) / (den if den > 0 else 1.0)


def rnd(shape, dtype):
    if np.issubdtype(dtype, np.complexfloating):
        return (rng.standard_normal(shape)
                + 1j * rng.standard_normal(shape)).astype(dtype)
    return rng.standard_normal(shape).astype(dtype)


def make_coord(kind, pts, shape, ndim):
    N = np.array(shape[len(shape) - ndim:], dtype=float)
    u = rng.uniform(-0.5, 0.5, pts + (ndim,))
    if kind == "random":
        return u * N
    if kind == "grid":
        return np.floor(u * N)
    if kind == "half":
        return np.floor(u * N) + 0.5
    if kind == "cluster":
        return 0.3 * N + 1e-3 * rng.standard_normal(pts + (ndim,))
    if kind == "out":
        return 5 * u * N
    raise ValueError(kind)


# (oversamp, width) -> bound on the relative l2 error.  The first two are
# the figures stated in the property; the rest are measured with margin.
BOUNDS = {
    (1.25, 4): 3e-2,
    (2, 4): 3e-3,
    (2.0, 4.0): 3e-3,
    (1.25, 3): 8e-2,
    (1.5, 3): 4e-2,
    (1.25, 6): 1.5e-3,
    (1.6, 5): 8e-4,
    (2, 6): 5e-5,
}
# image shape, number of transform dims
CASES = [((1,), 1), ((2,), 1), ((3,), 1), ((8,), 1), ((9,), 1), ((33,), 1),
         ((64,), 1), ((3, 8), 1), ((2, 1, 7), 1),
         ((4, 5), 2), ((1, 6), 2), ((7, 1), 2), ((16, 15), 2), ((2, 8, 9), 2),
         ((3, 1, 4, 6), 2),
         ((4, 5, 6), 3), ((1, 1, 5), 3), ((2, 6, 7, 8), 3), ((2, 1, 3, 5, 4), 3)]
KINDS = ["random", "grid", "half", "cluster", "out"]
PTS = [(40,), (5, 8), (1,)]

for ci, (shape, ndim) in enumerate(CASES):
    for ki, kind in enumerate(KINDS):
        pts = PTS[(ci + ki) % len(PTS)] if kind != "cluster" else (40,)
        for dtype, cdtype, fptol in ((np.complex128, np.float64, 1e-11),
                                     (np.complex64, np.float32, 3e-5),
                                     (np.complex64, np.float64, 3e-5)):
            coord = make_coord(kind, pts, shape, ndim).astype(cdtype)
            coord.setflags(write=False)
            coord_keep = coord.copy()
            x = rnd(shape, dtype)
            x.setflags(write=False)
            x_keep = x.copy()
            ref = nudft(x, coord, ndim)
            yd = rnd(shape[:len(shape) - ndim] + pts, dtype)
            yd.setflags(write=False)
            for (oversamp, width), bound in BOUNDS.items():
                tag = "shape=%s ndim=%d kind=%s pts=%s %s/%s os=%r w=%r" % (
                    shape, ndim, kind, pts, np.dtype(dtype).name,
                    np.dtype(cdtype).name, oversamp, width)
                if (oversamp, width) == (1.25, 4):
                    y = sp.nufft(x, coord)  # the defaults
                else:
                    y = sp.nufft(x, coord, oversamp=oversamp, width=width)
                check(y.shape == ref.shape and y.dtype == dtype,
                      "shape/dtype %s %s " % (y.shape, y.dtype) + tag)
                if y.shape != ref.shape:
                    continue
                # clustered points make the reference norm small and the
                # error coherent; allow a looser (still O(bound)) figure.
                b = bound * (5 if kind == "cluster" else 1)
                if len(pts) == 1 and pts[0] == 1:
                    b = bound * 5
                b = max(b, 10 * fptol)
                e = relerr(y, ref)
                check(e < b, "accuracy err=%.3e bound=%.1e " % (e, b) + tag)
                # repeated call: identical result
                y2 = sp.nufft(x, coord, oversamp=oversamp, width=width)
                check(np.array_equal(y, y2), "repeat " + tag)

                # adjoint: <A x, y> == <x, A^H y> to rounding
                xa = sp.nufft_adjoint(yd, coord, oshape=shape,
                                      oversamp=oversamp, width=width)
                check(xa.shape == tuple(shape) and xa.dtype == dtype,
                      "adjoint shape/dtype " + tag)
                lhs = np.vdot(yd.astype(np.complex128), y.astype(np.complex128))
                rhs = np.vdot(xa.astype(np.complex128), x.astype(np.complex128))
                scale = (np.linalg.norm(yd.ravel())
                         * np.linalg.norm(y.ravel()) + 1e-300)
                check(abs(lhs - rhs) < 20 * fptol * scale,
                      "adjoint dot %r vs %r " % (lhs, rhs) + tag)
                # adjoint approximates the exact adjoint as well
                if kind != "cluster" and pts != (1,):
                    refa = nudft_adjoint(yd, coord, shape, ndim)
                    ea = relerr(xa, refa)
                    check(ea < max(3 * bound, 10 * fptol),
                          "adjoint accuracy err=%.3e " % ea + tag)
            check(np.array_equal(x, x_keep)
                  and np.array_equal(coord, coord_keep), "inputs mutated")

# periodicity: shifting a coordinate by N along a transform axis
for shape, ndim in (((8,), 1), ((9,), 1), ((6, 7), 2), ((4, 5, 6), 3)):
    x = rnd(shape, np.complex128)
    c = make_coord("random", (30,), shape, ndim)
    shift = np.array(shape) * rng.integers(-3, 4, (30, ndim))
    # exact transform picks up exp(-2 pi i * shift * (n - N//2) / N) = 1
    ya = sp.nufft(x, c, oversamp=2, width=6)
    yb = sp.nufft(x, c + shift, oversamp=2, width=6)
    check(relerr(yb, ya) < 1e-4, "periodic %s err=%.2e" % (shape, relerr(yb, ya)))

# non-contiguous image / coordinates, Gram matrix, linop wrappers
x = rnd((9, 6, 8), np.complex128).transpose(2, 1, 0)[:, ::2]  # (8, 3, 9)
c = np.asfortranarray(make_coord("random", (25,), x.shape, 2))
check(relerr(sp.nufft(x, c, oversamp=2, width=6), nudft(x, c, 2)) < 5e-5,
      "non-contiguous")
shape = (6, 7)
c = make_coord("random", (50,), shape, 2)
E = nudft_matrix(c, shape).reshape(50, -1)
x = rnd(shape, np.complex128)
g = sp.nufft_adjoint(sp.nufft(x, c, oversamp=2, width=6), c, oshape=shape,
                     oversamp=2, width=6)
check(relerr(g.ravel(), E.conj().T @ (E @ x.ravel())) < 1e-4, "gram")
A = sp.linop.NUFFT(shape, c)
check(relerr(A(x), E @ x.ravel()) < 3e-2, "linop NUFFT")
check(relerr(A.H(A(x)).ravel(), E.conj().T @ (E @ x.ravel())) < 6e-2,
      "linop NUFFT normal")
# real-dtype image
xr = rnd((5, 6), np.float64)
c = make_coord("random", (20,), (5, 6), 2)
check(relerr(sp.nufft(xr, c, oversamp=2, width=6), nudft(xr, c, 2)) < 1e-4,
      "real input")
# delta at the centre -> constant N^-1/2
for n in (1, 4, 7):
    d = np.zeros(n, np.complex128)
    d[n // 2] = 1
    y = sp.nufft(d, rng.uniform(-n / 2, n / 2, (10, 1)), oversamp=2, width=6)
    check(np.allclose(y, n ** -0.5, rtol=1e-4), "delta n=%d" % n)

# ---- interleaved repeated calls: same sizes with different dtype, width,
# oversamp and image shape order; results must not depend on call history
hist = []
for rep in range(3):
    for shape, ndim in (((6, 6), 2), ((6,), 1), ((5, 6), 2), ((6, 5), 2),
                        ((2, 6, 6), 2)):
        c = make_coord("random", (20,), shape, ndim)
        for dtype, tol in ((np.complex64, 3e-5), (np.complex128, 0)):
            for oversamp, width in ((2, 6), (2.0, 6.0), (1.25, 6), (2, 4),
                                    (1.6, 5), (np.float64(1.6), np.int64(5))):
                x = rnd(shape, dtype)
                y = sp.nufft(x, c, oversamp=oversamp, width=width)
                bound = BOUNDS[(float(oversamp) if oversamp != 2 else 2,
                                int(width))]
                check(relerr(y, nudft(x, c, ndim)) < bound + tol,
                      "history nufft %s %s %r %r" % (shape, dtype.__name__,
                                                     oversamp, width))
                y *= 0  # scribbling on an output must not affect later calls
                xa = sp.nufft_adjoint(rnd((20,), dtype), c, oshape=shape[-ndim:],
                                      oversamp=oversamp, width=width)
                xa *= 0
# many different lengths (more than any reasonable cache size), twice
for rep in range(2):
    for n in range(1, 160):
        x = rnd((n,), np.complex128)
        c = make_coord("random", (7,), (n,), 1)
        e = relerr(sp.nufft(x, c, oversamp=2, width=6), nudft(x, c, 1))
        check(e < 5e-5, "length sweep n=%d err=%.2e" % (n, e))

print("checks: %d, failures: %d" % (nchecks, len(failures)))
for f in failures[:30]:
    print("FAIL", f)
sys.exit(1 if failures else 0)
