"""C08 demo: sigpy.convolve / convolve_data_adjoint / convolve_filter_adjoint
against an independent shift-and-add reference and dense adjoint matrices.

Exit status 0 iff every check passes.
"""
import itertools
import sys
import warnings

import numpy as np

import sigpy as sp

warnings.simplefilter("ignore")
FAILS = []
rng = np.random.RandomState(8080)


# ----------------------------------------------------------------------------
# independent reference (no scipy.signal): shift-and-add
# ----------------------------------------------------------------------------
def ref_full(d, f):
    """Full linear convolution of two D-dimensional arrays."""
    m, n = d.shape, f.shape
    out = np.zeros([a + b - 1 for a, b in zip(m, n)], np.complex128)
    for j in np.ndindex(*n):
        slc = tuple(slice(jd, jd + md) for jd, md in zip(j, m))
        out[slc] += d * f[j]
    return out


def ref_convolve(data, filt, mode, strides, multi_channel):
    D = filt.ndim - 2 * multi_channel
    m = data.shape[data.ndim - D:]
    n = filt.shape[filt.ndim - D:]
    if strides is None:
        strides = (1,) * D
    if multi_channel:
        c_o, c_i = filt.shape[:2]
        b = data.shape[:data.ndim - D - 1]
    else:
        c_o = c_i = 1
        b = data.shape[:data.ndim - D]
    B = int(np.prod(b, dtype=int))
    d = data.reshape((B, c_i) + tuple(m)).astype(np.complex128)
    f = filt.reshape((c_o, c_i) + tuple(n)).astype(np.complex128)
    if mode == "full":
        crop = tuple(slice(None) for _ in range(D))
    else:
        crop = tuple(slice(min(a, c) - 1, max(a, c)) for a, c in zip(m, n))
    sub = tuple(slice(None, None, s) for s in strides)
    outs = []
    for k in range(B):
        row = []
        for j in range(c_o):
            acc = 0
            for i in range(c_i):
                acc = acc + ref_full(d[k, i], f[j, i])
            row.append(acc[crop][sub])
        outs.append(row)
    out = np.array(outs)
    p = out.shape[2:]
    if multi_channel:
        return out.reshape(tuple(b) + (c_o,) + p)
    return out.reshape(tuple(b) + p)


def rel_err(a, b):
    scale = max(np.max(np.abs(b)) if b.size else 0.0, 1e-300)
    return (np.max(np.abs(a - b)) if b.size else 0.0) / scale


def check(name, got, want, tol):
    if tuple(got.shape) != tuple(want.shape):
        FAILS.append("%s: shape %s != %s" % (name, got.shape, want.shape))
        return
    e = rel_err(np.asarray(got, np.complex128), want)
    if not e <= tol:
        FAILS.append("%s: rel err %.3e > %.1e" % (name, e, tol))


def rand(shape, dtype):
    x = rng.standard_normal(shape)
    if np.issubdtype(dtype, np.complexfloating):
        x = x + 1j * rng.standard_normal(shape)
    return x.astype(dtype)


def tol_of(dtype):
    return 2e-5 if np.dtype(dtype) in (np.dtype(np.float32),
                                       np.dtype(np.complex64)) else 1e-11


def variant_of(x, variant):
    """Return an array equal to x with an unusual memory layout / flags."""
    if variant == "noncontig" and x.ndim >= 1:
        big = np.zeros(x.shape[:-1] + (2 * x.shape[-1],), x.dtype)
        big[..., ::2] = x
        return big[..., ::2]
    if variant == "fortran":
        return np.asfortranarray(x)
    if variant == "readonly":
        y = x.copy()
        y.setflags(write=False)
        return y
    return x


def run_case(b, m, n, mode, strides, mc, c_i, c_o, dtype, variant, tag):
    if mc:
        dshape = tuple(b) + (c_i,) + tuple(m)
        fshape = (c_o, c_i) + tuple(n)
    else:
        dshape = tuple(b) + tuple(m)
        fshape = tuple(n)
    tol = tol_of(dtype)
    data = variant_of(rand(dshape, dtype), variant)
    filt = variant_of(rand(fshape, dtype), variant)
    data0, filt0 = np.array(data), np.array(filt)

    if mode == "valid" and (any(a >= c for a, c in zip(m, n))
                            and any(a < c for a, c in zip(m, n))):
        # The library rejects valid mode unless data >= filter on every axis
        # or data < filter on every axis; rejection must be a ValueError
        # from all three entry points.
        D = len(m)
        pshape = dshape[:len(dshape) - D] + (1,) * D
        for fn in [
            lambda: sp.convolve(data, filt, mode=mode, strides=strides,
                                multi_channel=mc),
            lambda: sp.convolve_data_adjoint(
                np.zeros(pshape, dtype), filt, dshape, mode=mode,
                strides=strides, multi_channel=mc),
            lambda: sp.convolve_filter_adjoint(
                np.zeros(pshape, dtype), data, fshape, mode=mode,
                strides=strides, multi_channel=mc),
        ]:
            try:
                fn()
            except ValueError:
                pass
            else:
                FAILS.append(tag + " expected rejection")
        return

    want = ref_convolve(data0, filt0, mode, strides, mc)
    got = sp.convolve(data, filt, mode=mode, strides=strides,
                      multi_channel=mc)
    if got.dtype != np.dtype(dtype):
        FAILS.append("%s: convolve dtype %s" % (tag, got.dtype))
    check(tag + " convolve", got, want, tol)
    got2 = sp.convolve(data, filt, mode=mode, strides=strides,
                       multi_channel=mc)
    if not np.array_equal(got, got2):
        FAILS.append(tag + " repeated convolve differs")

    # adjoints: dense check <A x, y> structure through explicit sums.
    out = variant_of(rand(want.shape, dtype), variant)
    out0 = np.array(out)

    # data adjoint: (A^H y)[e] = <A e, y> for every basis vector e -- use
    # linearity instead: compare with gradient of the bilinear form.
    dadj = sp.convolve_data_adjoint(out, filt, dshape, mode=mode,
                                    strides=strides, multi_channel=mc)
    if tuple(dadj.shape) != dshape:
        FAILS.append("%s: data adjoint shape %s" % (tag, dadj.shape))
    else:
        want_d = np.zeros(dshape, np.complex128)
        for idx in np.ndindex(*dshape):
            e = np.zeros(dshape, np.complex128)
            e[idx] = 1
            Ae = ref_convolve(e, filt0, mode, strides, mc)
            want_d[idx] = np.vdot(Ae, out0)
        check(tag + " data_adjoint", dadj, want_d, tol)
        if dadj.dtype != np.dtype(dtype):
            FAILS.append("%s: data adjoint dtype %s" % (tag, dadj.dtype))

    fadj = sp.convolve_filter_adjoint(out, data, fshape, mode=mode,
                                      strides=strides, multi_channel=mc)
    if tuple(fadj.shape) != fshape:
        FAILS.append("%s: filter adjoint shape %s" % (tag, fadj.shape))
    else:
        want_f = np.zeros(fshape, np.complex128)
        for idx in np.ndindex(*fshape):
            e = np.zeros(fshape, np.complex128)
            e[idx] = 1
            Ae = ref_convolve(data0, e, mode, strides, mc)
            want_f[idx] = np.vdot(Ae, out0)
        check(tag + " filter_adjoint", fadj, want_f, tol)
        if fadj.dtype != np.dtype(dtype):
            FAILS.append("%s: filter adjoint dtype %s" % (tag, fadj.dtype))

    # list-typed shapes are accepted as well
    dadj2 = sp.convolve_data_adjoint(out, filt, list(dshape), mode=mode,
                                     strides=strides, multi_channel=mc)
    fadj2 = sp.convolve_filter_adjoint(out, data, list(fshape), mode=mode,
                                       strides=strides, multi_channel=mc)
    if not (np.array_equal(dadj, dadj2) and np.array_equal(fadj, fadj2)):
        FAILS.append(tag + " repeated adjoint differs")

    if not (np.array_equal(data, data0) and np.array_equal(filt, filt0)
            and np.array_equal(out, out0)):
        FAILS.append(tag + " inputs modified")


DTYPES = [np.float64, np.complex128, np.complex64, np.float32]
VARIANTS = [None, "noncontig", "readonly", "fortran"]
count = 0

# 1-D: exhaustive small sizes, filter shorter / equal / longer than data
for m, n, s, mode in itertools.product(range(1, 6), range(1, 6), (1, 2, 3),
                                       ("full", "valid")):
    k = count
    mc = (k % 3 == 0)
    c_i, c_o = (1 + k % 2, 1 + (k // 2) % 3) if mc else (1, 1)
    b = [(), (2,), (1, 2)][k % 3]
    strides = None if (s == 1 and k % 2) else (s,)
    tag = "1d m=%d n=%d s=%s %s mc=%s b=%s" % (m, n, strides, mode, mc, b)
    run_case(b, (m,), (n,), mode, strides, mc, c_i, c_o, DTYPES[k % 4],
             VARIANTS[(k // 4) % 4], tag)
    count += 1

# 2-D
SH2 = [((4, 3), (2, 2)), ((3, 5), (3, 1)), ((1, 4), (1, 2)), ((2, 2), (2, 2)),
       ((2, 3), (4, 3)), ((1, 1), (3, 2)), ((5, 4), (1, 1)), ((3, 3), (2, 3))]
for (m, n), s, mode in itertools.product(
        SH2, [None, (1, 2), (2, 1), (3, 2)], ("full", "valid")):
    k = count
    mc = (k % 2 == 0)
    c_i, c_o = (1 + k % 3, 1 + (k // 3) % 2) if mc else (1, 1)
    b = [(), (2,), (2, 1)][k % 3]
    tag = "2d m=%s n=%s s=%s %s mc=%s b=%s" % (m, n, s, mode, mc, b)
    run_case(b, m, n, mode, s, mc, c_i, c_o, DTYPES[k % 4],
             VARIANTS[(k // 4) % 4], tag)
    count += 1

# 3-D
SH3 = [((3, 2, 4), (2, 2, 3)), ((2, 1, 3), (2, 1, 1)), ((1, 2, 2), (2, 3, 2)),
       ((2, 2, 2), (2, 2, 2))]
for (m, n), s, mode in itertools.product(
        SH3, [None, (2, 1, 2), (1, 3, 1)], ("full", "valid")):
    k = count
    mc = (k % 2 == 1)
    c_i, c_o = (2, 1 + k % 2) if mc else (1, 1)
    b = [(), (2,)][k % 2]
    tag = "3d m=%s n=%s s=%s %s mc=%s b=%s" % (m, n, s, mode, mc, b)
    run_case(b, m, n, mode, s, mc, c_i, c_o, DTYPES[k % 4],
             VARIANTS[(k // 4) % 4], tag)
    count += 1

# a few larger problems (scipy may pick its FFT path here)
for m, n, s, mode, dtype in [((64,), (33,), (3,), "full", np.complex128),
                             ((40,), (64,), (2,), "valid", np.float64),
                             ((24, 20), (9, 8), (2, 3), "valid",
                              np.complex128),
                             ((24, 20), (9, 8), None, "full", np.float64)]:
    data = rand((2,) + m, dtype)
    filt = rand(n, dtype)
    got = sp.convolve(data, filt, mode=mode, strides=s)
    check("large %s %s" % (m, mode), got,
          ref_convolve(data, filt, mode, s, False), 1e-11)
    out = rand(got.shape, dtype)
    dadj = sp.convolve_data_adjoint(out, filt, data.shape, mode=mode,
                                    strides=s)
    fadj = sp.convolve_filter_adjoint(out, data, filt.shape, mode=mode,
                                      strides=s)
    x = rand(data.shape, dtype)
    f = rand(filt.shape, dtype)
    lhs = np.vdot(sp.convolve(x, filt, mode=mode, strides=s), out)
    rhs = np.vdot(x, dadj)
    if abs(lhs - rhs) > 1e-10 * max(abs(lhs), 1):
        FAILS.append("large data adjoint identity %s" % (m,))
    lhs = np.vdot(sp.convolve(data, f, mode=mode, strides=s), out)
    rhs = np.vdot(f, fadj)
    if abs(lhs - rhs) > 1e-10 * max(abs(lhs), 1):
        FAILS.append("large filter adjoint identity %s" % (m,))
    count += 1

# rejected configurations stay rejected
for fn in [
    lambda: sp.convolve(np.ones((3, 2)), np.ones((2, 3)), mode="valid"),
    lambda: sp.convolve(np.ones(4), np.ones(2), mode="same"),
    lambda: sp.convolve(np.ones(4), np.ones(2), strides=(1, 1)),
    lambda: sp.convolve(np.ones((3, 4)), np.ones((2, 2, 2)),
                        multi_channel=True),
    lambda: sp.convolve_data_adjoint(np.ones((2, 2)), np.ones((2, 3)),
                                     (3, 2), mode="valid"),
    lambda: sp.convolve_filter_adjoint(np.ones(3), np.ones(4), (2,),
                                       mode="circular"),
]:
    try:
        fn()
    except ValueError:
        pass
    else:
        FAILS.append("expected ValueError")
    count += 1

# upstream examples
check("example full", sp.convolve(np.array([0.0, 0, 1, 0, 0]),
                                  np.array([1.0, 1, 1])),
      np.array([0, 0, 1, 1, 1, 0, 0], complex), 1e-12)
check("example valid", sp.convolve(np.array([0.0, 0, 1, 0, 0]),
                                   np.array([1.0, 1, 1]), mode="valid"),
      np.array([1, 1, 1], complex), 1e-12)

if FAILS:
    print("FAILED (%d problems, %d cases)" % (len(FAILS), count))
    for f in FAILS[:40]:
        print("  ", f)
    sys.exit(1)
print("OK: %d cases" % count)
sys.exit(0)
