"""C12 demo: conjugate gradient produces the Krylov-optimal iterate at every
step.

Independent reference: for every prefix length k the A-norm-optimal point of
x0 + K_k(MA, M r0) is computed by dense linear algebra (Arnoldi basis with
re-orthogonalisation + Galerkin projection, all in complex128), and the
exact solution by numpy.linalg.solve.  sigpy's ConjugateGradient is stepped
one update at a time and compared with it.

Exit status 0 iff every check passes.
"""
import sys

import numpy as np

import sigpy as sp
from sigpy.alg import ConjugateGradient

FAILS = []
NCHECK = [0]


def check(cond, msg):
    NCHECK[0] += 1
    if not cond:
        FAILS.append(msg)
        if len(FAILS) <= 40:
            print("FAIL:", msg)


def is_single(dtype):
    return np.dtype(dtype) in (np.dtype(np.float32), np.dtype(np.complex64))


def rand(rng, shape, dtype):
    x = rng.standard_normal(shape)
    if np.dtype(dtype).kind == "c":
        x = x + 1j * rng.standard_normal(shape)
    return x.astype(dtype)


def make_hpd(rng, n, cond, dtype, kind):
    cdt = np.complex128 if np.dtype(dtype).kind == "c" else np.float64
    q, _ = np.linalg.qr(rand(rng, (n, n), cdt))
    if kind == "generic":
        w = np.logspace(0, np.log10(cond), n) if n > 1 else np.array([cond])
    elif kind == "clustered":  # repeated eigenvalues: Krylov grade < n
        vals = np.logspace(0, np.log10(cond), max(1, (n + 2) // 3))
        w = np.resize(vals, n)
    elif kind == "scaled_identity":
        w = np.full(n, 2.5)
    elif kind == "diagonal":
        w = np.logspace(0, np.log10(cond), n) if n > 1 else np.array([cond])
        q = np.eye(n, dtype=cdt)
    a = (q * w) @ q.conj().T
    a = (a + a.conj().T) / 2
    return a.astype(dtype)


def krylov_optimal(Afull, Mfull, b, x0, kmax):
    """A-norm optimal points of x0 + K_k(MA, M r0), k = 0..kmax (dense)."""
    Afull = Afull.astype(np.complex128)
    Mfull = Mfull.astype(np.complex128)
    b = b.astype(np.complex128)
    x0 = x0.astype(np.complex128)
    r0 = b - Afull @ x0
    out = [x0.copy()]
    basis = []
    v = Mfull @ r0
    nrm0 = np.linalg.norm(v)
    invariant = nrm0 == 0
    for k in range(1, kmax + 1):
        if not invariant:
            for _ in range(2):  # re-orthogonalise
                for u in basis:
                    v = v - u * np.vdot(u, v)
            nv = np.linalg.norm(v)
            if nv <= 1e-10 * nrm0:
                invariant = True
            else:
                v = v / nv
                basis.append(v)
                v = Mfull @ (Afull @ v)
                nrm0 = max(nrm0, np.linalg.norm(v))
        if basis:
            V = np.stack(basis, axis=1)
            c = np.linalg.solve(V.conj().T @ Afull @ V, V.conj().T @ r0)
            out.append(x0 + V @ c)
        else:
            out.append(x0.copy())
    return out


def anorm(Afull, e):
    e = e.astype(np.complex128)
    return float(np.sqrt(max(0.0, np.real(np.vdot(e, Afull.astype(np.complex128) @ e)))))


def eps_of(dtype):
    return 6e-8 if is_single(dtype) else 1.2e-16


def optimality_tol(dtype, keff, k):
    """How far a floating-point CG iterate may sit from the exact
    Krylov-optimal point (relative to the initial A-norm error).  Rounding
    errors in CG are amplified geometrically with the step index at a rate
    governed by the condition number of the preconditioned operator."""
    g = max(2.0, keff ** 0.75)
    return 1e3 * eps_of(dtype) * g ** (k - 1)


STATS = {"ratio": 0.0, "opt_checked": 0, "opt_skipped": 0}


def run_case(name, rng, n, m, cond, dtype, kind, precond, a_form, x0_kind,
             layout, max_iter, xshape_kind):
    A = make_hpd(rng, n, cond, dtype, kind)
    # x lives in an array of shape xshape; A acts on the leading axis
    if xshape_kind == "vec":
        xshape, m = (n,), 1
    elif xshape_kind == "col":
        xshape, m = (n, 1), 1
    else:
        xshape = (n, m)
    Afull = np.kron(A, np.eye(m)) if m > 1 else A.copy()

    if a_form == "func":
        Aop = lambda v: A @ v  # noqa: E731
    elif a_form == "linop":
        if len(xshape) == 1:
            Aop = sp.linop.Reshape((n,), (n, 1)) * sp.linop.MatMul((n, 1), A) \
                * sp.linop.Reshape((n, 1), (n,))
        else:
            Aop = sp.linop.MatMul(xshape, A)

    if precond == "none":
        P, Mfull = None, np.eye(n * m)
    elif precond == "identity_func":  # returns its argument itself
        P, Mfull = (lambda r: r), np.eye(n * m)
    elif precond == "jacobi":
        d = (1 / np.real(np.diag(A))).astype(A.real.dtype)
        dd = d.reshape((n,) + (1,) * (len(xshape) - 1))
        P = lambda r: dd * r  # noqa: E731
        Mfull = np.diag(np.repeat(d.astype(np.float64), m))
    elif precond in ("hpd_func", "hpd_linop"):
        Mm = make_hpd(rng, n, 10.0, dtype, "generic")
        Mfull = np.kron(Mm, np.eye(m)) if m > 1 else Mm.copy()
        if precond == "hpd_func" or len(xshape) == 1:
            P = lambda r: Mm @ r  # noqa: E731
        else:
            P = sp.linop.MatMul(xshape, Mm)

    b = rand(rng, xshape, dtype)
    xstar = np.linalg.solve(Afull.astype(np.complex128),
                            b.astype(np.complex128).ravel())
    if x0_kind == "zero":
        x0 = np.zeros(xshape, dtype)
    elif x0_kind == "random":
        x0 = rand(rng, xshape, dtype)
    elif x0_kind == "near":
        x0 = xstar.reshape(xshape) * (1 + 1e-2)
        x0 = (x0 if np.dtype(dtype).kind == "c" else x0.real).astype(dtype)

    # memory layouts
    if layout == "strided":
        big = np.zeros(tuple(2 * s for s in xshape), dtype)
        x = big[tuple(slice(None, None, 2) for _ in xshape)]
        x[...] = x0
        bbig = np.zeros(tuple(2 * s for s in xshape), dtype)
        bb = bbig[tuple(slice(1, None, 2) for _ in xshape)]
        bb[...] = b
    elif layout == "readonly_b":
        x = x0.copy()
        bb = b.copy()
        bb.setflags(write=False)
    else:
        x = x0.copy()
        bb = b.copy()
    b_before = np.array(bb, copy=True)

    e0 = anorm(Afull, x0.ravel() - xstar)
    kmax = min(max_iter, n * m + 1)
    ref = krylov_optimal(Afull, Mfull, b.ravel(), x0.ravel(), kmax)
    A128 = Afull.astype(np.complex128)
    M128 = Mfull.astype(np.complex128)
    Lm = np.linalg.cholesky(M128)
    keff = float(np.linalg.cond(Lm.conj().T @ A128 @ Lm))
    eps = eps_of(dtype)
    kA = float(np.linalg.cond(A128))
    kM = float(np.linalg.cond(M128))
    floor = 100 * eps * np.sqrt(kA) * (anorm(Afull, xstar) + anorm(Afull, x0.ravel()))
    b128 = b.astype(np.complex128).ravel()
    scale_r = float(np.linalg.norm(b128) + np.linalg.norm(A128, 2)
                    * (np.linalg.norm(xstar) + np.linalg.norm(x0.ravel())))

    alg = ConjugateGradient(Aop, bb, x, P=P, max_iter=max_iter, tol=0)
    check(alg.x is x, name + ": alg.x is not the caller's array")
    r_true = b128 - A128 @ x0.astype(np.complex128).ravel()
    check(np.linalg.norm(np.asarray(alg.r).ravel() - r_true) <= 50 * eps * scale_r,
          name + ": initial residual wrong")
    z0 = M128 @ r_true
    check(np.linalg.norm(np.asarray(alg.p).ravel() - z0)
          <= 50 * eps * np.linalg.norm(M128, 2) * scale_r,
          name + ": initial direction is not P r0")
    check(abs(alg.resid - np.sqrt(max(0.0, np.real(np.vdot(r_true, z0)))))
          <= 50 * eps * np.sqrt(np.linalg.norm(M128, 2)) * scale_r,
          name + ": initial resid")
    nM = float(np.linalg.norm(M128, 2))
    # residuals below eps * (problem scale) are rounding noise (and their
    # squares may underflow in single precision): not compared relatively
    noise = eps * scale_r
    prev = e0
    k = 0
    while not alg.done() and k < kmax:
        # ---- the solver's state before the step, in complex128 ----------
        xp_ = np.array(x, dtype=np.complex128).ravel()
        rp_ = np.array(alg.r, dtype=np.complex128).ravel()
        pp_ = np.array(alg.p, dtype=np.complex128).ravel()
        alg.update()
        k += 1
        check(alg.x is x, name + ": alg.x rebound at update %d" % k)
        check(alg.iter == k, name + ": iter counter")
        xk = np.array(x, dtype=np.complex128).ravel()
        if alg.not_positive_definite:
            # only legitimate on an exactly-zero direction (solution reached)
            check(np.real(np.vdot(pp_, A128 @ pp_)) <= 0,
                  name + ": spurious breakdown at update %d" % k)
            check(np.array_equal(xk, xp_), name + ": x moved on breakdown")
            break
        # ---- one textbook PCG step replayed from that state -------------
        zp_ = M128 @ rp_
        rz = np.real(np.vdot(rp_, zp_))
        Ap_ = A128 @ pp_
        a_ = rz / np.real(np.vdot(pp_, Ap_))
        # alpha = <r,z>/<p,Ap> is itself only determined to eps * cond
        step_scale = np.linalg.norm(xp_) + kA * kM * abs(a_) * np.linalg.norm(pp_)
        check(np.linalg.norm(xk - (xp_ + a_ * pp_)) <= 100 * eps * step_scale,
              name + ": update %d is not x + alpha p" % k)
        if k < max_iter:
            rn_ = rp_ - a_ * Ap_
            rk = np.array(alg.r, dtype=np.complex128).ravel()
            check(np.linalg.norm(rk - rn_) <= 100 * eps * (
                np.linalg.norm(rp_) + kA * kM * abs(a_) * np.linalg.norm(Ap_)
                + noise),
                name + ": residual recurrence broken at %d" % k)
            zn_ = M128 @ rk
            rzn = np.real(np.vdot(rk, zn_))
            pn_ = zn_ + (rzn / rz) * pp_
            pk = np.array(alg.p, dtype=np.complex128).ravel()
            check(np.linalg.norm(pk - pn_) <= 200 * eps * kM * (
                np.linalg.norm(M128, 2) * np.linalg.norm(rk)
                + (rzn / rz) * np.linalg.norm(pp_) + nM * noise),
                name + ": direction recurrence broken at %d" % k)
            check(abs(alg.resid - np.sqrt(max(rzn, 0.0)))
                  <= 100 * eps * np.sqrt(nM) * (np.linalg.norm(rk) + noise),
                  name + ": resid != sqrt(<r, P r>) at %d" % k)
            # the tracked residual is the true residual
            rt = b128 - A128 @ xk
            check(np.linalg.norm(rk - rt) <= 200 * eps * scale_r * (k + 1),
                  name + ": tracked residual drifted at %d (%g)" % (
                      k, np.linalg.norm(rk - rt)))
        check(np.isfinite(alg.resid), name + ": resid not finite")
        # ---- global optimality over the Krylov space --------------------
        ek = anorm(Afull, xk - xstar)
        dk = anorm(Afull, xk - ref[k])
        tk = optimality_tol(dtype, keff, k)
        if tk <= 0.05:
            STATS["opt_checked"] += 1
            STATS["ratio"] = max(STATS["ratio"], dk / (tk * max(e0, 1e-300) + floor))
            check(dk <= tk * max(e0, 1e-300) + floor,
                  name + ": update %d not Krylov-optimal (dist %g, e0 %g, tol %g)"
                  % (k, dk, e0, tk))
        else:
            STATS["opt_skipped"] += 1
        check(ek <= prev + 1e3 * eps * keff * e0 + floor,
              name + ": A-norm error increased at %d (%g -> %g)" % (k, prev, ek))
        prev = ek
    check(alg.done() or k == kmax, name + ": not done after max_iter")
    check(np.array_equal(np.asarray(bb), b_before), name + ": b modified")
    if np.dtype(dtype).kind == "c":
        check(np.iscomplexobj(x), name + ": complex x lost")
    check(x.dtype == np.dtype(dtype), name + ": x dtype changed")
    return np.array(x, copy=True)


def special_cases(rng):
    for dtype in (np.float32, np.float64, np.complex64, np.complex128):
        single = is_single(dtype)
        tol = 2e-3 if single else 1e-9
        # --- max_iter == 1 is a single preconditioned steepest-descent step
        for n in (1, 2, 5, 9):
            A = make_hpd(rng, n, 50.0, dtype, "generic")
            Mm = make_hpd(rng, n, 5.0, dtype, "generic")
            b = rand(rng, (n,), dtype)
            x0 = rand(rng, (n,), dtype)
            for P, M in ((None, np.eye(n)), (lambda r: Mm @ r, Mm)):
                x = x0.copy()
                alg = ConjugateGradient(lambda v: A @ v, b, x, P=P, max_iter=1)
                check(not alg.done(), "max_iter=1: done before the first update")
                alg.update()
                check(alg.done(), "max_iter=1: not done after one update")
                A128, M128 = A.astype(np.complex128), M.astype(np.complex128)
                r0 = b.astype(np.complex128) - A128 @ x0.astype(np.complex128)
                z0 = M128 @ r0
                a = np.real(np.vdot(r0, z0)) / np.real(np.vdot(z0, A128 @ z0))
                check(np.linalg.norm(x - (x0 + a * z0)) <= tol * max(1, np.linalg.norm(x0 + a * z0)),
                      "max_iter=1 step wrong (%s, n=%d)" % (np.dtype(dtype), n))
                check(alg.x is x, "max_iter=1: x identity")
        # --- tol stopping: stops at the first iterate with resid <= tol
        for n in (3, 6, 12):
            A = make_hpd(rng, n, 100.0, dtype, "generic")
            b = rand(rng, (n,), dtype)
            t = 1e-2 * float(np.linalg.norm(b))
            x = np.zeros(n, dtype)
            alg = ConjugateGradient(lambda v: A @ v, b, x, max_iter=100, tol=t)
            hist = [alg.resid]
            while not alg.done():
                alg.update()
                hist.append(alg.resid)
            check(hist[-1] <= t, "tol: final resid above tol")
            check(all(h > t for h in hist[:-1]), "tol: ran past the stopping point")
            check(alg.iter <= n + 2, "tol: too many updates (%d)" % alg.iter)
            rt = np.linalg.norm(b - A @ x)
            check(rt <= t * (1 + 1e-2) + (1e-4 if single else 1e-10) * np.linalg.norm(b),
                  "tol: true residual %g above tol %g" % (rt, t))
        # --- already converged start: nothing to do, nothing breaks
        n = 4
        A = np.diag(np.array([1, 2, 3, 4])).astype(dtype)
        xs = rand(rng, (n,), dtype)
        b = A @ xs
        x = xs.copy()
        alg = ConjugateGradient(lambda v: A @ v, b, x, max_iter=10, tol=1e-30)
        it = 0
        while not alg.done() and it < 20:
            alg.update()
            it += 1
        check(alg.done(), "converged start: never done")
        check(np.allclose(x, xs, rtol=tol, atol=tol), "converged start: x moved")
        check(np.all(np.isfinite(x)), "converged start: non-finite x")
        # --- non-positive curvature: stop, flag, stay finite
        for Ai in (np.diag([1.0, -1.0]), -np.eye(3), np.zeros((2, 2)),
                   np.diag([2.0, 1.0, -3.0])):
            Ai = Ai.astype(dtype)
            n = Ai.shape[0]
            b = np.ones(n, dtype)
            if n == 2 and Ai[1, 1] == -1:
                b = np.array([1, 1], dtype)  # p^H A p = 0 on the first step
            x = np.zeros(n, dtype)
            alg = ConjugateGradient(lambda v: Ai @ v, b, x, max_iter=50)
            it = 0
            while not alg.done() and it < 60:
                alg.update()
                it += 1
            check(alg.not_positive_definite, "indefinite A not flagged")
            check(alg.done() and it <= n + 1, "indefinite A: did not stop (%d)" % it)
            check(np.all(np.isfinite(x)) and np.linalg.norm(x) < 1e3,
                  "indefinite A: diverged")
        # --- x and b are the same array (aliasing between arguments)
        n = 5
        A = make_hpd(rng, n, 20.0, dtype, "generic")
        b0 = rand(rng, (n,), dtype)
        xb = b0.copy()
        alg = ConjugateGradient(lambda v: A @ v, xb, xb, max_iter=n + 2)
        while not alg.done():
            alg.update()
        xs = np.linalg.solve(A.astype(np.complex128), b0.astype(np.complex128))
        check(np.linalg.norm(xb - xs) <= 10 * tol * np.linalg.norm(xs),
              "x is b: wrong solution")
        # --- the same A / P objects reused by several solver instances
        A = make_hpd(rng, 6, 30.0, dtype, "generic")
        L = sp.linop.MatMul((6, 1), A)
        Pm = sp.linop.MatMul((6, 1), make_hpd(rng, 6, 3.0, dtype, "generic"))
        b = rand(rng, (6, 1), dtype)
        res = []
        for _ in range(3):
            x = np.zeros((6, 1), dtype)
            alg = ConjugateGradient(L, b, x, P=Pm, max_iter=4)
            while not alg.done():
                alg.update()
            res.append(x.copy())
        check(np.array_equal(res[0], res[1]) and np.array_equal(res[0], res[2]),
              "repeated solves with the same operators differ")


def main():
    rng = np.random.default_rng(77)
    cnt = 0
    for dtype in (np.float64, np.complex128, np.float32, np.complex64):
        single = is_single(dtype)
        for n in (1, 2, 3, 5, 7, 8, 12):
            for kind in ("generic", "clustered", "scaled_identity", "diagonal"):
                for precond in ("none", "identity_func", "jacobi", "hpd_func",
                                "hpd_linop"):
                    cond = float(rng.choice([1.0, 10.0, 100.0] if single
                                            else [1.0, 10.0, 300.0, 1000.0]))
                    a_form = ("func", "linop")[cnt % 2]
                    x0_kind = ("zero", "random", "near")[cnt % 3]
                    layout = ("contig", "strided", "readonly_b")[(cnt // 2) % 3]
                    xshape_kind = ("vec", "col", "mat")[(cnt // 3) % 3]
                    m = (1, 2, 3)[cnt % 3]
                    if xshape_kind == "mat" and a_form == "func":
                        pass  # A @ X acts column-wise: fine
                    for max_iter in sorted({1, 2, max(1, n // 2), n, n + 3, 100}):
                        if xshape_kind == "mat" and max_iter == n:
                            max_iter = n * m
                        name = "%s n=%d %s P=%s cond=%g A=%s x0=%s %s %s m=%d it=%d" % (
                            np.dtype(dtype), n, kind, precond, cond, a_form, x0_kind,
                            layout, xshape_kind, m, max_iter)
                        run_case(name, rng, n, m, cond, dtype, kind, precond,
                                 a_form, x0_kind, layout, max_iter, xshape_kind)
                    cnt += 1
    special_cases(rng)
    print("Krylov-optimality checked at %d prefixes (skipped %d where rounding\n"
          "amplification exceeds 5%%), worst distance/tolerance = %.3g"
          % (STATS["opt_checked"], STATS["opt_skipped"], STATS["ratio"]))
    print("checks: %d, failures: %d" % (NCHECK[0], len(FAILS)))
    return 1 if FAILS else 0


if __name__ == "__main__":
    sys.exit(main())
