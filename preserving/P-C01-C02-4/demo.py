"""C02 demo for sigpy.mri.util.get_cov / whiten (array functions with array
arguments): values against an independent reference, linearity over C in the
k-space argument, determinism, fresh C-contiguous output, no mutation of the
arguments (byte snapshots, read-only inputs), dtypes.

Independent reference: hand-written Cholesky-Banachiewicz factorisation and
forward substitution in plain Python loops (no LAPACK solve), computed in
complex128.
Exits 0 iff everything agrees.
"""
import sys

import numpy as np

import sigpy.mri as mr

rng = np.random.RandomState(4321)
failures = []


def ref_cholesky(a):
    a = np.asarray(a, dtype=complex)
    n = a.shape[0]
    L = np.zeros((n, n), dtype=complex)
    for i in range(n):
        for j in range(i + 1):
            s = a[i, j] - sum(L[i, k] * np.conj(L[j, k]) for k in range(j))
            if i == j:
                L[i, j] = np.sqrt(s.real)
            else:
                L[i, j] = s / L[j, j]
    return L


def ref_whiten(ksp, cov):
    L = ref_cholesky(cov)
    nc = ksp.shape[0]
    x = np.array(ksp, dtype=complex).reshape(nc, -1)
    w = np.zeros_like(x)
    for i in range(nc):
        w[i] = (x[i] - sum(L[i, k] * w[k] for k in range(i))) / L[i, i]
    return w.reshape(ksp.shape)


def ref_cov(noise):
    nc = noise.shape[0]
    X = np.array(noise, dtype=complex).reshape(nc, -1)
    X = X - X.sum(axis=1, keepdims=True) / X.shape[1]
    out = np.zeros((nc, nc), dtype=complex)
    for i in range(nc):
        for j in range(nc):
            out[i, j] = np.sum(X[i] * np.conj(X[j]))
    return out


def rel(a, b):
    return np.abs(np.asarray(a) - np.asarray(b)).max() / max(
        np.abs(b).max(), 1e-300
    )


def make(shape, dtype):
    a = rng.standard_normal(shape)
    if np.issubdtype(dtype, np.complexfloating):
        a = a + 1j * rng.standard_normal(shape)
    return a.astype(dtype)


def layouts(a):
    """Same values in several memory layouts."""
    yield "C", np.ascontiguousarray(a)
    yield "F", np.asfortranarray(a)
    big = np.zeros(tuple(2 * s for s in a.shape), dtype=a.dtype)
    view = big[tuple(slice(1, None, 2) for _ in a.shape)]
    view[...] = a
    yield "strided", view


def snapshot(*arrs):
    return [(a.tobytes(), a.shape, a.dtype, a.strides) for a in arrs]


tols = {
    np.dtype(np.complex128): 1e-11,
    np.dtype(np.float64): 1e-11,
    np.dtype(np.complex64): 1e-4,
    np.dtype(np.float32): 1e-4,
}

configs = [
    # (num_coils, trailing shape)
    (4, (5, 6)),
    (3, (7,)),
    (1, (4,)),
    (5, (3, 1, 2)),
    (2, (1,)),
    (3, ()),
    (8, (9,)),
]

for nc, shp in configs:
    for kdt in [np.complex128, np.complex64, np.float64, np.float32]:
        for cdt in [np.complex128, np.complex64, np.float64, np.float32]:
            kdt, cdt = np.dtype(kdt), np.dtype(cdt)
            tag = "nc=%d shape=%s ksp=%s cov=%s" % (nc, shp, kdt, cdt)
            # a well conditioned Hermitian positive definite covariance
            mix = make((nc, nc), cdt) / nc + 2 * np.eye(nc)
            noise = (mix.astype(complex) @ make((nc, 40), np.complex128))
            if not np.issubdtype(cdt, np.complexfloating):
                noise = noise.real
            noise = noise.astype(
                np.result_type(cdt, np.complex64)
                if np.issubdtype(cdt, np.complexfloating)
                else cdt
            )
            cov = mr.get_cov(noise)
            if rel(cov, ref_cov(noise)) > tols[cdt]:
                failures.append(tag + ": get_cov differs from reference")
            cov = cov.astype(cdt)
            ksp = make((nc,) + shp, kdt)
            expect = ref_whiten(ksp, cov)
            tol = max(tols[kdt], tols[cdt])
            want_dtype = np.result_type(kdt, cdt)
            for lname, k in layouts(ksp):
                for cname, c in layouts(cov):
                    t = "%s [%s/%s]" % (tag, lname, cname)
                    k.flags.writeable = False
                    c.flags.writeable = False
                    before = snapshot(k, c)
                    out = mr.whiten(k, c)
                    out2 = mr.whiten(k, c)
                    if snapshot(k, c) != before:
                        failures.append(t + ": argument modified")
                    if out.shape != k.shape:
                        failures.append(t + ": shape")
                    elif rel(out, expect) > tol:
                        failures.append(
                            t + ": value (rel %.2e)" % rel(out, expect)
                        )
                    if out.dtype != want_dtype:
                        failures.append(t + ": dtype %s" % out.dtype)
                    if not np.array_equal(out, out2):
                        failures.append(t + ": not deterministic")
                    if np.shares_memory(out, k) or np.shares_memory(out, c):
                        failures.append(t + ": output aliases an argument")
                    if not (out.flags.c_contiguous and out.flags.writeable):
                        failures.append(t + ": output layout/writeable")
            # linear over C in ksp
            if np.issubdtype(kdt, np.complexfloating):
                a = kdt.type(0.5 - 1.5j)
                k1, k2 = make((nc,) + shp, kdt), make((nc,) + shp, kdt)
                lhs = mr.whiten(a * k1 + k2, cov)
                rhs = a * mr.whiten(k1, cov) + mr.whiten(k2, cov)
                if rel(lhs, rhs) > 20 * tol:
                    failures.append(tag + ": whiten not C-linear")
            # whitened noise has identity covariance
            if shp == (7,) and kdt == np.complex128:
                nz = noise.astype(np.result_type(noise.dtype, np.complex64))
                w = mr.whiten(nz, cov)
                if rel(mr.get_cov(w), np.eye(nc)) > 50 * tols[cdt]:
                    failures.append(tag + ": whitened covariance != I")

# get_cov on layouts / read-only / multi-dimensional noise
for dt in [np.complex128, np.complex64, np.float64, np.float32]:
    noise = make((3, 4, 5), dt)
    expect = ref_cov(noise)
    for lname, nz in layouts(noise):
        nz.flags.writeable = False
        before = snapshot(nz)
        out = mr.get_cov(nz)
        if snapshot(nz) != before:
            failures.append("get_cov %s %s: argument modified" % (dt, lname))
        if rel(out, expect) > tols[np.dtype(dt)]:
            failures.append("get_cov %s %s: value" % (dt, lname))
        if out.dtype != np.dtype(dt) or not np.array_equal(
            out, mr.get_cov(nz)
        ):
            failures.append("get_cov %s %s: dtype/determinism" % (dt, lname))

# error behaviour: a covariance that is not positive definite is rejected
try:
    mr.whiten(make((2, 3), np.complex128), np.array([[1.0, 2.0], [2.0, 1.0]]))
    failures.append("indefinite covariance accepted")
except np.linalg.LinAlgError:
    pass

if failures:
    print("FAILED (%d):" % len(failures))
    for f in failures[:40]:
        print("  ", f)
    sys.exit(1)
print("ok")
sys.exit(0)
