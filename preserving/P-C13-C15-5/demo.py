#!/usr/bin/env python
"""Standalone check of property C15 (iteration budget, counter, early stopping
only at genuine fixed points, App.run() output, power-iteration monotonicity).
Exits 0 iff every check passes.

Independent references (pure numpy): textbook proximal gradient / FISTA,
Chambolle-Pock, conjugate gradient and power iteration written here, closed
form least-squares solutions, numpy.linalg.eigvalsh for the top eigenvalue.
"""
import io
import math
import sys
import warnings
from contextlib import redirect_stderr

import numpy as np

import sigpy as sp
from sigpy import alg as A_
from sigpy import app as P_

FAILS = []
NCHECK = [0]


def check(cond, msg):
    NCHECK[0] += 1
    if not cond:
        FAILS.append(msg)
        if len(FAILS) <= 40:
            print("FAIL:", msg)


def rand(rng, shape, dtype):
    x = rng.standard_normal(shape)
    if np.dtype(dtype).kind == "c":
        x = x + 1j * rng.standard_normal(shape)
    return x.astype(dtype)


def readonly(a):
    a = np.array(a)
    a.setflags(write=False)
    return a


def snap(arrs):
    return [np.array(a, copy=True) for a in arrs]


def same(a, b, rtol=0.0):
    for p, q in zip(a, b):
        if p.shape != q.shape:
            return False
        if rtol == 0.0:
            if not np.array_equal(p, q, equal_nan=True):
                return False
        elif not np.allclose(p, q, rtol=rtol, atol=rtol * 1e-3):
            return False
    return True


# --------------------------------------------------------------------------
# generic driver
# --------------------------------------------------------------------------
def _quiet_update(alg):
    """update() past done(): floating-point warnings (0/0 on an exactly
    converged state) are not part of the property."""
    with warnings.catch_warnings(), np.errstate(all="ignore"):
        warnings.simplefilter("ignore")
        alg.update()


def drive(tag, alg, sol, max_iter, breakdown=lambda: False, n_done=1,
          fp_rtol=1e-12, check_fixed_point=True):
    """Run the canonical loop, calling done() `n_done` times per round, then
    keep updating up to max_iter + 2 updates.  Returns (solution at the moment
    done() first became true, number of updates done until then)."""
    check(alg.iter == 0, tag + " initial iter")
    count = 0
    while True:
        before = snap(sol())
        d = alg.done()
        for _ in range(n_done - 1):
            check(alg.done() == d, tag + " done() not repeatable")
        check(same(before, snap(sol())), tag + " done() changed the solution")
        check(alg.iter == count, tag + " done() changed iter")
        if d:
            break
        if count >= max_iter:
            check(False, tag + " more than max_iter=%d updates" % max_iter)
            break
        alg.update()
        count += 1
        check(alg.iter == count, tag + " iter=%r after %d updates"
              % (alg.iter, count))
    result = snap(sol())
    n_stop = count
    if count < max_iter and not breakdown() and check_fixed_point:
        _quiet_update(alg)
        count += 1
        check(alg.iter == count, tag + " iter after extra update")
        check(
            same(result, snap(sol()), rtol=fp_rtol) or same(result, snap(sol())),
            tag + " stopped after %d < %d updates but the next update moves "
            "the solution" % (n_stop, max_iter),
        )
    while count < max_iter + 2:
        _quiet_update(alg)
        count += 1
        check(alg.iter == count, tag + " iter=%r after %d updates (past end)"
              % (alg.iter, count))
        if count >= max_iter:
            check(alg.done(), tag + " done() false after max_iter updates")
    return result, n_stop


# --------------------------------------------------------------------------
# references
# --------------------------------------------------------------------------
def soft(lam):
    def prox(a, x):
        mag = np.abs(x)
        return (np.maximum(mag - lam * a, 0) / np.where(mag == 0, 1, mag)
                * x).astype(x.dtype)
    return prox


def box(lo, hi):
    def prox(a, x):
        if np.iscomplexobj(x):
            return (np.clip(x.real, lo, hi)
                    + 1j * np.clip(x.imag, lo, hi)).astype(x.dtype)
        return np.clip(x, lo, hi).astype(x.dtype)
    return prox


def ref_pg(gradf, prox, x0, alpha, accelerate, n_iter):
    x, z, t = x0.copy(), x0.copy(), 1.0
    for _ in range(n_iter):
        x_old = x
        y = z if accelerate else x
        x = prox(alpha, y - alpha * gradf(y))
        if accelerate:
            t_new = (1 + math.sqrt(1 + 4 * t * t)) / 2
            z = x + ((t - 1) / t_new) * (x - x_old)
            t = t_new
    return x


def ref_pdhg(A, b, proxg, x0, u0, tau, sigma, gp, gd, n_iter):
    AH = A.conj().T
    x, u, xb = x0.copy(), u0.copy(), x0.copy()
    tau = np.array(tau, dtype=float)
    sigma = np.array(sigma, dtype=float)
    for _ in range(n_iter):
        v = u + sigma * (A @ xb)
        u = (v - sigma * b) / (1 + sigma)
        x_old = x
        x = proxg(tau, x - tau * (AH @ u))
        if gp > 0 and gd == 0:
            theta = 1 / math.sqrt(1 + 2 * gp * float(np.min(tau)))
            tau, sigma = tau * theta, sigma / theta
        elif gd > 0 and gp == 0:
            theta = 1 / math.sqrt(1 + 2 * gd * float(np.min(sigma)))
            sigma, tau = sigma * theta, tau / theta
        else:
            theta = 1.0
        xb = x + theta * (x - x_old)
    return x, u


def ref_cg(H, b, x0, Pinv, n_iter):
    """Textbook (preconditioned) CG; stops on exact zero residual or on
    non-positive curvature like the library documents."""
    x = x0.copy()
    r = b - H @ x
    z = r if Pinv is None else Pinv @ r
    p = z.copy()
    rz = np.real(np.vdot(r, z))
    for _ in range(n_iter):
        if rz ** 0.5 <= 0:
            break
        Hp = H @ p
        pHp = np.real(np.vdot(p, Hp))
        if pHp <= 0:
            break
        a = rz / pHp
        x = x + a * p
        r = r - a * Hp
        z = r if Pinv is None else Pinv @ r
        rz_new = np.real(np.vdot(r, z))
        p = z + (rz_new / rz) * p
        rz = rz_new
    return x


# --------------------------------------------------------------------------
# 1. every Alg subclass: budget, counter, early stop => fixed point
# --------------------------------------------------------------------------
def run_algs(rng):
    budgets = [0, 1, 2, 3, 7, 40]
    for trial in range(10):
        dtype = [np.float64, np.complex128, np.float32, np.complex64][trial % 4]
        single = np.dtype(dtype).name in ("float32", "complex64")
        wide = np.complex128 if np.dtype(dtype).kind == "c" else np.float64
        m, n = [(6, 4), (3, 3), (5, 1), (1, 1), (4, 6)][trial % 5]
        M = rand(rng, (m, n), dtype)
        if trial == 5:
            M[:, 0] = 0  # a column the data cannot see
        b = rand(rng, (m,), dtype)
        MH = M.conj().T.copy()
        L = float(np.linalg.norm(M.astype(wide), 2) ** 2) * (1 + 1e-6)
        rtol = 2e-4 if single else 1e-9
        Mr, MHr, br = readonly(M), readonly(MH), readonly(b)

        def gradf(x):
            return MHr @ (Mr @ x - br)

        Mw, bw = M.astype(wide), b.astype(wide)

        def gradf_w(x):
            return Mw.conj().T @ (Mw @ x - bw)

        lam = 0.6 * float(np.max(np.abs(Mw.conj().T @ bw)))
        proxes = {
            "none": (None, lambda a, x: x),
            "l1": (soft(lam), soft(lam)),
            "l1-all-zero": (soft(10 * lam + 1), soft(10 * lam + 1)),
            "box": (box(-0.25, 0.5), box(-0.25, 0.5)),
        }
        for max_iter in budgets:
            for n_done in [1, 3]:
                # ---- GradientMethod
                for pname, (prox, prox_ref) in proxes.items():
                    for acc in [False, True]:
                        for init in ["zero", "rand"]:
                            x0 = (np.zeros(n, dtype) if init == "zero"
                                  else box(-0.25, 0.5)(1, rand(rng, (n,), dtype)))
                            buf = np.zeros((n, 2), dtype)
                            x = buf[:, 0]  # non-contiguous view
                            x[:] = x0
                            a = A_.GradientMethod(gradf, x, 1 / L, proxg=prox,
                                                  accelerate=acc,
                                                  max_iter=max_iter, tol=0)
                            tag = "GM t%d %s acc=%s %s mi=%d" % (
                                trial, pname, acc, init, max_iter)
                            res, k = drive(tag, a, lambda: [x], max_iter,
                                           n_done=n_done)
                            check(a.x is x, tag + " rebound x")
                            ref = ref_pg(gradf_w, prox_ref, x0.astype(wide),
                                         1 / L, acc, max_iter)
                            check(np.allclose(res[0], ref, rtol=rtol,
                                              atol=rtol),
                                  tag + " result differs from reference run of"
                                  " max_iter updates (stopped at %d)" % k)
                # ---- ConjugateGradient
                H = (Mw.conj().T @ Mw + 0.3 * np.eye(n)).astype(dtype)
                rhs = (Mw.conj().T @ bw).astype(dtype)
                Hr = readonly(H)
                for precond in [None, "jacobi"]:
                    for rhs_kind in ["rand", "zero", "eigvec"]:
                        if rhs_kind == "zero":
                            bb = np.zeros(n, dtype)
                        elif rhs_kind == "eigvec":
                            w, V = np.linalg.eigh(H.astype(wide))
                            bb = V[:, -1].astype(dtype)
                        else:
                            bb = rhs
                        Pinv = (None if precond is None else
                                np.diag(1 / np.real(np.diag(H))).astype(dtype))
                        x = np.zeros(n, dtype)
                        a = A_.ConjugateGradient(
                            lambda v: Hr @ v, readonly(bb), x,
                            P=None if Pinv is None else (lambda v: Pinv @ v),
                            max_iter=max_iter, tol=0)
                        tag = "CG t%d P=%s rhs=%s mi=%d" % (
                            trial, precond, rhs_kind, max_iter)
                        res, k = drive(tag, a, lambda: [x], max_iter,
                                       breakdown=lambda: a.not_positive_definite,
                                       n_done=n_done)
                        check(a.x is x, tag + " rebound x")
                        ref = ref_cg(H.astype(wide), bb.astype(wide),
                                     np.zeros(n, wide),
                                     None if Pinv is None else Pinv.astype(wide),
                                     max_iter)
                        cg_tol = 5e-3 if single else 1e-7
                        check(np.allclose(res[0], ref, rtol=cg_tol,
                                          atol=cg_tol * (1 + np.abs(ref).max())),
                              tag + " result differs from reference CG "
                              "(stopped at %d)" % k)
                        if max_iter >= n + 3 and not single:
                            sol = np.linalg.solve(H.astype(wide), bb.astype(wide))
                            check(np.allclose(res[0], sol, rtol=1e-6, atol=1e-8),
                                  tag + " CG did not solve the system")
                # indefinite operator: breakdown is reported, x untouched
                D = np.diag(np.array([1.0, -1.0, 2.0])).astype(dtype)
                x = np.zeros(3, dtype)
                a = A_.ConjugateGradient(lambda v: D @ v,
                                         np.array([1, 1, 0], dtype), x,
                                         max_iter=max_iter, tol=0)
                tag = "CG indefinite t%d mi=%d" % (trial, max_iter)
                res, k = drive(tag, a, lambda: [x], max_iter,
                               breakdown=lambda: a.not_positive_definite,
                               n_done=n_done)
                if max_iter >= 1:
                    check(a.not_positive_definite and k <= 1
                          and np.all(res[0] == 0), tag + " breakdown handling")
                # ---- PrimalDualHybridGradient
                nrm = float(np.linalg.norm(Mw, 2))
                step_sets = {
                    "scalar": (1 / nrm, 1 / nrm),
                    "small-dual": (1e2 / nrm, 1e-2 / nrm),
                    "tiny-dual": (1e4 / nrm, 1e-4 / nrm),
                    "array": (1 / np.maximum(np.abs(Mw).sum(0), 1e-300),
                              1 / np.maximum(np.abs(Mw).sum(1), 1e-300)),
                }
                rdt = np.zeros(1, dtype).real.dtype
                for sname, (tau0, sigma0) in step_sets.items():
                    for pname in ["none", "l1", "l1-all-zero", "box"]:
                        for gp, gd in [(0, 0), (0, 1.0)]:
                            if single and sname == "tiny-dual":
                                continue
                            prox = proxes[pname][1]
                            x = np.zeros(n, dtype)
                            u = np.zeros(m, dtype)
                            if sname == "array":
                                tau, sigma = tau0.astype(rdt), sigma0.astype(rdt)
                            else:
                                tau, sigma = tau0, sigma0
                            a = A_.PrimalDualHybridGradient(
                                lambda s, v: ((v - s * br) / (1 + s)).astype(dtype),
                                prox, lambda v: Mr @ v, lambda v: MHr @ v,
                                x, u, tau, sigma, gamma_primal=gp,
                                gamma_dual=gd, max_iter=max_iter, tol=0)
                            tag = "PDHG t%d %s %s gd=%g mi=%d" % (
                                trial, sname, pname, gd, max_iter)
                            res, k = drive(tag, a, lambda: [x, u], max_iter,
                                           n_done=n_done)
                            check(a.x is x and a.u is u, tag + " rebound")
                            rx, ru = ref_pdhg(Mw, bw, prox, np.zeros(n, wide),
                                              np.zeros(m, wide), tau0, sigma0,
                                              gp, gd, max_iter)
                            sc = 1 + np.abs(rx).max() + np.abs(ru).max()
                            check(np.allclose(res[0], rx, rtol=rtol,
                                              atol=rtol * sc)
                                  and np.allclose(res[1], ru, rtol=rtol,
                                                  atol=rtol * sc),
                                  tag + " result differs from reference run of "
                                  "max_iter updates (stopped at %d)" % k)
                # ---- PowerMethod (budget only; values are checked below)
                x = rand(rng, (n,), dtype)
                Hh = readonly((Mw.conj().T @ Mw).astype(dtype))
                a = A_.PowerMethod(lambda v: Hh @ v, x, max_iter=max_iter)
                res, k = drive("PowerMethod t%d mi=%d" % (trial, max_iter), a,
                               lambda: [x], max_iter, n_done=n_done,
                               check_fixed_point=False)
                check(k == max_iter, "PowerMethod stopped early")
                # ---- NewtonsMethod on a separable quadratic (exact in 1 step)
                d = np.abs(rand(rng, (n,), np.float64)) + 0.5
                c = rand(rng, (n,), np.float64)
                for beta in [1, 0.5]:
                    x = rand(rng, (n,), np.float64)
                    a = A_.NewtonsMethod(
                        lambda v: d * v - c,
                        lambda v: (lambda g: g / d), x, beta=beta,
                        f=(lambda v: float(0.5 * np.sum(d * v * v) - c @ v)),
                        max_iter=max_iter, tol=0)
                    tag = "Newton t%d beta=%g mi=%d" % (trial, beta, max_iter)
                    res, k = drive(tag, a, lambda: [x], max_iter,
                                   n_done=n_done, fp_rtol=1e-12)
                    if (max_iter >= 1 and beta == 1) or max_iter >= 40:
                        check(np.allclose(res[0], c / d, rtol=1e-9, atol=1e-11),
                              tag + " result")
                # ---- AltMin, AugmentedLagrangianMethod, ADMM: default _done
                state = np.zeros(2)
                calls = []

                def min1():
                    calls.append(1)
                    state[0] = 0.5 * state[1] + 1

                def min2():
                    calls.append(2)
                    state[1] = 0.5 * state[0] - 1

                a = A_.AltMin(min1, min2, max_iter=max_iter)
                res, k = drive("AltMin mi=%d" % max_iter, a, lambda: [state],
                               max_iter, n_done=n_done, check_fixed_point=False)
                check(k == max_iter and calls == [1, 2] * (max_iter + 2),
                      "AltMin call sequence")
                xz = np.zeros(2 * n)
                v = np.zeros(n)
                G = np.real(Mw.conj().T @ Mw)
                gb = np.real(Mw.conj().T @ bw)

                def minL():
                    xz[:n] = np.linalg.solve(G + np.eye(n), gb - v + xz[n:])
                    xz[n:] = (xz[:n] + v) / (1 + 0.1)

                uu = np.zeros(n)
                a = A_.AugmentedLagrangianMethod(
                    minL, lambda t: -t[:n], lambda t: t[:n] - t[n:], xz, uu, v,
                    1, max_iter=max_iter)
                res, k = drive("ALM t%d mi=%d" % (trial, max_iter), a,
                               lambda: [xz, uu, v], max_iter, n_done=n_done,
                               check_fixed_point=False)
                check(k == max_iter and np.all(uu >= 0), "ALM budget / u >= 0")
                xa, za, ua = np.zeros(n), np.zeros(n), np.zeros(n)

                def minLx():
                    xa[:] = np.linalg.solve(G + np.eye(n), gb + za - ua)

                def minLz():
                    za[:] = soft(0.1)(1.0, xa + ua)

                a = A_.ADMM(minLx, minLz, xa, za, ua, lambda t: t,
                            lambda t: -t, 0, max_iter=max_iter)
                res, k = drive("ADMM t%d mi=%d" % (trial, max_iter), a,
                               lambda: [xa, za, ua], max_iter, n_done=n_done,
                               check_fixed_point=False)
                check(k == max_iter, "ADMM budget")

    # GerchbergSaxton and SDMM: budget and counter
    for max_iter in [0, 1, 3]:
        n = 4
        Mat = (np.eye(n) + 0.1 * np.ones((n, n))).astype(np.complex64)
        xt = np.arange(1, n + 1, dtype=np.float64)[:, None]
        y = np.abs(Mat @ xt).astype(np.complex64)
        lin = sp.linop.MatMul(y.shape, Mat)
        a = A_.GerchbergSaxton(lin, y, np.zeros((n, 1), np.complex128),
                               max_iter=max_iter, tol=0, lamb=0.1)
        drive("GerchbergSaxton mi=%d" % max_iter, a, lambda: [a.x], max_iter,
              fp_rtol=1e-6)
        yr = (np.eye(n) + 0.1) @ xt
        lin = sp.linop.MatMul(xt.shape, np.eye(n) + 0.1)
        a = A_.SDMM(lin, yr, 0.1, L=[], c=[1], mu=10 ** 8, rho=[1], rho_max=1,
                    rho_norm=1, max_cg_iter=5, max_iter=max_iter)
        drive("SDMM mi=%d" % max_iter, a, lambda: [a.x], max_iter,
              check_fixed_point=False)


# --------------------------------------------------------------------------
# 2. a stalled primal variable is not a fixed point
# --------------------------------------------------------------------------
STALLS = []


def run_stall(rng):
    """Zero start, l1 prox, small dual step: x stays exactly zero for several
    updates while u keeps moving.  The run must not end there."""
    for trial in range(12):
        dtype = [np.float64, np.complex128][trial % 2]
        m, n = [(8, 5), (5, 5), (6, 2), (3, 1)][trial % 4]
        M = rand(rng, (m, n), dtype)
        b = rand(rng, (m,), dtype)
        MH = M.conj().T
        nrm = float(np.linalg.norm(M, 2))
        lam = 0.5 * float(np.max(np.abs(MH @ b)))
        prox = soft(lam)
        for scale in [1e-1, 3e-2]:
            sigma, tau = scale / nrm, 1 / (scale * nrm)
            for gd in [0, 1.0]:
                for max_iter in [400, 1500]:
                    rx, ru = ref_pdhg(M, b, prox, np.zeros(n, dtype),
                                      np.zeros(m, dtype), tau, sigma, 0, gd,
                                      max_iter)
                    tag = "stall t%d scale=%g gd=%g mi=%d" % (trial, scale, gd,
                                                              max_iter)
                    x = np.zeros(n, dtype)
                    u = np.zeros(m, dtype)
                    a = A_.PrimalDualHybridGradient(
                        lambda s, v: (v - s * b) / (1 + s), prox,
                        lambda v: M @ v, lambda v: MH @ v, x, u, tau, sigma,
                        gamma_dual=gd, max_iter=max_iter, tol=0)
                    stalled = 0
                    k = 0
                    while not a.done():
                        a.update()
                        k += 1
                        if not np.any(x):
                            stalled = k
                    check(stalled >= 2 and (np.any(rx) or max_iter == 400),
                          tag + " instance did not stall (%d)" % stalled)
                    STALLS.append(stalled)
                    sc = 1 + np.abs(rx).max() + np.abs(ru).max()
                    check(k <= max_iter and a.iter == k, tag + " budget")
                    check(np.allclose(x, rx, rtol=1e-8, atol=1e-8 * sc)
                          and np.allclose(u, ru, rtol=1e-8, atol=1e-8 * sc),
                          tag + " stopped after %d updates away from the "
                          "reference run (|dx|=%g)" % (k, np.abs(x - rx).max()))
                # the same instance through the App (it uses gamma_dual = 1)
                max_iter = 400
                rx, ru = ref_pdhg(M, b, prox, np.zeros(n, dtype),
                                  np.zeros(m, dtype), tau, sigma, 0, 1.0,
                                  max_iter)
                app = P_.LinearLeastSquares(
                    sp.linop.MatMul((n, 1), M), b[:, None],
                    proxg=sp.prox.L1Reg((n, 1), lam),
                    solver="PrimalDualHybridGradient", tau=tau, sigma=sigma,
                    max_iter=max_iter, show_pbar=False)
                out = app.run()
                tag = "stall-app t%d scale=%g" % (trial, scale)
                check(out is app.x and app.alg.x is app.x, tag + " app output")
                check(np.allclose(out[:, 0], rx, rtol=1e-7,
                                  atol=1e-7 * (1 + np.abs(rx).max())),
                      tag + " app stopped after %d updates away from the "
                      "reference run" % app.alg.iter)


# --------------------------------------------------------------------------
# 3. App.run()
# --------------------------------------------------------------------------
class _Counting(A_.Alg):
    def __init__(self, max_iter, stop_at=None):
        self.log = []
        self.stop_at = stop_at
        super().__init__(max_iter)

    def _update(self):
        self.log.append(self.iter)

    def _done(self):
        return self.iter >= self.max_iter or (
            self.stop_at is not None and self.iter >= self.stop_at)


class _HookApp(P_.App):
    def __init__(self, alg, **kw):
        self.events = []
        super().__init__(alg, **kw)

    def _pre_update(self):
        self.events.append(("pre", self.alg.iter))

    def _post_update(self):
        self.events.append(("post", self.alg.iter))

    def _summarize(self):
        self.events.append(("sum", self.alg.iter))

    def _output(self):
        return ("out", self.alg.iter)


def run_apps(rng):
    for max_iter in [0, 1, 2, 5]:
        for stop_at in [None, 0, 1, 3]:
            for show_pbar in [False, True]:
                for record_time in [True, False]:
                    a = _Counting(max_iter, stop_at)
                    app = _HookApp(a, show_pbar=show_pbar, leave_pbar=False,
                                   record_time=record_time)
                    with redirect_stderr(io.StringIO()):
                        out = app.run()
                    n = max_iter if stop_at is None else min(max_iter, stop_at)
                    tag = "App mi=%d stop=%r pbar=%s time=%s" % (
                        max_iter, stop_at, show_pbar, record_time)
                    check(a.log == list(range(n)) and a.iter == n,
                          tag + " updates %r" % a.log)
                    check(out == ("out", n), tag + " output %r" % (out,))
                    exp = []
                    for i in range(n):
                        exp += [("pre", i), ("post", i + 1), ("sum", i + 1)]
                    check(app.events == exp, tag + " hook order")
                    if record_time:
                        check(len(app.time) == n + 1 and app.time[0] == 0
                              and all(t1 >= t0 for t0, t1 in
                                      zip(app.time, app.time[1:])),
                              tag + " time record %r" % (app.time,))
                    else:
                        check(not hasattr(app, "time"), tag + " time attr")
                    if show_pbar:
                        check(app.pbar.n == n and app.pbar.total == max_iter
                              and app.pbar.disable, tag + " progress bar state")
    # an exception in the algorithm propagates unchanged
    class Boom(A_.Alg):
        def _update(self):
            if self.iter == 2:
                raise FloatingPointError("boom")

    for show_pbar in [False, True]:
        app = P_.App(Boom(5), show_pbar=show_pbar, leave_pbar=False)
        try:
            with redirect_stderr(io.StringIO()):
                app.run()
            check(False, "App swallowed the exception")
        except FloatingPointError as e:
            check(str(e) == "boom" and app.alg.iter == 2, "App exception state")

    # LinearLeastSquares with every solver
    for trial in range(6):
        dtype = [np.float64, np.complex128, np.complex64][trial % 3]
        single = dtype == np.complex64
        wide = np.complex128 if np.dtype(dtype).kind == "c" else np.float64
        m, n = [(7, 4), (4, 4), (5, 1)][trial % 3]
        M = rand(rng, (m, n), dtype)
        if m == n:
            M = M + 3 * np.eye(n, dtype=dtype)
        y = rand(rng, (m, 1), dtype)
        lamda = [0.0, 0.2][trial % 2]
        Aop = sp.linop.MatMul((n, 1), readonly(M))
        Mw, yw = M.astype(wide), y.astype(wide)
        x_ls = np.linalg.solve(Mw.conj().T @ Mw + lamda * np.eye(n),
                               Mw.conj().T @ yw)
        for solver, kw in [
            ("ConjugateGradient", {}),
            ("GradientMethod", {"accelerate": False}),
            ("GradientMethod", {"accelerate": True}),
            ("PrimalDualHybridGradient", {}),
            ("ADMM", {"rho": 1.0}),
        ]:
            for max_iter in [0, 1, 3, 400]:
                for x_init in [None, "given"]:
                    np.random.seed(trial)
                    x0 = None if x_init is None else np.zeros((n, 1), dtype)
                    y_in = readonly(y)
                    app = P_.LinearLeastSquares(
                        Aop, y_in, x=x0, lamda=lamda, solver=solver,
                        max_iter=max_iter, show_pbar=False, tol=0, **kw)
                    counted = []
                    orig = app.alg.update

                    def upd(orig=orig, counted=counted, app=app):
                        orig()
                        counted.append(app.alg.iter)

                    app.alg.update = upd
                    out = app.run()
                    tag = "LLS t%d %s %r mi=%d x=%r" % (
                        trial, solver, kw, max_iter, x_init)
                    check(len(counted) <= max_iter
                          and counted == list(range(1, len(counted) + 1)),
                          tag + " updates %r" % (counted,))
                    check(out is app.x and out is app.alg.x,
                          tag + " output is not the algorithm's solution")
                    if x0 is not None:
                        check(out is x0, tag + " caller's x not used")
                    check(out.dtype == dtype and out.shape == (n, 1),
                          tag + " output dtype/shape")
                    check(np.array_equal(y_in, y), tag + " y modified")
                    if max_iter == 0:
                        check(not np.any(out), tag + " x changed with budget 0")
                    if max_iter == 400:
                        tol = {"GradientMethod": 1e-4,
                               "PrimalDualHybridGradient": 1e-2}.get(
                                   solver, 1e-6)
                        tol = max(tol, 2e-3 if single else 0)
                        err = np.linalg.norm(out - x_ls)
                        check(err <= tol * (1 + np.linalg.norm(x_ls)),
                              tag + " stopped after %d updates with error %g"
                              % (len(counted), err))

    # MaxEig returns the algorithm's estimate
    for trial in range(6):
        dtype = [np.float64, np.complex128, np.float32][trial % 3]
        n = [5, 1, 3][trial % 3]
        B = rand(rng, (n + 1, n), dtype)
        H = B.conj().T @ B
        lam_max = float(np.linalg.eigvalsh(H.astype(np.complex128))[-1])
        for max_iter in [0, 1, 30]:
            np.random.seed(7 + trial)
            app = P_.MaxEig(sp.linop.MatMul((n, 1), H), dtype=dtype,
                            max_iter=max_iter, show_pbar=False)
            out = app.run()
            tag = "MaxEig t%d mi=%d" % (trial, max_iter)
            check(out == app.alg.max_eig and app.alg.iter == max_iter
                  and app.alg.x is app.x, tag + " output")
            eps = 1e-5 if dtype == np.float32 else 1e-12
            if max_iter > 1:
                check(0 <= out <= lam_max * (1 + eps), tag + " exceeds top "
                      "eigenvalue: %r > %r" % (out, lam_max))
            elif max_iter == 0:
                check(out == np.inf, tag + " initial estimate")


# --------------------------------------------------------------------------
# 4. power iteration: monotone, bounded by the top eigenvalue
# --------------------------------------------------------------------------
def run_power(rng):
    for trial in range(60):
        dtype = [np.float64, np.complex128, np.float32, np.complex64][trial % 4]
        single = np.dtype(dtype).name in ("float32", "complex64")
        wide = np.complex128
        n = [1, 2, 3, 5, 8][trial % 5]
        kind = trial % 6
        if kind == 0:  # generic PSD
            B = rand(rng, (n + 2, n), wide if np.dtype(dtype).kind == "c"
                     else np.float64)
            H = B.conj().T @ B
        elif kind == 1:  # rank deficient
            B = rand(rng, (1, n), wide if np.dtype(dtype).kind == "c"
                     else np.float64)
            H = B.conj().T @ B
        elif kind == 2:  # identity: every vector is an eigenvector
            H = np.eye(n)
        elif kind == 3:  # clustered top eigenvalues
            Q = np.linalg.qr(rng.standard_normal((n, n)))[0]
            H = Q @ np.diag(np.linspace(1, 1.001, n)) @ Q.T
        elif kind == 4:  # diagonal with zeros
            H = np.diag(np.concatenate([[3.0], np.zeros(n - 1)]))
        else:  # badly scaled
            Q = np.linalg.qr(rng.standard_normal((n, n)))[0]
            H = Q @ np.diag(np.logspace(0, -8, n)) @ Q.T
            H = (H + H.T) / 2
        H = H.astype(dtype)
        H = readonly((H + H.conj().T) / 2)
        lam_max = float(np.linalg.eigvalsh(H.astype(wide))[-1])
        shape = [(n,), (n, 1)][trial % 2]
        x = rand(rng, shape, dtype)
        if kind == 4:
            x[0] = 1  # make sure the start is not in the null space
        use_linop = trial % 3 == 0 and len(shape) == 2
        Aop = (sp.linop.MatMul(shape, H) if use_linop else (lambda v: H @ v))
        max_iter = 25
        a = A_.PowerMethod(Aop, x, max_iter=max_iter)
        eps = 2e-5 if single else 1e-12
        prev = None
        xr = x.astype(wide)
        k = 0
        while not a.done():
            a.update()
            k += 1
            check(a.x is x, "Power x rebound")
            check(isinstance(a.max_eig, float), "Power max_eig type %r"
                  % type(a.max_eig))
            # independent reference iteration
            yr = H.astype(wide) @ xr
            er = float(np.linalg.norm(yr))
            xr = yr / er
            tag = "Power t%d kind=%d %s k=%d" % (trial, kind,
                                                  np.dtype(dtype).name, k)
            check(abs(a.max_eig - er) <= 50 * eps * lam_max,
                  tag + " estimate %r vs reference %r" % (a.max_eig, er))
            check(abs(np.linalg.norm(x) - 1) <= 10 * eps, tag + " x not unit")
            if k >= 2:  # x was normalised before this update
                check(a.max_eig <= lam_max * (1 + 4 * eps),
                      tag + " %r exceeds top eigenvalue %r" % (a.max_eig,
                                                                lam_max))
                if prev is not None:
                    check(a.max_eig >= prev * (1 - 4 * eps),
                          tag + " decreased %r -> %r" % (prev, a.max_eig))
                prev = a.max_eig
        check(k == max_iter and a.iter == max_iter, "Power budget")
    # custom norm function is honoured
    H = np.diag([2.0, 1.0])
    x = np.array([1.0, 1.0])
    a = A_.PowerMethod(lambda v: H @ v, x,
                       norm_func=lambda v: float(np.max(np.abs(v))), max_iter=4)
    while not a.done():
        a.update()
    check(a.max_eig == 2.0 and np.allclose(x, [1, 1 / 16]), "Power norm_func")


def main():
    warnings.simplefilter("error")
    warnings.filterwarnings("ignore", category=DeprecationWarning)
    rng = np.random.default_rng(20240615)
    run_algs(rng)
    run_stall(rng)
    run_apps(rng)
    run_power(rng)
    print("checks: %d, failures: %d" % (NCHECK[0], len(FAILS)))
    return 1 if FAILS else 0


if __name__ == "__main__":
    sys.exit(main())
