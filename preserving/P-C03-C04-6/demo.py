"""C04 demo: the normal operator A.N is A^H A.

For a spread of operators / parameters / compositions and inputs the program
compares A.N(x) with

  (1) A.H(A(x))                                   (the statement itself),
  (2) M^H (M x) with M the dense matrix of A obtained WITHOUT using A.H or
      A.N (columns A(e_j)),
  (3) where cheap, a pure numpy model of the operator (blocks, flip, FFT,
      circshift, transpose, exact non-uniform DFT for the NUFFT).

It exits 0 iff all comparisons hold: to floating point accuracy for all
operators (1e-9 relative in double, 2e-4 in single), and to the NUFFT's
interpolation accuracy for the Toeplitz-embedded normal operator.
"""
import itertools
import sys

import numpy as np

import sigpy as sp
from sigpy import linop

FAIL = []
SKIPPED = []
NCHECK = [0]


def fail(msg):
    FAIL.append(msg)
    print("FAIL:", msg)


def prod(shape):
    p = 1
    for s in shape:
        p *= int(s)
    return p


def dense(A):
    """Dense matrix of A from its action on the canonical basis."""
    Ni = prod(A.ishape)
    M = np.zeros((prod(A.oshape), Ni), dtype=complex)
    for j in range(Ni):
        e = np.zeros(Ni, dtype=complex)
        e[j] = 1
        M[:, j] = A(e.reshape(A.ishape)).ravel()
    return M


def inputs(rng, shape):
    x = rng.standard_normal(shape) + 1j * rng.standard_normal(shape)
    out = [("c128", x, 1e-9), ("c64", x.astype(np.complex64), 2e-4)]
    out.append(("f64", rng.standard_normal(shape), 2e-4))
    out.append(("f32", rng.standard_normal(shape).astype(np.float32), 2e-4))
    big = rng.standard_normal([2 * s for s in shape]) + 0j
    big = big + 1j * rng.standard_normal(big.shape)
    nc = big[tuple(slice(None, None, 2) for _ in shape)]
    out.append(("noncontig", nc, 1e-9))
    out.append(("fortran", np.asfortranarray(x), 1e-9))
    ro = x.copy()
    ro.setflags(write=False)
    out.append(("readonly", ro, 1e-9))
    out.append(("zeros", np.zeros(shape, dtype=complex), 1e-9))
    return out


def check_normal(tag, A, rng, M=None, tolscale=1.0, use_dense=True):
    """A.N(x) == A.H(A(x)) == M^H M x for a spread of x."""
    if M is None and use_dense:
        M = dense(A)
    N = A.N
    if list(N.ishape) != list(A.ishape) or list(N.oshape) != list(A.ishape):
        fail("%s: A.N has shape %s x %s" % (tag, N.oshape, N.ishape))
        return
    if A.N is not N:
        fail("%s: A.N is not cached" % tag)
    nrm2 = 1.0 if M is None else max(np.linalg.norm(M, 2) ** 2, 1e-30)
    for name, x, tol in inputs(rng, A.ishape):
        keep = np.array(x, copy=True)
        if not np.iscomplexobj(x):
            # Some upstream operators with complex parameters (convolution
            # with a complex filter, in-place accumulation in Add/Hstack)
            # cannot take real inputs at all: then A.H(A(x)) itself is
            # undefined and there is nothing to compare.
            try:
                A.H(A(x))
            except RuntimeError:
                SKIPPED.append((tag, name))
                continue
        for rep in range(2):  # repeated application of the same object
            y = A.N(x)
            NCHECK[0] += 1
            if tuple(y.shape) != tuple(A.ishape):
                fail("%s[%s]: A.N(x) has shape %s" % (tag, name, y.shape))
                break
            ref1 = A.H(A(x))
            xn = max(np.linalg.norm(keep.ravel()), 1e-30)
            if M is None:
                nrm = max(np.linalg.norm(ref1.ravel()) / xn, 1e-30)
            else:
                nrm = nrm2
            bound = tol * tolscale * nrm * xn
            e1 = np.linalg.norm((y - ref1).ravel())
            if not e1 <= bound:
                fail("%s[%s] rep%d: |A.N x - A.H A x| = %.3e > %.3e"
                     % (tag, name, rep, e1, bound))
                break
            if M is not None:
                xv = keep.ravel().astype(complex)
                ref2 = (M.conj().T @ (M @ xv)).reshape(A.ishape)
                e2 = np.linalg.norm((y - ref2).ravel())
                if not e2 <= bound:
                    fail("%s[%s] rep%d: |A.N x - M^H M x| = %.3e > %.3e"
                         % (tag, name, rep, e2, bound))
                    break
        if not np.array_equal(keep, x):
            fail("%s[%s]: input modified" % (tag, name))


def check_model(tag, A, Mmodel, tol=1e-10):
    """The numpy model agrees with A (so that it is a valid reference)."""
    M = dense(A)
    if M.shape != Mmodel.shape or not np.abs(M - Mmodel).max() <= tol * max(
        1.0, np.abs(Mmodel).max()
    ):
        fail("%s: numpy model disagrees with the operator" % tag)
    return Mmodel


# ----------------------------------------------------------------------
# numpy models
# ----------------------------------------------------------------------
def a2b_matrix(ishape, blk_shape, blk_strides):
    """ArrayToBlocks as a 0/1 matrix, by definition."""
    D = len(blk_shape)
    batch = list(ishape[:-D])
    img = list(ishape[-D:])
    nb = [(i - b + s) // s for i, b, s in zip(img, blk_shape, blk_strides)]
    idx = np.arange(prod(ishape)).reshape(ishape)
    rows = []
    for bidx in itertools.product(*[range(n) for n in batch]):
        for n in itertools.product(*[range(k) for k in nb]):
            for o in itertools.product(*[range(b) for b in blk_shape]):
                pos = tuple(ni * s + oi for ni, s, oi in
                            zip(n, blk_strides, o))
                rows.append(idx[bidx + pos])
    M = np.zeros((len(rows), prod(ishape)))
    M[np.arange(len(rows)), rows] = 1
    return M, batch + nb + list(blk_shape)


def ndft_matrix(shape, coord):
    """Exact non-uniform DFT that sigpy's nufft approximates."""
    ndim = coord.shape[-1]
    grids = np.meshgrid(
        *[np.arange(n) - n // 2 for n in shape[-ndim:]], indexing="ij"
    )
    pts = coord.reshape(-1, ndim)
    phase = np.zeros((pts.shape[0], prod(shape[-ndim:])))
    for d in range(ndim):
        phase += np.outer(pts[:, d], grids[d].ravel()) / shape[-ndim + d]
    E = np.exp(-2j * np.pi * phase) / np.sqrt(prod(shape[-ndim:]))
    nbatch = prod(shape[:-ndim])
    return np.kron(np.eye(nbatch), E)


# ----------------------------------------------------------------------
# operator families
# ----------------------------------------------------------------------
def simple_ops(rng):
    c = lambda *s: rng.standard_normal(s) + 1j * rng.standard_normal(s)
    ops = []
    add = lambda tag, A: ops.append((tag, A))
    for shape in ([5], [1], [2, 3], [3, 1, 2]):
        nd = len(shape)
        add("Identity%s" % shape, linop.Identity(shape))
        add("Reshape%s" % shape, linop.Reshape([prod(shape)], shape))
        add("Reshape1%s" % shape, linop.Reshape([1] + shape, shape))
        add("Transpose%s" % shape, linop.Transpose(shape))
        add("Transpose-neg%s" % shape,
            linop.Transpose(shape, axes=tuple(range(-1, -nd - 1, -1))))
        if nd == 3:
            add("Transpose(1,2,0)", linop.Transpose(shape, axes=(1, 2, 0)))
            add("Transpose(-1,0,1)", linop.Transpose(shape, axes=(-1, 0, 1)))
        for center in (True, False):
            add("FFT%s c=%s" % (shape, center),
                linop.FFT(shape, center=center))
            add("IFFT%s c=%s" % (shape, center),
                linop.IFFT(shape, center=center))
            add("FFT%s axes=(-1,) c=%s" % (shape, center),
                linop.FFT(shape, axes=(-1,), center=center))
            add("IFFT%s axes=(0,) c=%s" % (shape, center),
                linop.IFFT(shape, axes=(0,), center=center))
        for sh in (0, 1, -2, 7):
            add("Circshift%s %d" % (shape, sh),
                linop.Circshift(shape, [sh], axes=[-1]))
        add("Circshift-all%s" % shape,
            linop.Circshift(shape, list(range(1, nd + 1))))
        add("Flip%s" % shape, linop.Flip(shape))
        for ax in range(-nd, nd):
            add("Flip%s ax=%d" % (shape, ax), linop.Flip(shape, axes=(ax,)))
        add("Flip%s ax=()" % shape, linop.Flip(shape, axes=()))
        if nd >= 2:
            add("Flip%s ax=(0,-1)" % shape, linop.Flip(shape, axes=(0, -1)))
            add("Flip%s ax=(1,1)" % shape, linop.Flip(shape, axes=(1, 1)))
        add("Multiply%s" % shape, linop.Multiply(shape, c(*shape)))
        add("Multiply-real%s" % shape,
            linop.Multiply(shape, rng.standard_normal(shape)))
        add("Multiply-bcast-in%s" % shape,
            linop.Multiply(shape, c(*([4] + shape))))
        add("Multiply-bcast-m%s" % shape,
            linop.Multiply(shape, c(*shape[-1:])))
        for a in (2.0, -1, 1, 0.5 - 2j, 0):
            add("Multiply-scalar%s %r" % (shape, a), linop.Multiply(shape, a))
        if nd >= 2:  # (0-d outputs are outside the operators' domain)
            add("Sum%s" % shape, linop.Sum(shape, axes=(-1,)))
            add("Sum-front%s" % shape,
                linop.Sum(shape, axes=tuple(range(nd - 1))))
        add("Tile%s" % shape, linop.Tile([2] + shape + [3], axes=(0, -1)))
        add("Resize-pad%s" % shape,
            linop.Resize([s + 2 + (k % 2) for k, s in enumerate(shape)],
                         shape))
        add("Resize-crop%s" % shape,
            linop.Resize(shape, [s + 1 + k for k, s in enumerate(shape)]))
        add("Resize-mixed%s" % shape,
            linop.Resize([s + (2 if k % 2 else -(s > 1))
                          for k, s in enumerate(shape)], shape))
        add("Downsample%s" % shape, linop.Downsample(shape, [2] * nd))
        add("Upsample%s" % shape,
            linop.Upsample([2 * s + 1 for s in shape], [2] * nd,
                           shift=[1] * nd))
        add("Embed%s" % shape,
            linop.Embed([s + 2 for s in shape],
                        tuple(slice(1, s + 1) for s in shape)))
        add("Slice%s" % shape,
            linop.Slice(shape, tuple(slice(0, None, 2) for s in shape)))
    add("MatMul", linop.MatMul([3, 2], c(4, 3)))
    add("MatMul-batch", linop.MatMul([2, 3, 1], c(2, 4, 3)))
    add("MatMul-bcast", linop.MatMul([3, 2], c(2, 4, 3)))
    add("MatMul-adj", linop.MatMul([4, 2], c(4, 3), adjoint=True))
    add("RightMatMul", linop.RightMatMul([2, 3], c(3, 4)))
    add("RightMatMul-bcast", linop.RightMatMul([2, 3], c(2, 3, 4)))
    add("Wavelet", linop.Wavelet([8]))
    add("Wavelet-haar2d", linop.Wavelet([5, 6], wave_name="haar", level=1))
    add("Wavelet-axes", linop.Wavelet([3, 8], axes=(-1,), wave_name="db2"))
    add("InverseWavelet", linop.InverseWavelet([7], wave_name="haar"))
    co = rng.uniform(-3, 3, [7, 1])
    add("Interpolate1", linop.Interpolate([2, 6], co))
    add("Interpolate1-kb",
        linop.Interpolate([6], co, kernel="kaiser_bessel", width=3, param=2))
    co2 = rng.uniform(-2, 2, [5, 2])
    add("Interpolate2", linop.Interpolate([4, 5], co2))
    add("Gridding2", linop.Gridding([4, 5], co2, width=3))
    add("ConvolveData", linop.ConvolveData([6], c(3)))
    add("ConvolveData-valid2d",
        linop.ConvolveData([4, 5], c(2, 3), mode="valid"))
    add("ConvolveData-strided",
        linop.ConvolveData([7], c(3), strides=[2]))
    add("ConvolveData-mc",
        linop.ConvolveData([2, 5], c(3, 2, 2), multi_channel=True))
    add("ConvolveFilter", linop.ConvolveFilter([3], c(6)))
    add("ConvolveFilter-valid", linop.ConvolveFilter([2], c(2, 5),
                                                     mode="valid"))
    add("ConvolveDataAdjoint", linop.ConvolveData([6], c(3)).H)
    add("FiniteDifference", linop.FiniteDifference([3, 4]))
    add("FiniteDifference-ax", linop.FiniteDifference([3, 4], axes=(-1,)))
    return ops


def composite_ops(rng, base):
    c = lambda *s: rng.standard_normal(s) + 1j * rng.standard_normal(s)
    ops = []
    add = lambda tag, A: ops.append((tag, A))
    F = linop.FFT([4, 3])
    P = linop.Multiply([4, 3], c(4, 3))
    R = linop.Resize([4, 3], [2, 3])
    T = linop.Transpose([4, 3])
    Fl = linop.Flip([4, 3], axes=(0,))
    B = linop.ArrayToBlocks([4, 3], [2, 2], [1, 1])
    add("P*F", P * F)
    add("F*P*R", F * P * R)
    add("T*F", T * F)
    add("Fl*P", Fl * P)
    add("P*Fl", P * Fl)
    add("Fl*Fl", Fl * Fl)
    add("B*P", B * P)
    add("B.H*B", B.H * B)
    add("2*F", 2 * F)
    add("F*(1-2j)", F * (1 - 2j))
    add("-Fl", -Fl)
    add("F+P", F + P)
    add("Fl-P", Fl - P)
    add("(F+P)*R", (F + P) * R)
    add("Vstack[F,P]", linop.Vstack([F, P], axis=0))
    add("Vstack[F,Fl,P] None", linop.Vstack([F, Fl, P]))
    add("Hstack[F,P]", linop.Hstack([F, P], axis=-1))
    add("Hstack[Fl,T.H*T] None", linop.Hstack([Fl, T.H * T]))
    add("Diag[F,Fl]", linop.Diag([F, Fl], oaxis=0, iaxis=1))
    add("Diag[R,B] None", linop.Diag([R, B]))
    add("Conj(F)", linop.Conj(F))
    add("Conj(P*Fl)", linop.Conj(P * Fl))
    add("F.H", F.H)
    add("(P*F).H", (P * F).H)
    add("F.N", F.N)
    add("P.N", P.N)
    add("B.N", B.N)
    add("Fl.N", Fl.N)
    add("Fl.N*P", Fl.N * P)
    add("Fl.H", Fl.H)
    return ops


def block_ops():
    """ArrayToBlocks / BlocksToArray: overlapping, gapped, tiling, ..."""
    ops = []
    for i in range(1, 8):
        for b in range(1, i + 1):
            for s in range(1, b + 3):
                ops.append(([i], [b], [s]))
    for i, b, s in itertools.product(
        [(4, 4), (5, 3), (3, 6), (1, 4), (4, 1)],
        [(1, 1), (2, 2), (1, 3), (3, 1), (2, 3), (4, 4), (3, 6)],
        [(1, 1), (2, 2), (1, 2), (3, 1), (2, 3), (4, 5), (7, 1)],
    ):
        if all(bb <= ii for bb, ii in zip(b, i)):
            ops.append((list(i), list(b), list(s)))
    for i, b, s in [
        ((3, 3, 3), (1, 1, 1), (1, 1, 1)),
        ((3, 3, 3), (3, 3, 3), (1, 2, 3)),
        ((4, 2, 3), (2, 2, 1), (2, 2, 1)),
        ((4, 2, 3), (2, 2, 1), (2, 5, 1)),
        ((4, 2, 4), (2, 1, 3), (1, 1, 2)),
        ((2, 4, 5), (2, 2, 2), (1, 2, 3)),
        ((2, 4, 5), (1, 3, 2), (1, 3, 2)),
    ]:
        ops.append((list(i), list(b), list(s)))
    # batch dimensions in front
    ops.append(([2, 5], [2], [2]))
    ops.append(([2, 5], [5], [3]))
    ops.append(([2, 1, 6], [3], [3]))
    ops.append(([3, 4, 4], [2, 2], [2, 2]))
    ops.append(([3, 4, 4], [4, 2], [1, 2]))
    ops.append(([2, 4, 4], [2, 2], [1, 3]))
    ops.append(([2, 2, 3, 3, 3], [1, 3, 2], [2, 1, 1]))
    return ops


def nufft_checks(rng):
    cases = [
        ([8], 1, {}),
        ([7], 1, dict(oversamp=1.5, width=5)),
        ([6, 5], 2, {}),
        ([2, 6, 6], 2, dict(oversamp=2.0, width=3)),
        ([4, 4, 4], 3, dict(oversamp=1.25, width=4)),
        ([1, 8], 1, dict(oversamp=1.3, width=6)),
        ([2, 1, 5, 4], 2, {}),
        ([5, 1], 2, {}),
    ]
    for shape, ndim, kw in cases:
        npts = 11
        coord = np.stack(
            [rng.uniform(-n / 2, n / 2, npts) for n in shape[-ndim:]], axis=-1
        )
        E = ndft_matrix(shape, coord)
        if len(shape) == 4:
            coord = coord.astype(np.float32)  # single precision trajectory
            E = ndft_matrix(shape, coord.astype(np.float64))
        for toeplitz in (False, True):
            A = linop.NUFFT(shape, coord, toeplitz=toeplitz, **kw)
            tag = "NUFFT%s %s toeplitz=%s" % (shape, kw, toeplitz)
            M = dense(A)
            # the operator approximates the exact NDFT
            rel = np.linalg.norm(M - E, 2) / np.linalg.norm(E, 2)
            if not rel < 2e-2:
                fail("%s: NUFFT far from NDFT (%.2e)" % (tag, rel))
            if not toeplitz:
                check_normal(tag, A, rng, M=M)
                continue
            # Toeplitz: interpolation accuracy only
            nrm2 = np.linalg.norm(E, 2) ** 2
            N = A.N
            if A.N is not N:
                fail("%s: A.N is not cached" % tag)
            for name, x, tol in inputs(rng, shape):
                for rep in range(2):
                    y = A.N(x)
                    NCHECK[0] += 1
                    if tuple(y.shape) != tuple(shape):
                        fail("%s[%s]: shape" % (tag, name))
                        break
                    xn = max(np.linalg.norm(np.ravel(x)), 1e-30)
                    ref1 = A.H(A(x))
                    ref2 = (E.conj().T @ (E @ np.ravel(x))).reshape(shape)
                    e1 = np.linalg.norm((y - ref1).ravel()) / (nrm2 * xn)
                    e2 = np.linalg.norm((y - ref2).ravel()) / (nrm2 * xn)
                    if not (e1 < 2e-2 and e2 < 2e-2):
                        fail("%s[%s]: toeplitz normal off by %.2e / %.2e"
                             % (tag, name, e1, e2))
                        break
            # compositions that contain a Toeplitz NUFFT
            S = linop.Multiply(shape, rng.standard_normal(shape) + 0j)
            AS = A * S
            x = rng.standard_normal(shape) + 1j * rng.standard_normal(shape)
            y = AS.N(x)
            ref = AS.H(AS(x))
            if not np.linalg.norm((y - ref).ravel()) <= 1e-9 * max(
                1.0, np.linalg.norm(ref.ravel())
            ):
                fail("%s: (A*S).N != (A*S).H (A*S)" % tag)


def main():
    rng = np.random.default_rng(4)
    for tag, A in simple_ops(rng):
        check_normal(tag, A, rng)
    for tag, A in composite_ops(rng, None):
        check_normal(tag, A, rng)

    # Flip against a numpy model
    for shape, axes in [([4], None), ([3, 2], (0,)), ([3, 2], (-1,)),
                        ([2, 3, 2], (0, 2)), ([1, 3], None), ([2, 2], ())]:
        idx = np.arange(prod(shape)).reshape(shape)
        ax = tuple(range(len(shape))) if axes is None else axes
        P = np.zeros((idx.size, idx.size))
        P[np.arange(idx.size), np.flip(idx, axis=ax).ravel()] = 1
        A = linop.Flip(shape, axes=axes)
        check_model("Flip%s %s" % (shape, axes), A, P)
        check_normal("Flip-model%s %s" % (shape, axes), A, rng, M=P)

    # Upsample / Downsample against a numpy model (zero filling / picking)
    for o in range(1, 8):
        for f in range(1, 4):
            for sh in range(0, min(f + 1, o)):
                pos = np.arange(sh, o, f)
                U = np.zeros((o, pos.size))
                U[pos, np.arange(pos.size)] = 1
                A = linop.Upsample([o], [f], shift=[sh])
                tag = "Upsample o=%d f=%d shift=%d" % (o, f, sh)
                check_model(tag, A, U)
                check_normal(tag, A, rng, M=U)
                A = linop.Downsample([o], [f], shift=[sh])
                tag = "Downsample o=%d f=%d shift=%d" % (o, f, sh)
                check_model(tag, A, U.T)
                check_normal(tag, A, rng, M=U.T)
    for oshape, fac, sh in [([4, 5], [2, 3], None), ([4, 5], [3, 1], [1, 0]),
                            ([1, 3, 4], [1, 2, 2], [0, 1, 1]),
                            ([2, 2], [5, 5], None), ([3, 3], [1, 1], None)]:
        A = linop.Upsample(oshape, fac, shift=sh)
        tag = "Upsample%s f=%s shift=%s" % (oshape, fac, sh)
        check_normal(tag, A, rng)
        check_normal(tag + " .H", A.H, rng)
        D = linop.Multiply(A.oshape, rng.standard_normal(A.oshape) + 0j)
        check_normal(tag + " D*A", D * A, rng)
        check_normal(tag + " A.H*D", A.H * D, rng)

    for ishape, b, s in block_ops():
        Mm, oshape = a2b_matrix(ishape, b, s)
        A = linop.ArrayToBlocks(ishape, b, s)
        tag = "ArrayToBlocks%s b=%s s=%s" % (ishape, b, s)
        if list(A.oshape) != list(oshape):
            fail("%s: oshape %s vs %s" % (tag, A.oshape, oshape))
            continue
        check_model(tag, A, Mm)
        check_normal(tag, A, rng, M=Mm)
        Bt = linop.BlocksToArray(ishape, b, s)
        tag = "BlocksToArray%s b=%s s=%s" % (ishape, b, s)
        check_model(tag, Bt, Mm.T)
        check_normal(tag, Bt, rng, M=Mm.T)
        check_normal(tag + " via .H", A.H, rng, M=Mm.T)
        # inside compositions
        D = linop.Multiply(A.oshape, rng.standard_normal(A.oshape) + 0j)
        check_normal(tag + " D*A", D * A, rng)

    nufft_checks(rng)

    print("%d applications of A.N checked (%d real-input cases skipped: "
          "operator does not accept real inputs)" % (NCHECK[0], len(SKIPPED)))
    if FAIL:
        print("%d FAILURES" % len(FAIL))
        sys.exit(1)
    print("OK")


if __name__ == "__main__":
    main()
