"""C02 demo for Tile / Sum (sigpy/linop.py) and the operators built on them
(adjoints of broadcasting Multiply / MatMul / RightMatMul).

Checks: value against an index-by-index reference, linearity over C
(A(a x + y) = a A(x) + A(y) with complex a, real and imaginary parts kept),
repeated application, fresh writeable output that does not alias the input,
byte-for-byte unchanged (read-only, strided, Fortran) inputs and captured
arrays, dtype preservation, and the Sum <-> Tile adjoint identity.
Exits 0 iff everything agrees.
"""
import sys

import numpy as np

from sigpy import linop

rng = np.random.RandomState(99)
failures = []


def make(shape, dtype):
    dtype = np.dtype(dtype)
    a = rng.standard_normal(shape) * 4
    if dtype.kind == "c":
        a = a + 4j * rng.standard_normal(shape)
    return np.asarray(a).astype(dtype)


def layouts(a):
    yield "C", np.ascontiguousarray(a)
    if a.ndim:
        yield "F", np.asfortranarray(a)
        big = np.zeros(tuple(2 * s for s in a.shape), dtype=a.dtype)
        view = big[tuple(slice(1, None, 2) for _ in a.shape)]
        view[...] = a
        yield "strided", view
        yield "reversed", np.ascontiguousarray(a[::-1])[::-1]


def ref_tile(x, oshape, axes):
    axes = [a % len(oshape) for a in axes]
    keep = [d for d in range(len(oshape)) if d not in axes]
    out = np.zeros(oshape, dtype=x.dtype)
    for idx in np.ndindex(*oshape):
        out[idx] = x[tuple(idx[d] for d in keep)]
    return out


def ref_sum(x, axes):
    axes = [a % x.ndim for a in axes]
    keep = [d for d in range(x.ndim) if d not in axes]
    out = np.zeros([x.shape[d] for d in keep], dtype=complex)
    for idx in np.ndindex(*x.shape):
        out[tuple(idx[d] for d in keep)] += x[idx]
    return out


def snap(a):
    return (a.tobytes(), a.shape, a.strides, a.dtype)


def rel(a, b):
    a, b = np.asarray(a), np.asarray(b)
    if a.shape != b.shape:
        return np.inf
    return np.abs(a - b).max() / max(1.0, np.abs(b).max())


tile_cfgs = [
    ([2, 3, 4], (1, -1)),
    ([2, 3, 4], (0,)),
    ([2, 3], ()),
    ([2, 3], (0, 1)),
    ([1, 3, 1], (0, 2)),
    ([1, 3, 1], (1,)),
    ([4], (0,)),
    ([4], (-1,)),
    ([3, 1, 2], (1,)),
    ([2, 3, 2, 3], (-4, 2)),
    ([1, 1], (0,)),
    ([5, 1], (-2,)),
]

for oshape, axes in tile_cfgs:
    T = linop.Tile(oshape, axes)
    S = linop.Sum(oshape, axes)
    name = "Tile(%s, %s)" % (oshape, axes)
    if list(T.ishape) != list(S.oshape) or list(T.oshape) != list(S.ishape):
        failures.append(name + ": Tile/Sum shapes inconsistent")
    if list(T.H.ishape) != list(T.oshape) or list(T.H.oshape) != list(
        T.ishape
    ):
        failures.append(name + ": adjoint shapes not swapped")
    for dt in [np.complex128, np.complex64, np.float64, np.float32, np.int64]:
        x = make(T.ishape, dt)
        expect = ref_tile(x, oshape, axes)
        for lname, xx in layouts(x):
            tag = "%s %s %s" % (name, np.dtype(dt).name, lname)
            xx.flags.writeable = False
            before = snap(xx)
            out = T(xx)
            out2 = T(xx)
            outH = S.H(xx)  # the Tile built as adjoint of Sum
            outHH = T.H.H(xx)
            if snap(xx) != before:
                failures.append(tag + ": input modified")
            for o in (out, out2, outH, outHH):
                if o.dtype != np.dtype(dt) or not np.array_equal(o, expect):
                    failures.append(tag + ": value/dtype")
                if np.shares_memory(o, xx) or not o.flags.writeable:
                    failures.append(tag + ": output aliases input/readonly")
            # writing into one output must not affect input or later outputs
            if out.flags.writeable:
                out[...] = 0
            if snap(xx) != before or not np.array_equal(T(xx), expect):
                failures.append(tag + ": output shares state")
    # linearity over C and adjoint identity, double and single precision
    for dt, tol in [(np.complex128, 1e-13), (np.complex64, 1e-5)]:
        a = np.dtype(dt).type(0.3 - 1.7j)
        x, y = make(T.ishape, dt), make(T.ishape, dt)
        # (np.asarray: arithmetic on 0-d arrays returns numpy scalars)
        if rel(T(np.asarray(a * x + y)), a * T(x) + T(y)) > tol:
            failures.append(name + ": Tile not C-linear")
        if rel(T(np.asarray(1j * x).astype(dt)), 1j * T(x)) > tol:
            failures.append(name + ": Tile mixes real/imag")
        u, v = make(S.ishape, dt), make(S.ishape, dt)
        if rel(S(a * u + v), a * S(u) + S(v)) > 10 * tol:
            failures.append(name + ": Sum not C-linear")
        if rel(S(u), ref_sum(u, axes)) > 10 * tol:
            failures.append(name + ": Sum value")
        lhs, rhs = np.vdot(u, T(x)), np.vdot(T.H(u), x)
        if abs(lhs - rhs) > 50 * tol * max(1.0, abs(lhs)):
            failures.append(name + ": <Tx,u> != <x,T^H u>")
        lhs, rhs = np.vdot(x, S(u)), np.vdot(S.H(x), u)
        if abs(lhs - rhs) > 50 * tol * max(1.0, abs(lhs)):
            failures.append(name + ": <Su,x> != <u,S^H x>")

# ---- operators whose adjoint (and adjoint of adjoint) go through Sum/Tile
mult = make((3, 1, 4), np.complex128)
mat = make((2, 1, 4, 3), np.complex128)
rmat = make((3, 3, 2), np.complex128)
ops = [
    ("Multiply bcast", lambda: linop.Multiply([2, 1, 5, 1], mult), [mult],
     lambda x: x * mult),
    ("Multiply same shape", lambda: linop.Multiply([3, 5, 4], mult), [mult],
     lambda x: x * mult),
    ("Multiply scalar", lambda: linop.Multiply([3, 2], 2 - 1j), [],
     lambda x: x * (2 - 1j)),
    ("MatMul bcast", lambda: linop.MatMul([1, 5, 3, 2], mat), [mat],
     lambda x: mat @ x),
    ("RightMatMul bcast", lambda: linop.RightMatMul([1, 4, 3], rmat), [rmat],
     lambda x: x @ rmat),
]
for name, mk, captured, fun in ops:
    A = mk()
    for c in captured:
        c.flags.writeable = False
    csnap = [snap(c) for c in captured]
    for B, label in [(A, "A"), (A.H.H, "A.H.H"), (A.H.H.H.H, "A.H.H.H.H")]:
        for dt, tol in [(np.complex128, 1e-12), (np.complex64, 1e-5),
                        (np.float64, 1e-12)]:
            x = make(A.ishape, dt)
            x.flags.writeable = False
            before = snap(x)
            out = B(x)
            if rel(out, fun(x)) > tol:
                failures.append("%s %s: value" % (name, label))
            if not np.array_equal(out, B(x)):
                failures.append("%s %s: not deterministic" % (name, label))
            if snap(x) != before:
                failures.append("%s %s: input modified" % (name, label))
        a = 1.1 + 0.4j
        x, y = make(A.ishape, np.complex128), make(A.ishape, np.complex128)
        if rel(B(a * x + y), a * B(x) + B(y)) > 1e-12:
            failures.append("%s %s: not C-linear" % (name, label))
        u = make(A.oshape, np.complex128)
        u.flags.writeable = False
        before = snap(u)
        lhs, rhs = np.vdot(u, B(x)), np.vdot(B.H(u), x)
        if abs(lhs - rhs) > 1e-11 * max(1.0, abs(lhs)):
            failures.append("%s %s: adjoint identity" % (name, label))
        if snap(u) != before or not np.array_equal(B.H(u), B.H(u)):
            failures.append("%s %s: adjoint mutates/non-deterministic"
                            % (name, label))
    if [snap(c) for c in captured] != csnap:
        failures.append(name + ": captured array modified")

if failures:
    print("FAILED (%d):" % len(failures))
    for f in failures[:40]:
        print("  ", f)
    sys.exit(1)
print("ok")
sys.exit(0)
