"""C14 demo: LinearLeastSquares returns the documented minimiser, whatever
the solver / lamda / z / proxg / G / step-size arguments / initial x.

Independent reference: dense numpy linear algebra.  Quadratic cases are
solved in closed form with np.linalg.solve; l1 / box cases by a small
numpy ADMM with exact (direct) x-updates run to machine precision, whose
result is additionally sanity-checked by random perturbations (the problem
is convex, so a local minimiser is a global one).

Exit status 0 iff every check passes.
"""
import itertools
import sys
import zlib

import numpy as np

import sigpy as sp
from sigpy import app, linop, prox

FOCUS = "GradientMethod"  # the solver this copy of the demo stresses hardest

failures = []
nchecks = 0
worst = {}  # effective solver -> largest (objective gap / tolerance) seen


def check(cond, msg):
    global nchecks
    nchecks += 1
    if not cond:
        failures.append(msg)
        print("FAIL:", msg)


# ---------------------------------------------------------------- reference
def g_value(kind, par, v):
    if kind is None:
        return 0.0
    if kind == "l1":
        return par * np.sum(np.abs(v))
    if kind == "l2":
        return par / 2 * np.linalg.norm(v) ** 2
    if kind == "box":
        return 0.0  # feasibility is checked separately
    raise ValueError(kind)


def box_violation(kind, par, v):
    if kind != "box":
        return 0.0
    lo, hi = par
    return float(max(np.max(lo - v), np.max(v - hi), 0))


def objective(Am, y, lam, z, Gm, kind, par, x):
    x = np.asarray(x, dtype=np.complex128 if np.iscomplexobj(x) else float)
    f = 0.5 * np.linalg.norm(Am @ x - y) ** 2
    if lam != 0:
        zz = 0 if z is None else z
        f += lam / 2 * np.linalg.norm(x - zz) ** 2
    v = x if Gm is None else Gm @ x
    return float(f + g_value(kind, par, v))


def ref_prox(kind, par, t, v):
    if kind is None:
        return v
    if kind == "l1":
        mag = np.abs(v)
        with np.errstate(divide="ignore", invalid="ignore"):
            scale = np.where(mag > 0, np.maximum(mag - par * t, 0) / mag, 0)
        return v * scale
    if kind == "l2":
        return v / (1 + par * t)
    if kind == "box":
        return np.clip(v, par[0], par[1])
    raise ValueError(kind)


def ref_minimise(Am, y, lam, z, Gm, kind, par):
    n = Am.shape[1]
    dt = np.result_type(Am.dtype, y.dtype, np.float64)
    Gd = np.eye(n) if Gm is None else Gm
    zz = np.zeros(n, dtype=dt) if z is None else np.asarray(z, dtype=dt)
    H = Am.conj().T @ Am + lam * np.eye(n)
    b = Am.conj().T @ y + lam * zz
    if kind is None:
        return np.linalg.solve(H, b)
    if kind == "l2":
        return np.linalg.solve(H + par * Gd.conj().T @ Gd, b)
    # numpy ADMM with direct solves.
    rho = 1.0
    Minv = np.linalg.inv(H + rho * Gd.conj().T @ Gd)
    x = np.zeros(n, dtype=dt)
    v = np.zeros(Gd.shape[0], dtype=dt)
    u = np.zeros(Gd.shape[0], dtype=dt)
    for it in range(200000):
        x = Minv @ (b + rho * Gd.conj().T @ (v - u))
        Gx = Gd @ x
        v_new = ref_prox(kind, par, 1 / rho, Gx + u)
        u = u + Gx - v_new
        r = np.linalg.norm(Gx - v_new)
        s = np.linalg.norm(v_new - v)
        v = v_new
        if r < 1e-14 and s < 1e-14:
            break
    return x


def certify(Am, y, lam, z, Gm, kind, par, x_ref, rng):
    """Random-perturbation check that x_ref is a (local => global) min."""
    f0 = objective(Am, y, lam, z, Gm, kind, par, x_ref)
    ok = box_violation(kind, par, x_ref if Gm is None else Gm @ x_ref) < 1e-9
    for scale in [1e-1, 1e-3, 1e-5]:
        for _ in range(20):
            d = rng.standard_normal(x_ref.shape)
            if np.iscomplexobj(x_ref):
                d = d + 1j * rng.standard_normal(x_ref.shape)
            xt = x_ref + scale * d
            vt = xt if Gm is None else Gm @ xt
            if box_violation(kind, par, vt) > 0:
                continue
            ok = ok and objective(Am, y, lam, z, Gm, kind, par, xt) >= (
                f0 - 1e-10 * (1 + abs(f0))
            )
    return ok, f0


# ------------------------------------------------------------ problem set-up
def make_problem(rng, m, n, dtype, gkind, Gkind, lam, use_z):
    cplx = np.issubdtype(dtype, np.complexfloating)

    def rnd(*shape):
        a = rng.standard_normal(shape)
        if cplx:
            a = a + 1j * rng.standard_normal(shape)
        return a.astype(dtype)

    # Well conditioned forward matrix (full column rank, m >= n).
    Q1, _ = np.linalg.qr(rnd(m, m).astype(np.complex128 if cplx else float))
    Q2, _ = np.linalg.qr(rnd(n, n).astype(np.complex128 if cplx else float))
    sv = np.linspace(1.0, 2.0, n)
    Am = ((Q1[:, :n] * sv) @ Q2.conj().T).astype(dtype)
    y = rnd(m)
    z = rnd(n) if use_z else None
    if Gkind is None:
        Gm = None
    elif Gkind == "dense":
        Gm = (rnd(n + 1, n) / 2).astype(dtype)
    elif Gkind == "fd":
        Gm = None  # filled below from the sigpy linop (circular difference)
    par = None
    if gkind == "l1":
        par = 0.3
    elif gkind == "l2":
        par = 0.7
    elif gkind == "box":
        par = (-0.2, 0.25)
    return Am, y, z, Gm, par


def sigpy_pieces(Am, Gkind, Gm, gkind, par, n):
    A = linop.MatMul([n, 1], Am)
    # MatMul works on [n, 1] columns; wrap so that x is a length-n vector.
    A = linop.Reshape([Am.shape[0]], A.oshape) * A * linop.Reshape([n, 1], [n])
    if Gkind is None:
        G = None
        gshape = [n]
    elif Gkind == "dense":
        G = linop.MatMul([n, 1], Gm)
        G = linop.Reshape([Gm.shape[0]], G.oshape) * G * linop.Reshape(
            [n, 1], [n]
        )
        gshape = [Gm.shape[0]]
    else:
        G = linop.FiniteDifference([n])
        gshape = list(G.oshape)
    if gkind is None:
        pg = None
    elif gkind == "l1":
        pg = prox.L1Reg(gshape, par)
    elif gkind == "l2":
        pg = prox.L2Reg(gshape, par)
    else:
        pg = prox.BoxConstraint(gshape, par[0], par[1])
    return A, G, pg


def dense_of(L, n, dtype):
    cols = [np.ravel(L(e.astype(dtype))) for e in np.eye(n)]
    return np.stack(cols, axis=1)


SOLVERS = [
    None,
    "ConjugateGradient",
    "GradientMethod",
    "PrimalDualHybridGradient",
    "ADMM",
]


def supported(solver, gkind, Gkind):
    if solver == "ConjugateGradient":
        return gkind is None
    if solver == "GradientMethod":
        return Gkind is None
    return True


def run_case(rng, m, n, dtype, solver, lam, use_z, gkind, Gkind, variant):
    cplx = np.issubdtype(dtype, np.complexfloating)
    if gkind == "box" and cplx:
        return
    tag = "{} m={} n={} {} lam={} z={} g={} G={} var={}".format(
        np.dtype(dtype).name, m, n, solver, lam, use_z, gkind, Gkind, variant
    )
    # Every case draws its own data, so a case is the same problem no matter
    # which other cases are run.
    rng = np.random.default_rng(zlib.crc32(tag.encode()))
    Am, y, z, Gm, par = make_problem(rng, m, n, dtype, gkind, Gkind, lam, use_z)
    A, G, pg = sigpy_pieces(Am, Gkind, Gm, gkind, par, n)
    if Gkind == "fd":
        Gm = dense_of(G, n, dtype).reshape(-1, n)

    kwargs = dict(
        proxg=pg, lamda=lam, G=G, z=z, solver=solver, show_pbar=False
    )
    if not supported(solver, gkind, Gkind):
        try:
            app.LinearLeastSquares(A, y, **kwargs).run()
        except ValueError:
            check(True, tag)
        except Exception as e:  # wrong kind of failure
            check(False, tag + " raised {!r} not ValueError".format(e))
        else:
            check(False, tag + " unsupported combination did not raise")
        return

    A64 = Am.astype(np.complex128 if cplx else float)
    G64 = None if Gm is None else Gm.astype(A64.dtype)
    y64 = y.astype(A64.dtype)
    z64 = None if z is None else z.astype(A64.dtype)
    x_ref = ref_minimise(A64, y64, lam, z64, G64, gkind, par)
    ok, f_ref = certify(A64, y64, lam, z64, G64, gkind, par, x_ref, rng)
    check(ok, tag + " reference not certified")

    eff = solver
    if eff is None:
        eff = (
            "ConjugateGradient"
            if gkind is None
            else ("GradientMethod" if Gkind is None else "PrimalDualHybridGradient")
        )
    kwargs["max_iter"] = {
        "ConjugateGradient": 4 * n + 10,
        "GradientMethod": 500,
        "PrimalDualHybridGradient": 1000,
        "ADMM": 150,
    }[eff]
    if eff == "ADMM":
        kwargs["max_cg_iter"] = n + 3
        if gkind == "box" and Gkind is not None:
            kwargs["max_iter"] = 3000  # constraints on G x converge slowly

    # Variants: step sizes / preconditioner / initial x / array flavours.
    x0 = None
    if variant == "given":
        L = np.linalg.norm(A64, 2) ** 2 + lam
        if eff == "GradientMethod":
            kwargs["alpha"] = 0.9 / L
        elif eff == "PrimalDualHybridGradient":
            S = A64 if G64 is None else np.vstack([A64, G64])
            nrm = np.linalg.norm(S, 2)
            kwargs["tau"] = 0.95 / nrm
            kwargs["sigma"] = 0.95 / nrm
        elif eff == "ADMM":
            kwargs["rho"] = 0.5
        elif eff == "ConjugateGradient":
            d = 1 / (np.sum(np.abs(A64) ** 2, axis=0) + lam)
            kwargs["P"] = linop.Multiply([n], d.astype(y.real.dtype))
        x0 = (x_ref + 0.5).astype(dtype)
    elif variant == "x_at_opt":
        x0 = x_ref.astype(dtype)
    elif variant == "readonly_noncontig":
        ybig = np.zeros(2 * len(y), dtype=dtype)
        ybig[::2] = y
        y = ybig[::2]
        ybig.setflags(write=False)
        if z is not None:
            zbig = np.zeros((len(z), 3), dtype=dtype)
            zbig[:, 1] = z
            z = zbig[:, 1]
            zbig.setflags(write=False)
            kwargs["z"] = z
    elif variant == "sigma_only" and eff == "PrimalDualHybridGradient":
        kwargs["sigma"] = 0.5
    elif variant == "tau_only" and eff == "PrimalDualHybridGradient":
        S = A64 if G64 is None else np.vstack([A64, G64])
        kwargs["tau"] = 0.5 / np.linalg.norm(S, 2)

    y_before = np.array(y, copy=True)
    z_before = None if z is None else np.array(z, copy=True)
    np.random.seed(1234)
    a = app.LinearLeastSquares(A, y, x=x0, **kwargs)
    x = a.run()
    check(x is a.x, tag + " run() does not return app.x")
    check(np.array_equal(y, y_before), tag + " y modified")
    if z is not None:
        check(np.array_equal(z, z_before), tag + " z modified")
    check(x.dtype == np.dtype(dtype), tag + " dtype {}".format(x.dtype))
    check(x.shape == (n,), tag + " shape {}".format(x.shape))

    single = np.dtype(dtype) in (np.dtype(np.complex64), np.dtype(np.float32))
    tol = (2e-4 if single else 1e-6) * (1 + abs(f_ref))
    vtol = 2e-3 if single else 1e-4

    def assess(xx, what):
        f = objective(A64, y64, lam, z64, G64, gkind, par, xx)
        viol = box_violation(gkind, par, xx if G64 is None else G64 @ xx)
        worst[eff] = max(worst.get(eff, 0), (f - f_ref) / tol, viol / vtol)
        check(
            np.isfinite(f) and f - f_ref <= tol and viol <= vtol,
            "{} {}: f={:.12g} f*={:.12g} gap={:.3g} viol={:.3g}".format(
                tag, what, f, f_ref, f - f_ref, viol
            ),
        )
        # Nothing can beat the certified optimum by more than what a
        # slightly infeasible point buys.
        slack = tol + 10 * viol * (1 + abs(f_ref))
        check(f >= f_ref - slack, tag + " " + what + " beats the reference")

    assess(np.array(x), "first run")
    if variant == "rerun":
        x2 = a.run()  # repeated call on the same object must stay optimal
        assess(np.array(x2), "second run")


def main():
    rng = np.random.default_rng(20240614)
    combos = list(
        itertools.product(
            SOLVERS,
            [0, 0.6],
            [False, True],
            [None, "l1", "l2", "box"],
            [None, "dense", "fd"],
        )
    )
    variants = [
        "default",
        "given",
        "x_at_opt",
        "readonly_noncontig",
        "rerun",
        "sigma_only",
        "tau_only",
    ]
    k = 0
    for solver, lam, use_z, gkind, Gkind in combos:
        if use_z and lam == 0:
            continue  # z is irrelevant without the l2 term
        for dtype in [np.float64, np.complex128]:
            k += 1
            # Rotate through the variants; the focus solver gets all of them.
            vs = [variants[k % len(variants)]]
            if solver == FOCUS and dtype == np.complex128 and (
                gkind in (None, "l1")
            ):
                vs = variants
            for variant in vs:
                run_case(
                    rng, 7, 5, dtype, solver, lam, use_z, gkind, Gkind, variant
                )
    # Unusual sizes and single precision, for every solver.
    for solver in SOLVERS:
        for dtype, (m, n) in itertools.product(
            [np.complex64, np.float32, np.complex128], [(1, 1), (4, 3), (6, 6)]
        ):
            for gkind, Gkind in [(None, None), ("l1", None), ("l1", "dense")]:
                if n == 1 and Gkind == "fd":
                    continue
                run_case(rng, m, n, dtype, solver, 0.4, True, gkind, Gkind,
                         "default")
                run_case(rng, m, n, dtype, solver, 0, False, gkind, Gkind,
                         "given")
    # A = Identity: A.H(y) is y itself, which must not be overwritten, and
    # the observation may be read-only.
    for solver, gkind, dtype in itertools.product(
        SOLVERS, [None, "l1"], [np.float64, np.complex128]
    ):
        if not supported(solver, gkind, None):
            continue
        n = 4
        r2 = np.random.default_rng(77)
        y = r2.standard_normal(n).astype(dtype)
        z = r2.standard_normal(n).astype(dtype)
        if dtype == np.complex128:
            y = y + 1j * r2.standard_normal(n)
            z = z - 1j * r2.standard_normal(n)
        y0 = y.copy()
        y.setflags(write=False)
        z.setflags(write=False)
        lam, par = 0.5, 0.3
        pg = None if gkind is None else prox.L1Reg([n], par)
        np.random.seed(3)
        x = app.LinearLeastSquares(
            linop.Identity([n]), y, proxg=pg, lamda=lam, z=z, solver=solver,
            max_iter=400, show_pbar=False,
        ).run()
        # closed form: soft-threshold of the weighted mean of y and z
        x_ref = ref_prox(gkind, par, 1 / (1 + lam), (y0 + lam * z) / (1 + lam))
        err = np.linalg.norm(x - x_ref) / np.linalg.norm(x_ref)
        check(
            err <= 1e-6,
            "identity A {} g={} {}: err {:.3g}".format(
                solver, gkind, np.dtype(dtype).name, err
            ),
        )
        check(np.array_equal(y, y0), "identity A: y overwritten")

    # Invalid solver name is rejected.
    try:
        app.LinearLeastSquares(
            linop.Identity([3]), np.ones(3), solver="Nope", show_pbar=False
        )
    except ValueError:
        check(True, "invalid solver")
    else:
        check(False, "invalid solver name accepted")

    for key in sorted(worst):
        print("worst gap/tolerance for {}: {:.3g}".format(key, worst[key]))
    print("{} checks, {} failures".format(nchecks, len(failures)))
    return 1 if failures else 0


if __name__ == "__main__":
    sys.exit(main())
