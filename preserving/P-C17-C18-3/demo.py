"""C17 demo: ESPIRiT maps are unit-norm or zero, phase-referenced, have
eigenvalues in [0, 1] and recover the true maps.

Standalone (numpy / sigpy only).  Exit status 0 iff every check passes.

The reference is an independent re-derivation of ESPIRiT written with plain
numpy (sliding_window_view + SVD + per-voxel dense eigendecomposition with
numpy.linalg.eigh); it shares no code with sigpy.mri.app.EspiritCalib,
sigpy.block or sigpy.alg.PowerMethod.
"""
import sys
import warnings

import numpy as np
from numpy.lib.stride_tricks import sliding_window_view

import sigpy as sp
import sigpy.mri as mr

FAILURES = []


def check(cond, msg):
    if not cond:
        FAILURES.append(msg)
        print("FAIL:", msg)


# ----------------------------------------------------------------------
# independent reference
# ----------------------------------------------------------------------
def centered_resize(x, oshape):
    """Centre crop / zero-pad (same convention as an fftshift-ed grid)."""
    out = np.zeros(oshape, dtype=x.dtype)
    src, dst = [], []
    for i, o in zip(x.shape, oshape):
        n = min(i, o)
        s0 = max(i // 2 - o // 2, 0)
        d0 = max(o // 2 - i // 2, 0)
        src.append(slice(s0, s0 + n))
        dst.append(slice(d0, d0 + n))
    out[tuple(dst)] = x[tuple(src)]
    return out


def centered_ifft(x, axes):
    x = np.fft.ifftshift(x, axes=axes)
    x = np.fft.ifftn(x, axes=axes, norm="ortho")
    return np.fft.fftshift(x, axes=axes)


def centered_fft(x, axes):
    x = np.fft.ifftshift(x, axes=axes)
    x = np.fft.fftn(x, axes=axes, norm="ortho")
    return np.fft.fftshift(x, axes=axes)


def espirit_reference(ksp, calib_width, thresh, kernel_width):
    """Returns (lam, vec, gap): per-voxel leading eigenvalue, eigenvector
    (shape [nc, *img]) and ratio of second to first eigenvalue."""
    ksp = np.asarray(ksp).astype(np.complex128)
    nc = ksp.shape[0]
    img_shape = ksp.shape[1:]
    nd = len(img_shape)
    calib = centered_resize(ksp, (nc,) + (calib_width,) * nd)
    win = sliding_window_view(
        calib, (kernel_width,) * nd, axis=tuple(range(1, nd + 1))
    )  # [nc, *nblk, *kw]
    nblk = int(np.prod(win.shape[1 : 1 + nd]))
    mat = win.reshape(nc, nblk, kernel_width**nd)
    mat = np.moveaxis(mat, 0, 1).reshape(nblk, nc * kernel_width**nd)
    _, s, vh = np.linalg.svd(mat, full_matrices=False)
    vh = vh[s > thresh * s.max()]
    G = np.zeros(img_shape + (nc, nc), dtype=np.complex128)
    axes = tuple(range(1, nd + 1))
    for v in vh:
        ker = v.reshape((nc,) + (kernel_width,) * nd)
        im = centered_ifft(centered_resize(ker, (nc,) + img_shape), axes)
        im = np.moveaxis(im, 0, -1)  # [*img, nc]
        G += im[..., :, None] * np.conj(im[..., None, :])
    G *= np.prod(img_shape) / kernel_width**nd
    w, V = np.linalg.eigh(G)
    lam = w[..., -1]
    vec = np.moveaxis(V[..., :, -1], -1, 0)
    if nc > 1:
        with np.errstate(divide="ignore", invalid="ignore"):
            gap = np.abs(w[..., -2]) / np.abs(lam)
    else:
        gap = np.zeros_like(lam)
    return lam, vec, gap


# ----------------------------------------------------------------------
# property checks
# ----------------------------------------------------------------------
def check_invariants(tag, ksp, maps, eig, crop, single):
    tol = 2e-3 if single else 1e-9
    nc = ksp.shape[0]
    check(maps.shape == ksp.shape, f"{tag}: maps shape {maps.shape}")
    check(maps.dtype == ksp.dtype, f"{tag}: maps dtype {maps.dtype}")
    check(np.all(np.isfinite(maps)), f"{tag}: non-finite maps")
    check(np.all(np.isfinite(eig)), f"{tag}: non-finite eigenvalues")
    eig = np.asarray(eig).reshape(ksp.shape[1:])
    norm = np.sqrt(np.sum(np.abs(maps.astype(np.complex128)) ** 2, axis=0))
    zero = np.all(maps == 0, axis=0)
    check(
        np.all(zero | (np.abs(norm - 1) < tol)),
        f"{tag}: voxel neither unit-norm nor zero, worst "
        f"{np.max(np.where(zero, 0, np.abs(norm - 1)))}",
    )
    # zero exactly where the eigenvalue does not exceed the crop threshold
    check(np.array_equal(zero, ~(eig > crop)), f"{tag}: crop mask mismatch")
    # first coil real and non-negative
    check(
        np.all(np.abs(maps[0].imag) <= tol),
        f"{tag}: coil 0 not real, worst {np.max(np.abs(maps[0].imag))}",
    )
    check(np.all(maps[0].real >= -tol), f"{tag}: coil 0 negative")
    # eigenvalues between 0 and 1
    etol = 1e-3 if single else 1e-9
    check(
        np.all(eig >= -etol) and np.all(eig <= 1 + etol),
        f"{tag}: eigenvalue out of [0,1]: {eig.min()} {eig.max()}",
    )
    return nc


def check_against_reference(tag, ksp, maps, eig, cw, thresh, kw, crop, single):
    lam, vec, gap = espirit_reference(ksp, cw, thresh, kw)
    eig = np.asarray(eig).reshape(ksp.shape[1:]).astype(np.float64)
    # power iteration (100 its) has converged where the gap is clear
    conv = gap < 0.7
    tol = 5e-3 if single else 1e-7
    if conv.any():
        err = np.max(np.abs(eig - lam)[conv])
        check(err < tol, f"{tag}: eigenvalue differs from eigh by {err}")
        sel = conv & (lam > crop + 1e-3) & (eig > crop)
        if sel.any():
            a = np.abs(maps.astype(np.complex128))[:, sel]
            b = np.abs(vec)[:, sel]
            err = np.max(np.abs(a - b))
            check(
                err < (2e-2 if single else 1e-6),
                f"{tag}: |maps| differs from leading eigenvector by {err}",
            )
    return int(conv.sum())


def run_espirit(ksp, **kw):
    with warnings.catch_warnings():
        warnings.simplefilter("ignore")
        app = mr.app.EspiritCalib(
            ksp, show_pbar=False, output_eigenvalue=True, **kw
        )
        maps, eig = app.run()
    return maps, eig


def rnd(rng, shape, dtype):
    x = rng.standard_normal(shape) + 1j * rng.standard_normal(shape)
    return x.astype(dtype)


def smooth_problem(rng, nc, img_shape, dtype, support=False):
    """k-space synthesised from smooth (low-order) maps times an image.
    With support=True the image vanishes outside a centred ellipsoid."""
    nd = len(img_shape)
    grids = np.meshgrid(
        *[(np.arange(n) - n // 2) / n for n in img_shape], indexing="ij"
    )
    maps = np.zeros((nc,) + tuple(img_shape), dtype=np.complex128)
    for c in range(nc):
        ang = 2 * np.pi * c / nc
        cen = [0.9 * np.cos(ang + 0.7 * d) for d in range(nd)]
        r2 = sum((g - ce) ** 2 for g, ce in zip(grids, cen))
        ph = sum((0.8 * np.cos(ang + d)) * g for d, g in enumerate(grids))
        maps[c] = np.exp(-r2 / 1.5) * np.exp(1j * ph)
    img = rnd(rng, img_shape, np.complex128)
    img += 3.0
    if support:
        img = img * (sum(g**2 for g in grids) < 0.36**2)
    ksp = centered_fft(maps * img, tuple(range(1, nd + 1)))
    rss = np.sqrt(np.sum(np.abs(maps) ** 2, axis=0))
    return ksp.astype(dtype), np.abs(maps) / rss


def core_checks():
    rng = np.random.default_rng(1234)
    n_conv = 0

    # ---- random k-space: invariants + comparison with dense reference
    random_cases = [
        # (shape, dtype, calib_width, kernel_width, thresh, crop)
        ((2, 16, 16), np.complex128, 8, 3, 0.02, 0.95),
        ((3, 17, 15), np.complex128, 9, 4, 0.05, 0.8),
        ((4, 12, 20), np.complex64, 10, 3, 0.02, 0.9),
        ((5, 16, 16), np.complex128, 12, 5, 0.1, 0.5),
        ((8, 16, 16), np.complex128, 8, 2, 0.3, 0.7),
        ((6, 13, 13), np.complex64, 7, 3, 0.2, 0.0),
        ((7, 16, 18), np.complex128, 16, 6, 0.02, 0.99),
        ((2, 8, 8, 8), np.complex128, 5, 2, 0.05, 0.9),
        ((4, 7, 8, 9), np.complex128, 6, 3, 0.3, 0.6),
        ((3, 6, 10, 8), np.complex64, 6, 2, 0.1, 0.85),
        ((3, 1, 16), np.complex128, 4, 2, 0.02, 0.3),
        ((3, 16, 1), np.complex128, 4, 2, 0.02, 0.3),
    ]
    for shape, dtype, cw, kw, thresh, crop in random_cases:
        ksp = rnd(rng, shape, dtype)
        # make it low-rank-ish so that some voxels exceed the crop level
        if rng.random() < 0.5:
            ksp[1:] = ksp[1:] * 0.05 + ksp[:1]
        single = dtype == np.complex64
        tag = f"random{shape}/{np.dtype(dtype).name}/cw{cw}/kw{kw}"
        before = ksp.copy()
        maps, eig = run_espirit(
            ksp, calib_width=cw, kernel_width=kw, thresh=thresh, crop=crop
        )
        check(np.array_equal(ksp, before), f"{tag}: input modified")
        check_invariants(tag, ksp, maps, eig, crop, single)
        n_conv += check_against_reference(
            tag, ksp, maps, eig, cw, thresh, kw, crop, single
        )
        # crop level in the middle of the eigenvalue range: mixed zero /
        # unit-norm voxels; the eigenvalues do not depend on crop
        crop2 = float(np.median(np.asarray(eig, dtype=np.float64)))
        maps2, eig2 = run_espirit(
            ksp, calib_width=cw, kernel_width=kw, thresh=thresh, crop=crop2
        )
        check(np.array_equal(eig, eig2), f"{tag}: eigenvalues depend on crop")
        check_invariants(tag + "/median-crop", ksp, maps2, eig2, crop2, single)
        keep = np.asarray(eig2).reshape(shape[1:]) > crop2
        check(
            np.array_equal(maps2[:, keep], maps[:, keep])
            or not np.all(np.asarray(eig).reshape(shape[1:])[keep] > crop),
            f"{tag}: kept voxels depend on crop",
        )

    # ---- unusual-but-valid array layouts: same answer as a plain copy
    base = rnd(rng, (4, 16, 36), np.complex128)
    variants = {
        "strided": base[:, :, ::2],
        "fortran": np.asfortranarray(base[:, :, :18]),
        "transposed-view": base[:, :, :16].transpose(0, 2, 1),
        "reversed": base[:, ::-1, 18:2:-1],
    }
    ro = base[:, :, 1:17].copy()
    ro.setflags(write=False)
    variants["read-only"] = ro
    for name, ksp in variants.items():
        tag = f"layout/{name}"
        kw = dict(calib_width=8, kernel_width=3, thresh=0.05, crop=0.6)
        maps, eig = run_espirit(ksp, **kw)
        check_invariants(tag, ksp, maps, eig, 0.6, False)
        maps2, eig2 = run_espirit(np.ascontiguousarray(ksp).copy(), **kw)
        check(
            np.allclose(maps, maps2, rtol=0, atol=1e-9)
            and np.allclose(eig, eig2, rtol=0, atol=1e-9),
            f"{tag}: result depends on memory layout",
        )
        # a second, fresh app on the very same object gives the same answer
        maps3, eig3 = run_espirit(ksp, **kw)
        check(
            np.array_equal(maps, maps3) and np.array_equal(eig, eig3),
            f"{tag}: not reproducible",
        )
        n_conv += check_against_reference(
            tag, ksp, maps, eig, 8, 0.05, 3, 0.6, False
        )

    # ---- fully sampled data from smooth maps: recover the true maps
    smooth_cases = [
        (4, (24, 24), np.complex128, 16, 5, False),
        (8, (24, 20), np.complex128, 16, 6, False),
        (6, (21, 25), np.complex64, 15, 5, False),
        (2, (24, 24), np.complex128, 16, 5, False),
        (4, (12, 12, 12), np.complex128, 8, 3, False),
        (5, (32, 32), np.complex128, 20, 6, True),
        (4, (30, 26), np.complex64, 18, 5, True),
    ]
    for nc, img_shape, dtype, cw, kw, support in smooth_cases:
        ksp, truth = smooth_problem(rng, nc, img_shape, dtype, support)
        single = dtype == np.complex64
        tag = f"smooth{nc}x{img_shape}/{np.dtype(dtype).name}"
        maps, eig = run_espirit(
            ksp, calib_width=cw, kernel_width=kw, thresh=0.02, crop=0.9
        )
        check_invariants(tag, ksp, maps, eig, 0.9, single)
        q = 3 if support else 4  # stay inside the object support
        interior = tuple(
            slice(n // 2 - n // (2 * q), n // 2 + n // (2 * q))
            for n in img_shape
        )
        if support:
            zero = np.all(maps == 0, axis=0)
            check(
                0.2 < zero.mean() < 0.9,
                f"{tag}: expected a mixed crop mask, got {zero.mean()}",
            )
        got = np.abs(maps)[(slice(None),) + interior]
        want = truth[(slice(None),) + interior]
        err = np.max(np.abs(got - want))
        check(err < 0.03, f"{tag}: interior magnitudes off by {err}")
        e = np.asarray(eig).reshape(img_shape)[interior]
        check(np.all(e > 0.98), f"{tag}: interior eigenvalue {e.min()}")
        n_conv += check_against_reference(
            tag, ksp, maps, eig, cw, 0.02, kw, 0.9, single
        )

    # ---- default parameters
    ksp, truth = smooth_problem(rng, 8, (32, 32), np.complex128)
    maps, eig = run_espirit(ksp)
    check_invariants("defaults", ksp, maps, eig, 0.95, False)
    err = np.max(np.abs(np.abs(maps)[:, 8:24, 8:24] - truth[:, 8:24, 8:24]))
    check(err < 0.03, f"defaults: interior magnitudes off by {err}")
    # output_eigenvalue=False returns just the maps
    with warnings.catch_warnings():
        warnings.simplefilter("ignore")
        only = mr.app.EspiritCalib(ksp, show_pbar=False).run()
    check(np.array_equal(only, maps), "defaults: maps differ w/o eigenvalue")

    check(n_conv > 2000, f"too few converged voxels compared ({n_conv})")
    return n_conv


# ----------------------------------------------------------------------
# extra: phase reference / crop step and per-voxel normalisation
# ----------------------------------------------------------------------
def output_checks():
    rng = np.random.default_rng(777)
    for dtype in [np.complex128, np.complex64]:
        single = dtype == np.complex64
        ksp, _ = smooth_problem(rng, 5, (22, 26), dtype, support=True)
        kw = dict(calib_width=14, kernel_width=5, thresh=0.03)
        full, eig = run_espirit(ksp, crop=-1.0, **kw)  # nothing cropped
        e = np.asarray(eig).reshape(22, 26)
        check(not np.any(np.all(full == 0, axis=0)), "crop=-1 cropped a voxel")
        nrm = np.sqrt(np.sum(np.abs(full.astype(np.complex128)) ** 2, axis=0))
        check(
            np.max(np.abs(nrm - 1)) < (1e-5 if single else 1e-12),
            f"uncropped maps not unit norm: {np.max(np.abs(nrm - 1))}",
        )
        check(
            np.max(np.abs(full[0].imag)) <= (1e-6 if single else 1e-13),
            "coil 0 has an imaginary part",
        )
        check(np.all(full[0].real >= 0), "coil 0 negative")
        # the phase reference is a pure per-voxel phasor: relative phases
        # and magnitudes between coils agree with the dense eigenvector
        lam, vec, gap = espirit_reference(ksp, 14, 0.03, 5)
        sel = gap < 0.5
        ref = vec * np.exp(-1j * np.angle(vec[0]))
        err = np.max(np.abs(full.astype(np.complex128) - ref)[:, sel])
        check(err < (2e-3 if single else 1e-7), f"phase-referenced maps {err}")
        # crop sweep, including crop levels exactly equal to an eigenvalue
        # (strict inequality: that voxel must be zeroed), ints and bounds
        srt = np.sort(e.ravel())
        levels = [0, 1, 0.5, float(srt[0]), float(srt[len(srt) // 3])]
        levels += [float(srt[-1]), float(srt[-2]), srt[len(srt) // 2]]
        for crop in levels:
            tag = f"crop={crop!r}/{np.dtype(dtype).name}"
            maps, eig2 = run_espirit(ksp, crop=crop, **kw)
            check(np.array_equal(eig, eig2), f"{tag}: eigenvalues changed")
            check_invariants(tag, ksp, maps, eig2, crop, single)
            keep = e > crop
            check(
                np.array_equal(maps[:, keep], full[:, keep]),
                f"{tag}: kept voxels differ from the uncropped maps",
            )
            check(np.all(maps[:, ~keep] == 0), f"{tag}: cropped voxels non-zero")
        # eigenvalue output is optional and does not change the maps
        with warnings.catch_warnings():
            warnings.simplefilter("ignore")
            only = mr.app.EspiritCalib(
                ksp, crop=0.5, show_pbar=False, **kw
            ).run()
        ref_maps, _ = run_espirit(ksp, crop=0.5, **kw)
        check(np.array_equal(only, ref_maps), "output_eigenvalue changes maps")


if __name__ == "__main__":
    n = core_checks()
    output_checks()
    print(f"compared {n} converged voxels with the dense reference")
    if FAILURES:
        print(f"{len(FAILURES)} check(s) FAILED")
        sys.exit(1)
    print("C17 holds on all cases")
    sys.exit(0)
