"""C02 demo for the l1-ball projection (sigpy.thresh.l1_proj, prox.L1Proj) and
the other proximal operators: values against an independent reference,
determinism of repeated calls on the same object, and no modification of
the arrays passed in or captured (byte + stride snapshots, read-only inputs).

Independent reference for the projection: bisection on the soft-threshold
level theta with sum(max(|x| - theta, 0)) = eps (no sorting / cumsum), in
double precision.
Exits 0 iff everything agrees.
"""
import sys

import numpy as np

import sigpy as sp
from sigpy import prox, thresh

rng = np.random.RandomState(2468)
failures = []


def make(shape, dtype):
    dtype = np.dtype(dtype)
    a = rng.standard_normal(shape)
    if dtype.kind == "c":
        a = a + 1j * rng.standard_normal(shape)
    return np.asarray(a).astype(dtype)


def layouts(a):
    yield "C", np.ascontiguousarray(a)
    yield "F", np.asfortranarray(a)
    big = np.zeros(tuple(2 * s for s in a.shape), dtype=a.dtype)
    view = big[tuple(slice(1, None, 2) for _ in a.shape)]
    view[...] = a
    yield "strided", view


def snap(a):
    return (a.tobytes(), a.shape, a.strides, a.dtype)


def ref_l1_proj(eps, x):
    x = np.asarray(x).astype(complex)
    mag = np.abs(x)
    if mag.sum() <= eps:
        return x
    lo, hi = 0.0, float(mag.max())
    for _ in range(200):
        mid = 0.5 * (lo + hi)
        if np.maximum(mag - mid, 0).sum() > eps:
            lo = mid
        else:
            hi = mid
    theta = 0.5 * (lo + hi)
    phase = np.where(mag > 0, x / np.where(mag > 0, mag, 1), 0)
    return np.maximum(mag - theta, 0) * phase


def rel(a, b):
    a, b = np.asarray(a), np.asarray(b)
    if a.shape != b.shape:
        return np.inf
    return np.abs(a - b).max() / max(1.0, np.abs(b).max())


tols = {"complex128": 1e-9, "float64": 1e-9, "complex64": 2e-5,
        "float32": 2e-5}

shapes = [(5,), (1,), (3, 4), (2, 1, 3), (7, 1), (33,)]
for shape in shapes:
    for dt in ["complex128", "complex64", "float64", "float32"]:
        tol = tols[dt]
        base = make(shape, dt)
        specials = {
            "random": base,
            "ties": (np.ones(shape) * (1 - 2 * (np.arange(np.prod(shape))
                                                .reshape(shape) % 2))
                     ).astype(dt),
            "with zeros": np.where(np.abs(base) > 0.7, base, 0).astype(dt),
            "one spike": np.where(
                np.arange(np.prod(shape)).reshape(shape) == 0, 5, 0.01
            ).astype(dt) * base.dtype.type(1),
        }
        for sname, x in specials.items():
            l1 = float(np.abs(x.astype(complex)).sum())
            if l1 == 0:
                continue
            for frac in [0.05, 0.5, 0.999, 1.5, 4.0]:
                eps = frac * l1
                expect = ref_l1_proj(eps, x)
                P = prox.L1Proj(shape, eps)
                for lname, xx in layouts(x):
                    tag = "l1_proj %s %s %s %s eps=%.3g*l1" % (
                        shape, dt, sname, lname, frac)
                    xx.flags.writeable = False
                    before = snap(xx)
                    outs = [
                        thresh.l1_proj(eps, xx),
                        sp.l1_proj(eps, xx),
                        P(0.3, xx),
                        P(7.0, xx),  # alpha is irrelevant for a projection
                        P(0.3, xx),
                    ]
                    if snap(xx) != before:
                        failures.append(tag + ": input modified")
                    for o in outs:
                        if rel(o, expect) > tol:
                            failures.append(
                                tag + ": value (%.2e)" % rel(o, expect))
                            break
                    for o in outs[1:]:
                        if o.dtype != outs[0].dtype or not np.array_equal(
                                o, outs[0]):
                            failures.append(tag + ": repeated calls differ")
                            break
                    n1 = np.abs(outs[0].astype(complex)).sum()
                    if n1 > eps * (1 + 10 * tol) + 10 * tol:
                        failures.append(tag + ": result outside the ball")
                    if frac < 1 and abs(n1 - eps) > 20 * tol * max(1, eps):
                        failures.append(tag + ": result not on the sphere")

# ---- the other Prox objects: determinism and non-mutation, incl. captured
shape = (3, 4)
for dt in ["complex128", "complex64", "float64", "float32"]:
    tol = tols[dt]
    bias = make(shape, dt)
    y = make(shape, dt)
    lower, upper = -0.3, 0.4
    captured = [bias, y]
    for c in captured:
        c.flags.writeable = False
    objs = {
        "L1Reg": (prox.L1Reg(shape, 0.7),
                  lambda a, x: np.maximum(np.abs(x) - 0.7 * a, 0)
                  * np.exp(1j * np.angle(x))),
        "L2Reg": (prox.L2Reg(shape, 0.5, y=y),
                  lambda a, x: (x + 0.5 * a * y) / (1 + 0.5 * a)),
        "L2Reg+proxh": (prox.L2Reg(shape, 0.5, y=y,
                                   proxh=prox.L1Reg(shape, 0.2)), None),
        "L2Proj": (prox.L2Proj(shape, 1.3, y=y),
                   lambda a, x: y + (x - y) * min(
                       1, 1.3 / np.linalg.norm((x - y).ravel()))),
        "LInfProj": (prox.LInfProj(shape, 0.6, bias=bias),
                     lambda a, x: bias + (x - bias) * np.minimum(
                         1, 0.6 / np.maximum(np.abs(x - bias), 1e-300))),
        "Conj(L1Reg)": (prox.Conj(prox.L1Reg(shape, 0.7)),
                        lambda a, x: x * np.minimum(
                            1, 0.7 / np.maximum(np.abs(x), 1e-300))),
        "Conj(L1Proj)": (prox.Conj(prox.L1Proj(shape, 2.0)),
                         lambda a, x: x - a * ref_l1_proj(2.0, x / a)),
        "NoOp": (prox.NoOp(shape), lambda a, x: x),
        "UnitaryTransform": (
            prox.UnitaryTransform(prox.L1Proj(shape, 1.5),
                                  sp.linop.FFT(shape)), None),
    }
    if np.dtype(dt).kind == "f":
        objs["BoxConstraint"] = (prox.BoxConstraint(shape, lower, upper),
                                 lambda a, x: np.clip(x, lower, upper))
    csnap = [snap(c) for c in captured]
    for name, (P, ref) in objs.items():
        x = make(shape, dt)
        for lname, xx in layouts(x):
            tag = "%s %s %s" % (name, dt, lname)
            xx.flags.writeable = False
            before = snap(xx)
            for alpha in [0.25, 2.0]:
                o1 = P(alpha, xx)
                o2 = P(alpha, xx)
                if snap(xx) != before:
                    failures.append(tag + ": input modified")
                if o1.dtype != o2.dtype or not np.array_equal(o1, o2):
                    failures.append(tag + ": repeated calls differ")
                if ref is not None and rel(o1, ref(alpha, xx)) > 5 * tol:
                    failures.append(tag + ": value (%.2e)"
                                    % rel(o1, ref(alpha, xx)))
    # a stack of projections acts blockwise on the vectorised input
    S = prox.Stack([prox.L1Proj((4,), 1.0), prox.L1Proj((2, 3), 0.5),
                    prox.L1Reg((3,), 0.1)])
    v = make((13,), dt)
    v.flags.writeable = False
    before = snap(v)
    out = S(1.0, v)
    expect = np.concatenate([
        ref_l1_proj(1.0, v[:4]),
        ref_l1_proj(0.5, v[4:10]),
        np.maximum(np.abs(v[10:]) - 0.1, 0) * np.exp(1j * np.angle(v[10:])),
    ])
    if rel(out, expect) > tol or snap(v) != before or not np.array_equal(
            out, S(1.0, v)):
        failures.append("Stack %s: value/mutation/determinism" % dt)
    if [snap(c) for c in captured] != csnap:
        failures.append("captured arrays modified (%s)" % dt)

if failures:
    print("FAILED (%d):" % len(failures))
    for f in failures[:40]:
        print("  ", f)
    sys.exit(1)
print("ok")
sys.exit(0)
