"""C20 demo: trapezoid gradient designers meet area, amplitude and slew limits.

Standalone (numpy / sigpy only).  trap_grad, min_trap_grad and spokes_grad are
checked (i) directly against the stated properties, with exactly rounded sums
(math.fsum), and (ii) against an independent closed-form construction of the
expected waveform (np.interp over the corner points of the trapezoid).
Exit status 0 iff every check passes.
"""
import math
import sys
import warnings

import numpy as np

import sigpy.mri.rf as rf

warnings.simplefilter("error")

FAIL = []
NCHECK = [0]
RTOL = 1e-11  # relative slack for amplitude / slew / area comparisons


def check(ok, msg):
    NCHECK[0] += 1
    if not ok:
        FAIL.append(msg)
        if len(FAIL) < 60:
            print("FAIL:", msg)


# --------------------------------------------------------------- references
def ref_shape(nramp, nflat):
    """Unit trapezoid: nramp+1 point ramps (0..1), nflat plateau points."""
    n = 2 * (nramp + 1) + nflat
    t = np.arange(n, dtype=float)
    corners = [0.0, float(nramp), float(nramp + nflat + 1), float(n - 1)]
    return np.interp(t, corners, [0.0, 1.0, 1.0, 0.0])


def ref_trap(area, gmax, dgdt, dt):
    nramp = int(math.ceil(gmax / dgdt / dt))
    if nramp * dt * gmax > area:  # triangle
        nramp = int(math.ceil(math.sqrt(area * dgdt) / dgdt / dt))
        nflat = 0
    else:
        nflat = 2 * int(math.ceil((area - nramp * dt * gmax) / gmax / dt / 2))
    shape = ref_shape(nramp, nflat)
    # the samples of the unit shape add up to nramp + 1 + nflat exactly
    return shape * (area / ((nramp + 1 + nflat) * dt)), nramp


def ref_min_trap(area, gmax, dgdt, dt):
    amp = math.sqrt(dgdt * area / 2)
    nflat = max(math.floor(area / amp / dt), 1)
    capped = area / dt / nflat > gmax
    if capped:
        nflat = math.ceil(area / gmax / dt)
    top = area / dt / nflat
    nramp = int(math.ceil(top / dgdt / dt))
    return ref_shape(nramp, int(nflat)) * top, nramp, capped


def props(t, nramp, area, gmax, dgdt, dt, msg, flat_top):
    t = np.asarray(t)
    check(t.ndim == 2 and t.shape[0] == 1, msg + " shape %s" % (t.shape,))
    check(t.dtype == np.float64, msg + " dtype")
    check(isinstance(nramp, (int, np.integer)) and nramp >= 1,
          msg + " ramppts")
    w = t.ravel()
    check(w[0] == 0 and w[-1] == 0, msg + " end points")
    check(np.all(np.isfinite(w)) and np.all(w >= 0), msg + " finite / sign")
    check(w.max() <= gmax * (1 + RTOL),
          msg + " amplitude %.17g > %.17g" % (w.max(), gmax))
    slew = np.max(np.abs(np.diff(w))) / dt
    check(slew <= dgdt * (1 + RTOL), msg + " slew %.17g > %.17g" % (slew, dgdt))
    check(np.array_equal(w, w[::-1]) or np.allclose(w, w[::-1], rtol=1e-13,
                                                    atol=0),
          msg + " symmetry")
    if flat_top:
        core = w[nramp + 1: w.size - nramp - 1]
        check(core.size >= 1 and np.all(core == core[0]), msg + " flat top")
        check(np.all(w[: nramp + 1] <= core[0])
              and np.all(np.diff(w[: nramp + 2]) >= 0), msg + " ramp monotone")
        got = math.fsum(core) * dt
    else:
        got = math.fsum(w) * dt
    check(abs(got - area) <= 1e-12 * area,
          msg + " area %.17g vs %.17g" % (got, area))


def compare(t, nramp, ref, rnramp, msg):
    w = np.asarray(t).ravel()
    check(nramp == rnramp, msg + " ramppts %s vs %s" % (nramp, rnramp))
    if w.shape != ref.shape:
        check(False, msg + " length %d vs %d" % (w.size, ref.size))
        return
    err = np.max(np.abs(w - ref)) / np.max(ref)
    check(err <= 1e-12, msg + " vs closed form err=%.3e" % err)


def param_sets(rng):
    ps = []
    # the library's own test point, MRI-like units, and tiny / huge blips
    ps += [
        (200 * 4e-6, 2, 18000, 4e-6),
        (1e-6, 4, 15000, 4e-6),
        (1e-3, 4, 15000, 4e-6),
        (1.0, 10, 1e5, 1e-4),
        (1e-6, 0.1, 1e2, 1e-4),
        (0.5, 0.1, 1e2, 1e-4),
        (1e-6, 10, 1e5, 1e-6),
        (1.0, 10.0, 1e5, 5e-5),
        (3e-3, 1, 1e4, 1e-5),
    ]
    # integer-typed and numpy-scalar arguments
    ps += [(1, 10, 100, 1e-4), (1, 2, 1000, 1e-4)]
    ps += [(np.float64(2e-3), np.float64(3.0), np.int64(20000),
            np.float64(4e-6))]
    ps += [(np.float32(2e-3), np.float32(3.0), 20000, 4e-6)]
    # exact triangle / trapezoid boundary: area == ramppts * dt * gmax
    for gmax, dgdt, dt in ((2.0, 1e4, 1e-5), (4.0, 2e4, 4e-6), (0.5, 1e3, 1e-4),
                           (3.0, 17000.0, 7e-6)):
        nr = int(math.ceil(gmax / dgdt / dt))
        a0 = nr * dt * gmax
        for f in (1.0, 1 - 1e-12, 1 + 1e-12, 0.5, 2.0, 2.5):
            if 1e-6 <= a0 * f <= 1:
                ps.append((a0 * f, gmax, dgdt, dt))
    # exact plateau-count boundaries for min_trap_grad
    for k in (1, 2, 3, 10):
        ps.append((k * 2.0 * 1e-5, 2.0, 1e4, 1e-5))
    n = 0
    while n < 150:  # plateau capped by gmax (needs a large area)
        area = 10 ** rng.uniform(-3, 0)
        gmax = 10 ** rng.uniform(-1, 0)
        dgdt = 10 ** rng.uniform(3.5, 5)
        dt = 10 ** rng.uniform(-5, -4)
        if area / gmax / dt > 3e5 or dgdt * area / 2 <= gmax * gmax:
            continue
        ps.append((area, gmax, dgdt, dt))
        n += 1
    n = 0
    while n < 1500:
        area = 10 ** rng.uniform(-6, 0)
        gmax = 10 ** rng.uniform(-1, 1)
        dgdt = 10 ** rng.uniform(2, 5)
        dt = 10 ** rng.uniform(-6, -4)
        if area / gmax / dt > 3e5 or gmax / dgdt / dt > 3e5:
            continue  # keep the waveforms small enough for a quick demo
        ps.append((area, gmax, dgdt, dt))
        n += 1
    return ps


def test_traps(rng):
    regimes = {"tri": 0, "trap": 0, "capped": 0, "free": 0}
    for area, gmax, dgdt, dt in param_sets(rng):
        tag = "(%r, %r, %r, %r)" % (area, gmax, dgdt, dt)
        fa, fg, fs, fd = float(area), float(gmax), float(dgdt), float(dt)
        t, r = rf.trap_grad(area, gmax, dgdt, dt)
        props(t, r, fa, fg, fs, fd, "trap_grad" + tag, False)
        single = isinstance(area, np.float32)
        if not single:
            ref, rr = ref_trap(fa, fg, fs, fd)
            compare(t, r, ref, rr, "trap_grad" + tag)
            regimes["tri" if ref.size == 2 * (rr + 1) else "trap"] += 1
        t2, r2 = rf.trap_grad(area, gmax, dgdt, dt)  # repeatable, fresh array
        check(r2 == r and np.array_equal(t, t2) and t2 is not t,
              "trap_grad repeat" + tag)
        t, r = rf.min_trap_grad(area, gmax, dgdt, dt)
        props(t, r, fa, fg, fs, fd, "min_trap_grad" + tag, True)
        if not single:
            ref, rr, capped = ref_min_trap(fa, fg, fs, fd)
            compare(t, r, ref, rr, "min_trap_grad" + tag)
            regimes["capped" if capped else "free"] += 1
        t2, r2 = rf.min_trap_grad(area, gmax, dgdt, dt)
        check(r2 == r and np.array_equal(t, t2) and t2 is not t,
              "min_trap_grad repeat" + tag)
    check(min(regimes.values()) > 20, "regime coverage %s" % regimes)
    print("regimes:", regimes)
    # zero area: the documented degenerate return value
    for f in (rf.trap_grad, rf.min_trap_grad):
        t, r = f(0, 4, 15000, 4e-6)
        check(r == 0 and np.shape(t) == (1,) and np.all(np.asarray(t) == 0),
              f.__name__ + " zero area")


def test_spokes(rng):
    gam = 4257.0
    cases = []
    for n_spokes in (1, 2, 3, 5, 8):
        k = rng.uniform(-1.0, 1.0, (n_spokes, 2))
        cases.append(("random%d" % n_spokes, k))
    cases.append(("origin only", np.zeros((1, 2))))
    cases.append(("repeated location", np.array([[0.5, -0.5], [0.5, -0.5],
                                                 [0.0, 0.25]])))
    cases.append(("x only", np.array([[1.0, 0.0], [-1.0, 0.0], [0.5, 0.0]])))
    cases.append(("int locations", np.array([[1, 0], [0, -1], [1, 1]])))
    kk = rng.uniform(-1, 1, (8, 4))
    cases.append(("non-contiguous", kk[::2, ::2]))
    ro = rng.uniform(-1, 1, (3, 2))
    ro.setflags(write=False)
    cases.append(("read-only", ro))
    cases.append(("fortran", np.asfortranarray(rng.uniform(-1, 1, (4, 2)))))
    hw = [
        (4, 3.0, 4.0, 15000.0, 4e-6),
        (2, 5.0, 2.0, 18000.0, 4e-6),
        (8, 1.0, 4.0, 20000.0, 1e-5),
        (4, 10.0, 1.0, 5000.0, 1e-5),
    ]
    for name, k in cases:
        for tbw, sl_thick, gmax, dgdtmax, gts in hw:
            msg = "spokes_grad[%s|tbw=%g thk=%g gmax=%g]" % (
                name, tbw, sl_thick, gmax)
            k0 = np.array(k, copy=True)
            g = rf.spokes_grad(k, tbw, sl_thick, gmax, dgdtmax, gts)
            g2 = rf.spokes_grad(k, tbw, sl_thick, gmax, dgdtmax, gts)
            check(np.array_equal(g, g2), msg + " repeat")
            check(np.array_equal(k, k0), msg + " input mutated")
            check(g.ndim == 2 and g.shape[0] == 3 and g.dtype == np.float64,
                  msg + " shape/dtype")
            ns = k.shape[0]
            area = tbw / (sl_thick / 10) / gam
            sub, nr, _ = ref_min_trap(area, gmax, dgdtmax, gts)
            L = sub.size
            check(g.shape[1] > ns * L, msg + " length")
            check(np.all(g[:, 0] == 0) and np.all(g[:, -1] == 0),
                  msg + " end points")
            check(np.max(np.abs(g)) <= gmax * (1 + RTOL), msg + " amplitude")
            slew = np.max(np.abs(np.diff(g, axis=1))) / gts
            check(slew <= dgdtmax * (1 + RTOL), msg + " slew %g" % slew)
            kf = np.asarray(k, dtype=float)
            nxt = np.vstack((kf[1:], np.zeros((1, 2))))
            for ii in range(ns):
                seg = g[:, ii * L: (ii + 1) * L]
                err = np.max(np.abs(seg[2] - (-1) ** ii * sub)) / np.max(sub)
                check(err <= 1e-12, msg + " slice-select lobe %d" % ii)
                for ax in (0, 1):
                    dk = math.fsum(seg[ax]) * gts * gam
                    want = nxt[ii, ax] - kf[ii, ax]
                    check(abs(dk - want) <= 1e-11 * max(1.0, abs(want)),
                          msg + " k step spoke %d axis %d: %g vs %g"
                          % (ii, ax, dk, want))
                    # blips are played at the end of the lobe, one polarity
                    nz = np.nonzero(seg[ax])[0]
                    if want == 0:
                        check(nz.size == 0, msg + " no blip expected")
                    else:
                        check(nz.size > 0 and np.all(
                            np.sign(seg[ax][nz]) == np.sign(want))
                            and seg[ax][-1] == 0, msg + " blip polarity")
            tail = g[:, ns * L:]
            check(np.all(tail[:2] == 0), msg + " in-plane silent during refocus")
            ref_area = math.fsum(tail[2]) * gts
            want = -math.fsum(sub) * gts / 2
            check(abs(ref_area - want) <= 1e-11 * abs(want),
                  msg + " refocusing area %g vs %g" % (ref_area, want))
            check(np.all(tail[2] <= 0), msg + " refocusing polarity")


def main():
    rng = np.random.default_rng(2020)
    test_traps(rng)
    test_spokes(rng)
    print("checks: %d, failures: %d" % (NCHECK[0], len(FAIL)))
    return 1 if FAIL else 0


if __name__ == "__main__":
    sys.exit(main())
