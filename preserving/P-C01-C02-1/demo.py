"""C01 demo for the convolution adjoints (sigpy/conv.py, Convolve* linops).

Independent reference: a brute-force tap-by-tap N-D convolution (no
scipy.signal), from which the dense matrix of the forward operator is built;
the adjoint reference is the conjugate transpose of that dense matrix.
Exits 0 iff everything agrees.
"""
import itertools
import sys

import numpy as np

import sigpy as sp
from sigpy import linop

rng = np.random.RandomState(1234)
failures = []


def crandn(shape, dtype=np.complex128):
    a = rng.standard_normal(shape) + 1j * rng.standard_normal(shape)
    return a.astype(dtype)


def ref_full(d, f):
    m, n = d.shape, f.shape
    out = np.zeros([a + b - 1 for a, b in zip(m, n)], dtype=complex)
    for k in itertools.product(*[range(a) for a in n]):
        slc = tuple(slice(kk, kk + mm) for kk, mm in zip(k, m))
        out[slc] += f[k] * d
    return out


def ref_conv(data, filt, mode, strides, multi_channel):
    D = filt.ndim - 2 * multi_channel
    m, n = data.shape[-D:], filt.shape[-D:]
    s = (1,) * D if strides is None else tuple(strides)
    b = data.shape[: data.ndim - D - multi_channel]
    ci = filt.shape[-D - 1] if multi_channel else 1
    co = filt.shape[-D - 2] if multi_channel else 1
    d = data.reshape((-1, ci) + m)
    f = filt.reshape((co, ci) + n)
    outs = []
    for k in range(d.shape[0]):
        row = []
        for j in range(co):
            acc = 0
            for i in range(ci):
                full = ref_full(d[k, i], f[j, i])
                if mode == "valid":
                    slc = tuple(
                        slice(min(a, c) - 1, max(a, c))
                        for a, c in zip(m, n)
                    )
                    full = full[slc]
                acc = acc + full[tuple(slice(None, None, ss) for ss in s)]
            row.append(acc)
        outs.append(row)
    out = np.array(outs)
    p = out.shape[2:]
    return out.reshape(b + ((co,) if multi_channel else ()) + p)


def dense(fun, ishape, oshape):
    n = int(np.prod(ishape))
    M = np.zeros((int(np.prod(oshape)), n), dtype=complex)
    for c in range(n):
        e = np.zeros(n, dtype=complex)
        e[c] = 1
        M[:, c] = fun(e.reshape(ishape)).ravel()
    return M


def close(a, b, tol):
    a = np.asarray(a)
    b = np.asarray(b)
    if a.shape != b.shape:
        return False
    scale = max(1.0, np.abs(b).max()) if b.size else 1.0
    return np.abs(a - b).max() <= tol * scale


def check(name, A, M, dtype, tol):
    """A must act like dense M, A.H like M^H, A.H.H like M."""
    if list(A.H.ishape) != list(A.oshape) or list(A.H.oshape) != list(
        A.ishape
    ):
        failures.append(name + ": adjoint shapes not swapped")
        return
    for trial in range(2):
        x = crandn(A.ishape, dtype)
        y = crandn(A.oshape, dtype)
        x0, y0 = x.copy(), y.copy()
        x.flags.writeable = False
        y.flags.writeable = False
        Ax = A(x)
        AHy = A.H(y)
        AHHx = A.H.H(x)
        if not close(Ax.ravel(), M @ x0.ravel(), tol):
            failures.append(name + ": forward differs from reference")
        if not close(AHy.ravel(), M.conj().T @ y0.ravel(), tol):
            failures.append(name + ": adjoint differs from M^H")
        if not close(AHHx, Ax, tol):
            failures.append(name + ": A.H.H differs from A")
        lhs = np.vdot(y0, Ax)
        rhs = np.vdot(AHy, x0)
        if abs(lhs - rhs) > tol * max(1.0, abs(lhs)):
            failures.append(name + ": <Ax,y> != <x,A^H y>")
        # repeated application, same object
        if not np.array_equal(A.H(y), AHy) or not np.array_equal(A(x), Ax):
            failures.append(name + ": not deterministic")
        if not (np.array_equal(x, x0) and np.array_equal(y, y0)):
            failures.append(name + ": input mutated")
        if Ax.dtype != dtype or AHy.dtype != dtype:
            failures.append(name + ": dtype changed")
    # C-linearity of the adjoint
    a = 0.7 - 1.3j
    y1, y2 = crandn(A.oshape, dtype), crandn(A.oshape, dtype)
    if not close(A.H(a * y1 + y2), a * A.H(y1) + A.H(y2), tol):
        failures.append(name + ": adjoint not C-linear")


configs = []
# (data_shape, filt_shape, mode, strides, multi_channel)
for mode in ["full", "valid"]:
    configs += [
        ((5,), (3,), mode, None, False),
        ((3,), (5,), mode, None, False),
        ((1,), (1,), mode, None, False),
        ((7,), (2,), mode, (3,), False),
        ((2, 6), (3,), mode, (2,), False),
        ((4, 5), (3, 2), mode, None, False),
        ((4, 5), (3, 2), mode, (2, 3), False),
        ((3, 2), (4, 5), mode, (2, 1), False),
        ((2, 1, 4), (1, 3), mode, (1, 2), False),
        ((3, 3, 4), (2, 2, 3), mode, (2, 1, 2), False),
        # multi channel: data [..., c_i, m], filt [c_o, c_i, n]
        ((3, 5), (2, 3, 3), mode, None, True),
        ((2, 3, 5), (2, 3, 2), mode, (2,), True),
        ((1, 5), (1, 1, 2), mode, None, True),
        ((2, 3, 4), (3, 2, 2, 3), mode, (1, 2), True),
        ((2, 2, 2, 3), (1, 2, 3, 4), mode, (2, 2), True),
        ((4, 1, 6), (1, 4, 1, 3), mode, (1, 3), True),
    ]

for dshape, fshape, mode, strides, mc in configs:
    for dtype, tol in [(np.complex128, 1e-11), (np.complex64, 2e-5)]:
        tag = "%s %s %s s=%s mc=%s %s" % (
            dshape,
            fshape,
            mode,
            strides,
            mc,
            np.dtype(dtype).name,
        )
        filt = crandn(fshape, dtype)
        data = crandn(dshape, dtype)
        filt0, data0 = filt.copy(), data.copy()
        filt.flags.writeable = False
        data.flags.writeable = False

        # operator in the data argument
        A = linop.ConvolveData(
            dshape, filt, mode=mode, strides=strides, multi_channel=mc
        )
        M = dense(
            lambda d: ref_conv(d, filt0, mode, strides, mc), dshape, A.oshape
        )
        check("ConvolveData " + tag, A, M, dtype, tol)
        check("ConvolveDataAdjoint " + tag, A.H, M.conj().T, dtype, tol)
        B = linop.ConvolveDataAdjoint(
            dshape, filt, mode=mode, strides=strides, multi_channel=mc
        )
        check("ConvolveDataAdjoint(direct) " + tag, B, M.conj().T, dtype, tol)

        # operator in the filter argument
        A = linop.ConvolveFilter(
            fshape, data, mode=mode, strides=strides, multi_channel=mc
        )
        M = dense(
            lambda f: ref_conv(data0, f, mode, strides, mc), fshape, A.oshape
        )
        check("ConvolveFilter " + tag, A, M, dtype, tol)
        B = linop.ConvolveFilterAdjoint(
            fshape, data, mode=mode, strides=strides, multi_channel=mc
        )
        check(
            "ConvolveFilterAdjoint(direct) " + tag, B, M.conj().T, dtype, tol
        )
        if not (
            np.array_equal(filt, filt0) and np.array_equal(data, data0)
        ):
            failures.append("captured array mutated: " + tag)

# function level: real inputs and non-contiguous inputs
for mode in ["full", "valid"]:
    big = rng.standard_normal((2, 3, 12))
    out_nc = None
    data = rng.standard_normal((2, 3, 6))
    filt = rng.standard_normal((2, 3, 3))
    M = dense(
        lambda d: ref_conv(d, filt, mode, (2,), True), data.shape,
        ref_conv(data, filt, mode, (2,), True).shape,
    )
    oshape = ref_conv(data, filt, mode, (2,), True).shape
    y_big = rng.standard_normal(oshape[:-1] + (2 * oshape[-1],))
    y = y_big[..., ::2]  # non-contiguous, real
    y0 = y.copy()
    got = sp.convolve_data_adjoint(
        y, filt, data.shape, mode=mode, strides=(2,), multi_channel=True
    )
    if not close(got.ravel(), M.T @ y0.ravel(), 1e-11):
        failures.append("convolve_data_adjoint real/non-contiguous " + mode)
    if got.dtype != np.float64 or not np.array_equal(y, y0):
        failures.append("convolve_data_adjoint real dtype/mutation " + mode)
    Mf = dense(
        lambda f: ref_conv(data, f, mode, (2,), True), filt.shape, oshape
    )
    got = sp.convolve_filter_adjoint(
        y, data, filt.shape, mode=mode, strides=(2,), multi_channel=True
    )
    if not close(got.ravel(), Mf.T @ y0.ravel(), 1e-11):
        failures.append("convolve_filter_adjoint real/non-contiguous " + mode)

# expression tree containing a convolution
filt = crandn((2, 2, 3))
A = linop.ConvolveData((2, 5), filt, mode="full", strides=(2,),
                       multi_channel=True)
T = (2 - 1j) * A.H * A + linop.Identity(A.ishape)
x, y = crandn(T.ishape), crandn(T.oshape)
if abs(np.vdot(y, T(x)) - np.vdot(T.H(y), x)) > 1e-10 * abs(np.vdot(y, T(x))):
    failures.append("expression tree adjoint")

if failures:
    print("FAILED (%d):" % len(failures))
    for f in failures[:40]:
        print("  ", f)
    sys.exit(1)
print("ok")
sys.exit(0)
