"""C01 demo: adjoint, adjoint-of-adjoint and cached .H/.N over the whole
operator zoo (sigpy.linop, sigpy.mri.linop, sigpy.mri.rf.linop, trees).

Independent reference: the dense matrix M of the forward operator is measured
column by column (and, where an explicit numpy formula exists, M is also
compared with that formula).  Then, for several orders in which .H / .N are
taken and cached ("histories"):
    dense(A.H) == M^H, dense(A.H.H) == M, dense(A.H.H.H) == M^H,
    dense(A.N) == M^H M, shapes swapped, vdot identity on random complex data,
    repeated application gives equal output, inputs are not modified.
Exits 0 iff everything agrees.
"""
import sys
import warnings

import numpy as np

import sigpy as sp
import sigpy.mri.linop as mlinop
import sigpy.mri.rf.linop as rflinop
from sigpy import linop

warnings.simplefilter("ignore")
rng = np.random.RandomState(77)
failures = []


def crandn(shape, dtype=np.complex128):
    a = rng.standard_normal(shape) + 1j * rng.standard_normal(shape)
    return a.astype(dtype)


def dense(A):
    n = int(np.prod(A.ishape))
    M = np.zeros((int(np.prod(A.oshape)), n), dtype=complex)
    for c in range(n):
        e = np.zeros(n, dtype=complex)
        e[c] = 1
        M[:, c] = A(e.reshape(A.ishape)).ravel()
    return M


def close(a, b, tol):
    a, b = np.asarray(a), np.asarray(b)
    if a.shape != b.shape:
        return False
    return np.abs(a - b).max() <= tol * max(1.0, np.abs(b).max())


def cfft(x, axes, center, inverse=False):
    f = np.fft.ifftn if inverse else np.fft.fftn
    if center:
        x = np.fft.ifftshift(x, axes=axes)
    x = f(x, axes=axes, norm="ortho")
    if center:
        x = np.fft.fftshift(x, axes=axes)
    return x


cases = []  # (name, make, explicit reference or None, tolerance)


def case(name, make, ref=None, tol=1e-10, real_ok=True):
    # real_ok=False: the library rejects a real input for this operator
    # (real data with a complex convolution kernel) - not part of the domain.
    cases.append((name, make, ref, tol, real_ok))


# ---------------------------------------------------------------- basic
case("Identity", lambda: linop.Identity([3, 1, 2]), lambda x: x)
case("Reshape", lambda: linop.Reshape([6, 1], [2, 3]),
     lambda x: x.reshape(6, 1))
case("Transpose None", lambda: linop.Transpose([2, 3, 4]),
     lambda x: x.transpose())
case("Transpose neg", lambda: linop.Transpose([2, 3, 4], axes=(-1, 0, -2)),
     lambda x: x.transpose(2, 0, 1))
for center in [True, False]:
    for shape, axes in [([5], None), ([4, 3], (-1,)), ([3, 1, 4], (0, 2)),
                        ([2, 5], (-2, -1))]:
        ax = tuple(range(len(shape))) if axes is None else axes
        case("FFT %s %s %s" % (shape, axes, center),
             lambda s=shape, a=axes, c=center: linop.FFT(s, axes=a, center=c),
             lambda x, a=ax, c=center: cfft(x, a, c))
        case("IFFT %s %s %s" % (shape, axes, center),
             lambda s=shape, a=axes, c=center: linop.IFFT(s, axes=a,
                                                          center=c),
             lambda x, a=ax, c=center: cfft(x, a, c, inverse=True))

mat = crandn((2, 1, 4, 3))
case("MatMul bcast", lambda: linop.MatMul([1, 5, 3, 2], mat),
     lambda x: mat @ x)
case("MatMul adjoint flag",
     lambda: linop.MatMul([2, 5, 4, 2], mat, adjoint=True),
     lambda x: np.conj(mat).swapaxes(-1, -2) @ x)
rmat = crandn((3, 3, 2))
case("RightMatMul bcast", lambda: linop.RightMatMul([1, 4, 3], rmat),
     lambda x: x @ rmat)
case("RightMatMul 2d", lambda: linop.RightMatMul([4, 3], rmat[0]),
     lambda x: x @ rmat[0])
mult = crandn((3, 1, 4))
case("Multiply bcast", lambda: linop.Multiply([2, 1, 5, 1], mult),
     lambda x: x * mult)
case("Multiply bcast 2", lambda: linop.Multiply([1, 4], mult[:, :, 0]),
     lambda x: x * mult[:, :, 0])
case("Multiply conj", lambda: linop.Multiply([3, 5, 4], mult, conj=True),
     lambda x: x * np.conj(mult))
case("Multiply scalar", lambda: linop.Multiply([3, 2], 2 - 3j),
     lambda x: x * (2 - 3j))
case("Multiply one", lambda: linop.Multiply([3, 2], 1), lambda x: x)

# ---------------------------------------------------------------- resampling
case("Resize pad", lambda: linop.Resize([5, 4], [2, 3]))
case("Resize crop/pad", lambda: linop.Resize([2, 6], [5, 3]))
case("Resize shifts",
     lambda: linop.Resize([6, 5], [3, 4], ishift=[1, 0], oshift=[2, 1]))
case("Flip", lambda: linop.Flip([3, 4, 2], axes=(0, -1)),
     lambda x: x[::-1, :, ::-1])
case("Flip all", lambda: linop.Flip([3, 1, 2]), lambda x: x[::-1, ::-1, ::-1])
case("Downsample", lambda: linop.Downsample([7, 5], (3, 2), shift=(1, 0)),
     lambda x: x[1::3, 0::2])
case("Downsample noshift", lambda: linop.Downsample([7, 1], (2, 1)),
     lambda x: x[::2, ::1])
case("Upsample", lambda: linop.Upsample([7, 5], (3, 2), shift=(2, 1)))
case("Circshift", lambda: linop.Circshift([5, 4], (2, -1)),
     lambda x: np.roll(np.roll(x, 2, 0), -1, 1))
case("Circshift axes", lambda: linop.Circshift([3, 5, 4], (7,), axes=(-2,)),
     lambda x: np.roll(x, 7, axis=1))
case("Sum", lambda: linop.Sum([2, 3, 4], (0, -1)), lambda x: x.sum((0, 2)))
case("Sum none", lambda: linop.Sum([2, 3], ()), lambda x: x)
case("Tile", lambda: linop.Tile([2, 3, 4], (1, -1)),
     lambda x: np.broadcast_to(x.reshape(2, 1, 1), (2, 3, 4)))
case("Slice", lambda: linop.Slice([5, 6], (slice(1, 4), slice(None, None, 2))),
     lambda x: x[1:4, ::2])
case("Embed", lambda: linop.Embed([5, 6], (slice(0, 5, 3), slice(2, 3))))
case("FiniteDifference", lambda: linop.FiniteDifference([4, 3]),
     lambda x: np.stack([x - np.roll(x, 1, 0), x - np.roll(x, 1, 1)]))
case("FiniteDifference axes", lambda: linop.FiniteDifference([4, 3, 1],
                                                             axes=(-3,)),
     lambda x: (x - np.roll(x, 1, 0))[None])

# ---------------------------------------------------------------- blocks
case("ArrayToBlocks overlap", lambda: linop.ArrayToBlocks([2, 7], [3], [2]))
case("ArrayToBlocks 2d", lambda: linop.ArrayToBlocks([5, 6], [2, 3], [2, 1]))
case("ArrayToBlocks gaps", lambda: linop.ArrayToBlocks([9], [2], [3]))
case("BlocksToArray 3d",
     lambda: linop.BlocksToArray([3, 4, 5], [2, 2, 3], [1, 2, 1]))

# ---------------------------------------------------------------- wavelet
case("Wavelet db4", lambda: linop.Wavelet([9, 6]))
case("Wavelet haar axes", lambda: linop.Wavelet([2, 7], axes=(-1,),
                                               wave_name="haar", level=2))
case("InverseWavelet", lambda: linop.InverseWavelet([5, 8], wave_name="db2"))

# ---------------------------------------------------------------- interp
coord1 = np.array([[-3.7], [-0.5], [0.0], [2.2], [6.4], [-9.1]])
coord2 = rng.uniform(-6, 6, (2, 4, 2))
coord3 = rng.uniform(-4, 4, (5, 3))
for kern, width, param in [("spline", 2, 1), ("spline", 3, 2),
                           ("kaiser_bessel", 3.5, 5.2), ("spline", 1, 0)]:
    case("Interpolate 1d %s" % kern,
         lambda k=kern, w=width, p=param: linop.Interpolate(
             [2, 5], coord1, kernel=k, width=w, param=p))
    case("Interpolate 2d %s" % kern,
         lambda k=kern, w=width, p=param: linop.Interpolate(
             [6, 5], coord2, kernel=k, width=w, param=p))
    case("Gridding 3d %s" % kern,
         lambda k=kern, w=width, p=param: linop.Gridding(
             [2, 4, 3, 5], coord3, kernel=k, width=w, param=p))
case("Interpolate 2d tuple width",
     lambda: linop.Interpolate([6, 5], coord2, kernel="kaiser_bessel",
                               width=(2.5, 4), param=(3.0, 6.0)))

# ---------------------------------------------------------------- nufft
ncoord1 = rng.uniform(-4, 4, (7, 1))
ncoord2 = rng.uniform(-3.5, 3.5, (3, 4, 2))
case("NUFFT 1d", lambda: linop.NUFFT([2, 8], ncoord1), tol=1e-9)
case("NUFFT 2d odd", lambda: linop.NUFFT([5, 6], ncoord2, oversamp=1.5,
                                        width=3), tol=1e-9)
case("NUFFTAdjoint 2d", lambda: linop.NUFFTAdjoint([2, 4, 5], ncoord2),
     tol=1e-9)

# ---------------------------------------------------------------- conv
filt = crandn((2, 3, 2, 2))
cdata = crandn((2, 4, 5))
cfilt1 = crandn((3,))
case("ConvolveData valid mc",
     lambda: linop.ConvolveData([2, 3, 4, 5], filt, mode="valid",
                                strides=(1, 2), multi_channel=True),
     real_ok=False)
case("ConvolveFilter full",
     lambda: linop.ConvolveFilter([3, 2], cdata, mode="full",
                                  strides=(2, 1)))
case("ConvolveDataAdjoint",
     lambda: linop.ConvolveDataAdjoint([6], cfilt1, strides=(2,)),
     real_ok=False)
case("BlocksToArray gaps", lambda: linop.BlocksToArray([9], [2], [3]))

# ---------------------------------------------------------------- trees
A0 = lambda: linop.MatMul([3, 2], mat[0, 0][:, :3])  # noqa: E731
case("scalar * A", lambda: (1 - 2j) * A0())
case("A * scalar", lambda: A0() * (0.5j))
case("-A", lambda: -A0())
case("A - B", lambda: A0() - linop.MatMul([3, 2], 2j * mat[1, 0]))
case("Conj(A)", lambda: linop.Conj(A0()))
case("Conj(FFT) * Resize + ...",
     lambda: linop.Conj(linop.FFT([6], center=False))
     * linop.Resize([6], [4]) + 2j * linop.Resize([6], [4], oshift=[2]))
case("Compose deep",
     lambda: linop.Sum([2, 5, 3], (1,)) * linop.Multiply([1, 5, 3], mult[:2, :, :3])
     * linop.Reshape([1, 5, 3], [5, 3]) * linop.FFT([5, 3], axes=(0,)))
case("Hstack/Vstack/Diag tree",
     lambda: linop.Vstack([
         linop.Hstack([A0(), 2j * A0()], axis=0),
         linop.Diag([linop.Conj(A0()), A0()], iaxis=0, oaxis=0).H
         * linop.Diag([A0(), A0().H.H], iaxis=0, oaxis=0)
         * linop.Circshift([6, 2], (1,), axes=(0,)),
     ], axis=None))
case("A.H as leaf", lambda: linop.Hstack([A0().H, linop.Downsample(
    [6, 2], (2, 1), shift=(1, 0)).H.H], axis=-2))
case("A.N as leaf", lambda: A0().N + linop.Identity([3, 2]))

# ---------------------------------------------------------------- mri
mps = crandn((3, 4, 5))
weights = rng.uniform(0.5, 2, (3, 4, 5))
nc_weights = rng.uniform(1, 2, 6)
mps_ker = crandn((2, 2, 3))
case("Sense cartesian", lambda: mlinop.Sense(mps))
case("Sense weights+batch", lambda: mlinop.Sense(mps, weights=weights[0],
                                                 coil_batch_size=2))
scoord = rng.uniform(-2, 2, (6, 2))
case("Sense noncart", lambda: mlinop.Sense(mps, coord=scoord,
                                           weights=nc_weights), tol=1e-9)
case("ConvSense", lambda: mlinop.ConvSense([3, 4], mps_ker), real_ok=False)
case("ConvSense coord",
     lambda: mlinop.ConvSense([5, 8], mps_ker, coord=scoord,
                              weights=nc_weights, grd_shape=[4, 6]),
     tol=1e-9, real_ok=False)
case("ConvImage", lambda: mlinop.ConvImage([2, 2, 3], mps[0, :3, :4]))
sens = crandn((2, 3, 3))
pcoord = rng.uniform(-1, 1, (5, 2))
pmat = rflinop.PtxSpatialExplicit(sens, pcoord, 4e-6, (3, 3), ret_array=True)
case("PtxSpatialExplicit",
     lambda: rflinop.PtxSpatialExplicit(sens, pcoord, 4e-6, (3, 3)),
     lambda x: (pmat @ x.reshape(-1, 1)).reshape(3, 3))


def check_history(name, make, M, tol, order, real_ok):
    """Take .H / .N in a given order on a fresh operator, then compare."""
    A = make()
    MH = M.conj().T
    for step in order:
        if step == "H":
            A.H
        elif step == "HH":
            A.H.H
        elif step == "N":
            A.N
        elif step == "HN":
            A.H.N
        elif step == "apply":
            A(crandn(A.ishape))
            A.H(crandn(A.oshape))
    tag = "%s [history %s]" % (name, "-".join(order))
    B = A.H
    if list(B.ishape) != list(A.oshape) or list(B.oshape) != list(A.ishape):
        failures.append(tag + ": adjoint shapes not swapped")
        return
    C, D = B.H, B.H.H
    if list(C.ishape) != list(A.ishape) or list(C.oshape) != list(A.oshape):
        failures.append(tag + ": A.H.H shapes differ from A")
        return
    if not close(dense(A), M, tol):
        failures.append(tag + ": A changed after taking adjoints")
    if not close(dense(B), MH, tol):
        failures.append(tag + ": dense(A.H) != M^H")
    if not close(dense(C), M, tol):
        failures.append(tag + ": dense(A.H.H) != M")
    if not close(dense(D), MH, tol):
        failures.append(tag + ": dense(A.H.H.H) != M^H")
    ntol = 100 * tol * max(1.0, np.abs(M).max())
    if not close(dense(A.N), MH @ M, ntol):
        failures.append(tag + ": dense(A.N) != M^H M")
    if not close(dense(B.N), M @ MH, ntol):
        failures.append(tag + ": dense(A.H.N) != M M^H")
    if not close(dense(C.N), MH @ M, ntol):
        failures.append(tag + ": dense(A.H.H.N) != M^H M")

    x, y = crandn(A.ishape), crandn(A.oshape)
    x0, y0 = x.copy(), y.copy()
    x.flags.writeable = False
    y.flags.writeable = False
    Ax, By, Cx = A(x), B(y), C(x)
    lhs, rhs = np.vdot(y0, Ax), np.vdot(By, x0)
    if abs(lhs - rhs) > tol * max(1.0, abs(lhs), np.abs(M).max()):
        failures.append(tag + ": <Ax,y> != <x,A^H y>")
    if not close(Cx, Ax, tol):
        failures.append(tag + ": A.H.H(x) != A(x)")
    if not (np.array_equal(A(x), Ax) and np.array_equal(B(y), By)
            and np.array_equal(C(x), Cx)):
        failures.append(tag + ": repeated application differs")
    if not (np.array_equal(x, x0) and np.array_equal(y, y0)):
        failures.append(tag + ": input mutated")
    # single precision, and real input, through the cached adjoints
    xs, ys = x0.astype(np.complex64), y0.astype(np.complex64)
    lhs, rhs = np.vdot(ys, A(xs)), np.vdot(B(ys), xs)
    if abs(lhs - rhs) > 2e-4 * max(1.0, abs(lhs), np.abs(M).max()):
        failures.append(tag + ": complex64 vdot identity")
    xr = x0.real.copy()
    if real_ok and not close(C(xr).ravel(), M @ xr.ravel(), 1e-4):
        failures.append(tag + ": real input through A.H.H")


histories = [
    [],
    ["H"],
    ["HH", "N"],
    ["N", "H", "apply"],
    ["apply", "HN", "HH"],
]

for name, make, ref, tol, real_ok in cases:
    try:
        A = make()
        M = dense(A)
        # the measured matrix must describe A on arbitrary complex input
        x = crandn(A.ishape)
        if not close(A(x).ravel(), M @ x.ravel(), tol):
            failures.append(name + ": not C-linear")
        if ref is not None:
            Mref = np.zeros_like(M)
            for c in range(M.shape[1]):
                e = np.zeros(M.shape[1], dtype=complex)
                e[c] = 1
                Mref[:, c] = np.asarray(ref(e.reshape(A.ishape))).ravel()
            if not close(M, Mref, tol):
                failures.append(name + ": differs from explicit reference")
        for order in histories:
            check_history(name, make, M, tol, order, real_ok)
    except Exception as e:
        failures.append("%s: raised %r" % (name, e))

if failures:
    print("FAILED (%d):" % len(failures))
    for f in failures[:60]:
        print("  ", f)
    sys.exit(1)
print("ok (%d operator cases x %d histories)" % (len(cases), len(histories)))
sys.exit(0)
