"""C05 demo: sigpy.fft / sigpy.ifft are the centred unitary DFT and mutually
inverse.  Independent reference: explicit DFT matrices applied axis by axis
with np.tensordot, and an index-by-index centre-aligned pad/crop.

Also checks util.resize (the centre-aligned zero-pad/crop) exhaustively on small
shapes.  Exits 0 iff every check passes.
"""
import itertools
import sys
import warnings

import numpy as np

import sigpy as sp

warnings.simplefilter("ignore")
rng = np.random.default_rng(2024)
failures = []
nchecks = 0


def dft_matrix(n, center, norm, inverse):
    c = n // 2 if center else 0
    k = np.arange(n) - c
    sign = 2j if inverse else -2j
    m = np.exp(sign * np.pi * np.outer(k, k) / n)
    if norm == "ortho":
        m = m / np.sqrt(n)
    elif inverse:
        m = m / n
    return m


def ref_resize_axis(x, axis, o):
    """out[j] = in[j - o//2 + i//2] when that index exists, else 0."""
    i = x.shape[axis]
    x = np.moveaxis(x, axis, 0)
    out = np.zeros((o,) + x.shape[1:], dtype=x.dtype)
    for j in range(o):
        src = j - o // 2 + i // 2
        if 0 <= src < i:
            out[j] = x[src]
    return np.moveaxis(out, 0, axis)


def ref_transform(x, oshape, axes, center, norm, inverse):
    x = np.asarray(x).astype(np.complex128)
    nd = x.ndim
    if oshape is not None:
        for a in range(nd):
            x = ref_resize_axis(x, a, oshape[a])
    if axes is None:
        axes = range(nd)
    for a in sorted(set(int(a) % nd for a in axes)):
        m = dft_matrix(x.shape[a], center, norm, inverse)
        x = np.moveaxis(np.tensordot(m, x, axes=([1], [a])), 0, a)
    return x


def relerr(a, b):
    a = np.asarray(a, dtype=np.complex128)
    b = np.asarray(b, dtype=np.complex128)
    den = np.linalg.norm(b.ravel())
    return np.linalg.norm((a - b).ravel()) / (den if den > 0 else 1.0)


def check(cond, msg):
    global nchecks
    nchecks += 1
    if not cond:
        failures.append(msg)


def rnd(shape, dtype):
    if np.issubdtype(dtype, np.complexfloating):
        return (rng.standard_normal(shape)
                + 1j * rng.standard_normal(shape)).astype(dtype)
    if np.issubdtype(dtype, np.integer):
        return rng.integers(-9, 9, shape).astype(dtype)
    return rng.standard_normal(shape).astype(dtype)


def expected_dtype(dtype):
    return dtype if np.issubdtype(dtype, np.complexfloating) else np.complex64


def tol_for(dtype):
    return 1e-11 if expected_dtype(dtype) == np.complex128 else 2e-5


def axes_sets(nd):
    sets = [None, (), range(-nd, 0)]
    for r in range(1, nd + 1):
        for c in itertools.combinations(range(nd), r):
            sets.append(tuple(c))
            sets.append([a - nd for a in c])
            if r > 1:
                # mixed sign, unsorted
                sets.append(tuple(a - nd if i % 2 else a
                                  for i, a in enumerate(reversed(c))))
    return sets


shapes = [(1,), (2,), (3,), (8,), (9,), (1, 1), (1, 5), (4, 3), (5, 6),
          (3, 1, 4), (2, 5, 3), (4, 4, 4), (2, 3, 1, 5), (3, 2, 4, 3)]
dtypes = [np.complex64, np.complex128, np.float32, np.float64, np.int32]

for shape in shapes:
    nd = len(shape)
    for dtype in dtypes:
        x = rnd(shape, dtype)
        # what the library transforms for real input: a complex64 cast
        xc = x if np.issubdtype(dtype, np.complexfloating) \
            else x.astype(np.complex64)
        x.setflags(write=False)
        keep = x.copy()
        tol = tol_for(dtype)
        for axes in axes_sets(nd):
            for center in (True, False):
                for norm in ("ortho", None):
                    oshapes = [None]
                    if center:
                        oshapes += [
                            tuple(s + 1 + (i % 2) for i, s in enumerate(shape)),
                            tuple(max(1, s - 1 - (i % 2))
                                  for i, s in enumerate(shape)),
                            tuple(s + 3 if i % 2 else max(1, s - 2)
                                  for i, s in enumerate(shape)),
                            tuple(shape),
                        ]
                    for osh in oshapes:
                        for inverse, fn in ((False, sp.fft), (True, sp.ifft)):
                            tag = "%s shape=%s dtype=%s axes=%r center=%s " \
                                  "norm=%s oshape=%s" % (
                                      fn.__name__, shape, np.dtype(dtype).name,
                                      axes, center, norm, osh)
                            y = fn(x, oshape=osh, axes=axes, center=center,
                                   norm=norm)
                            ref = ref_transform(xc, osh, axes, center, norm,
                                                inverse)
                            check(y.shape == ref.shape, "shape " + tag)
                            check(y.dtype == expected_dtype(dtype),
                                  "dtype %s " % y.dtype + tag)
                            if y.shape == ref.shape:
                                e = relerr(y, ref)
                                check(e < tol, "value err=%.2e " % e + tag)
                            # repeated call gives the same answer
                            y2 = fn(x, oshape=osh, axes=axes, center=center,
                                    norm=norm)
                            check(np.array_equal(y, y2), "repeat " + tag)
                    if norm == "ortho":
                        # unitary and mutually inverse
                        y = sp.fft(x, axes=axes, center=center)
                        back = sp.ifft(y, axes=axes, center=center)
                        tag = "shape=%s dtype=%s axes=%r center=%s" % (
                            shape, np.dtype(dtype).name, axes, center)
                        check(relerr(back, xc) < tol, "roundtrip " + tag)
                        back = sp.fft(sp.ifft(x, axes=axes, center=center),
                                      axes=axes, center=center)
                        check(relerr(back, xc) < tol, "roundtrip2 " + tag)
                        nx = np.linalg.norm(xc.astype(np.complex128).ravel())
                        ny = np.linalg.norm(y.astype(np.complex128).ravel())
                        check(abs(nx - ny) <= tol * max(nx, 1e-30),
                              "norm " + tag)
        check(np.array_equal(x, keep), "input mutated shape=%s" % (shape,))

# non-contiguous, read-only views and Fortran order
base = rnd((7, 6, 5), np.complex128)
views = {
    "transposed": base.transpose(2, 0, 1),
    "strided": base[::2, 1::2, ::-1],
    "fortran": np.asfortranarray(base),
    "broadcast": np.broadcast_to(base[:1, :, :1], (3, 6, 4)),
}
for name, v in views.items():
    v = v.view()
    v.setflags(write=False)
    for axes in (None, (0,), (-1, 1), (2, 0), ()):
        for osh in (None, tuple(s + 2 for s in v.shape),
                    tuple(max(1, s - 2) for s in v.shape)):
            for inverse, fn in ((False, sp.fft), (True, sp.ifft)):
                y = fn(v, oshape=osh, axes=axes)
                ref = ref_transform(v, osh, axes, True, "ortho", inverse)
                e = relerr(y, ref)
                check(y.dtype == np.complex128 and e < 1e-11,
                      "view %s axes=%r oshape=%s %s err=%.2e" % (
                          name, axes, osh, fn.__name__, e))

# delta at the centre index maps to a constant (origin is n // 2)
for n in (1, 2, 5, 8):
    d = np.zeros(n, np.complex128)
    d[n // 2] = 1
    check(np.allclose(sp.fft(d), np.full(n, n ** -0.5)), "delta fft n=%d" % n)
    check(np.allclose(sp.ifft(d), np.full(n, n ** -0.5)), "delta ifft n=%d" % n)
    d = np.zeros(n, np.complex128)
    d[0] = 1
    check(np.allclose(sp.fft(d, center=False), np.full(n, n ** -0.5)),
          "delta0 fft n=%d" % n)

# the linear operators built on top
F = sp.linop.FFT((5, 4, 3), axes=(-1, 0))
x = rnd((5, 4, 3), np.complex128)
check(relerr(F(x), ref_transform(x, None, (-1, 0), True, "ortho", False))
      < 1e-11, "linop FFT")
check(relerr(F.H(F(x)), x) < 1e-11, "linop FFT adjoint is inverse")
check(relerr(F.N(x), x) < 1e-11, "linop FFT normal is identity")
y = rnd((5, 4, 3), np.complex128)
check(abs(np.vdot(F(x), y) - np.vdot(x, F.H(y))) < 1e-10, "linop adjoint")

# ---- centre-aligned zero-pad / crop used by the centred transforms
from sigpy import util  # noqa: E402


def ref_resize(x, oshape):
    nd = max(x.ndim, len(oshape))
    x = x.reshape((1,) * (nd - x.ndim) + x.shape)
    o1 = (1,) * (nd - len(oshape)) + tuple(oshape)
    for a in range(nd):
        x = ref_resize_axis(x, a, o1[a])
    return x.reshape(oshape)


sizes = (1, 2, 3, 4, 5, 8)
for nd in (1, 2, 3):
    for ishape in itertools.product(sizes[: 7 - 2 * nd + 1], repeat=nd):
        src = rnd(ishape, np.complex64)
        srcs = {"c": src, "f": np.asfortranarray(src), "rev": src[::-1]}
        for osh in itertools.product(sizes[: 7 - 2 * nd + 1], repeat=nd):
            ref = ref_resize(src, osh)
            for name, v in srcs.items():
                want = ref if name != "rev" else ref_resize(src[::-1], osh)
                v = v.view()
                v.setflags(write=False)
                for o_arg in (osh, list(osh)):
                    y = util.resize(v, o_arg)
                    tag = "resize %s %s->%s" % (name, ishape, osh)
                    check(y.shape == tuple(osh) and y.dtype == v.dtype
                          and np.array_equal(y, want), tag)
                    if tuple(osh) != tuple(ishape):
                        check(not np.shares_memory(y, v) and y.flags.writeable
                              and y.flags.c_contiguous, "fresh " + tag)
# differing ndim and explicit shifts
x = rnd((4, 6), np.float64)
check(np.array_equal(util.resize(x, (2, 2, 8)),
                     ref_resize(x, (2, 2, 8))), "resize ndim up")
check(np.array_equal(util.resize(x[None], (3, 3)),
                     ref_resize(x[None], (3, 3))), "resize ndim down")
y = util.resize(x, (2, 3), ishift=[1, 2])
check(np.array_equal(y, x[1:3, 2:5]) and not np.shares_memory(y, x),
      "resize ishift crop")
y = util.resize(x, (6, 9), oshift=[1, 2])
w = np.zeros((6, 9))
w[1:5, 2:8] = x
check(np.array_equal(y, w), "resize oshift pad")
y = util.resize(x, (3, 9), ishift=[1, 0], oshift=[0, 1])
w = np.zeros((3, 9))
w[:, 1:7] = x[1:4]
check(np.array_equal(y, w), "resize both shifts")
y = util.resize(x, (4, 3), oshift=[0, 1])
w = np.zeros((4, 3))
w[:, 1:] = x[:, 2:4]
check(np.array_equal(y, w), "resize crop with oshift")
# Resize linop: adjoint pairs and crop(pad(x)) == x
for ish, osh in (((5, 4), (8, 3)), ((3,), (6,)), ((6, 5), (3, 2))):
    R = sp.linop.Resize(osh, ish)
    a = rnd(ish, np.complex128)
    b = rnd(osh, np.complex128)
    check(abs(np.vdot(R(a), b) - np.vdot(a, R.H(b))) < 1e-12,
          "Resize adjoint %s %s" % (ish, osh))
for ish in ((5,), (4, 3), (2, 5, 3)):
    a = rnd(ish, np.complex128)
    big = tuple(s + 3 for s in ish)
    check(np.array_equal(util.resize(util.resize(a, big), ish), a),
          "crop(pad(x)) == x %s" % (ish,))

print("checks: %d, failures: %d" % (nchecks, len(failures)))
for f in failures[:30]:
    print("FAIL", f)
sys.exit(1 if failures else 0)
