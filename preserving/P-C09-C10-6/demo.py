"""C10 demo: orthogonal wavelet transform is norm preserving, perfectly
invertible, iwt is the adjoint of fwt, and the coefficient array has the shape
advertised by sigpy.linop.Wavelet.

Besides these self-consistency properties, fwt is compared with an INDEPENDENT
reference (zero-extension filter-bank implemented with np.convolve; PyWavelets
is used only to look up the filter taps) for every configuration whose
coefficient layout is a plain concatenation: any dims / axes with level 1 and
1-D transforms with any level.  Exit code 0 iff everything holds.
"""
import itertools
import sys
import warnings

import numpy as np
import pywt

import sigpy as sp
from sigpy import linop, wavelet

warnings.filterwarnings("ignore", message="Level value of")

rng = np.random.RandomState(4321)
FAIL = []
NCHECK = [0]


def check(cond, msg):
    NCHECK[0] += 1
    if not cond:
        FAIL.append(msg)
        if len(FAIL) < 30:
            print("FAIL:", msg)


def tol_of(dtype):
    # The tabulated PyWavelets taps of some symlets (sym3, sym16-sym20) are
    # orthonormal only to ~1e-11, so exact-identity checks in double precision
    # cannot be tighter than ~1e-9; comparisons with the filter-bank reference
    # (same taps) use the tight tolerance tol_ref_of.
    return 2e-5 if np.dtype(dtype) in (np.float32, np.complex64) else 1e-9


def tol_ref_of(dtype):
    return 2e-5 if np.dtype(dtype) in (np.float32, np.complex64) else 1e-12


def close(a, b, tol):
    a = np.asarray(a)
    b = np.asarray(b)
    if a.shape != b.shape:
        return False
    scale = max(1.0, float(np.max(np.abs(b))) if b.size else 1.0)
    return bool(np.all(np.abs(a - b) <= tol * scale))


def make_input(shape, dtype, variant):
    shape = tuple(shape)
    dtype = np.dtype(dtype)
    if variant == "strided":
        base = rng.standard_normal(shape[:-1] + (2 * shape[-1],))
        basei = rng.standard_normal(base.shape)
    elif variant == "transposed":
        base = rng.standard_normal(shape[::-1])
        basei = rng.standard_normal(base.shape)
    else:
        base = rng.standard_normal(shape)
        basei = rng.standard_normal(shape)
    if dtype.kind == "c":
        x = (base + 1j * basei).astype(dtype)
    elif dtype.kind == "i":
        x = np.round(5 * base).astype(dtype)
    else:
        x = base.astype(dtype)
    if variant == "strided":
        x = x[..., ::2]
    elif variant == "transposed":
        x = x.T
    elif variant == "readonly":
        x.setflags(write=False)
    elif variant == "zeros":
        x = np.zeros(shape, dtype)
    assert x.shape == shape
    return x


# ------------------------------------------------ independent reference ---
def _analysis_1level(x, lo, hi, axis):
    def f(v):
        a = np.convolve(v, lo)[1::2]
        d = np.convolve(v, hi)[1::2]
        return np.concatenate([a, d])

    return np.apply_along_axis(f, axis, x)


def _pad_even(x):
    # one zero in FRONT of every odd-length axis (sigpy centres n//2 on m//2)
    out = np.zeros([n + n % 2 for n in x.shape], dtype=x.dtype)
    out[tuple(slice(n % 2, None) for n in x.shape)] = x
    return out


def _max_level(n, flen):
    lev = 0
    while (flen - 1) * 2 ** (lev + 1) <= n:
        lev += 1
    return lev


def fwt_ref(x, wave_name, axes, level):
    """Only for level == 1 (any ndim/axes) or 1-D input (any level)."""
    w = pywt.Wavelet(wave_name)
    lo = np.array(w.dec_lo, dtype=np.float64)
    hi = np.array(w.dec_hi, dtype=np.float64)
    x = np.asarray(x)
    x = x.astype(np.complex128 if np.iscomplexobj(x) else np.float64)
    z = _pad_even(x)
    if axes is None:
        axes = range(z.ndim)
    axes = [a % z.ndim for a in axes]
    if z.ndim == 1:
        if level is None:
            level = _max_level(z.shape[0], len(lo))
        details = []
        a = z
        for _ in range(level):
            c = _analysis_1level(a, lo, hi, 0)
            a, d = c[: c.size // 2], c[c.size // 2:]
            details.insert(0, d)
        return np.concatenate([a] + details)
    assert level == 1
    for ax in axes:
        z = _analysis_1level(z, lo, hi, ax)
    return z


# --------------------------------------------------------- one config -----
def vdot(a, b):
    return np.vdot(np.asarray(a, dtype=np.complex128).ravel(),
                   np.asarray(b, dtype=np.complex128).ravel())


def run_config(shape, wave_name, axes, level, dtype, variant):
    tag = "%s %s axes=%s level=%s %s %s" % (
        shape, wave_name, axes, level, np.dtype(dtype).name, variant)
    x = make_input(shape, dtype, variant)
    keep = x.copy()
    tol = tol_of(dtype)

    oshape, slices = wavelet.get_wavelet_shape(shape, wave_name, axes, level)
    W = linop.Wavelet(shape, axes=axes, wave_name=wave_name, level=level)
    check(list(W.oshape) == list(oshape) and list(W.ishape) == list(shape),
          "linop shapes " + tag)

    y = sp.fwt(x, wave_name=wave_name, axes=axes, level=level)
    check(tuple(y.shape) == tuple(oshape), "advertised shape " + tag)
    want_dt = np.result_type(np.dtype(dtype), np.float32) \
        if np.dtype(dtype).kind != "i" else np.dtype(np.float64)
    if np.dtype(dtype).kind == "i" and y.dtype == np.dtype(dtype):
        # zero decomposition levels (signal shorter than the filter): PyWavelets
        # hands integer data back unconverted
        want_dt = np.dtype(dtype)
    check(y.dtype == want_dt, "fwt dtype %s " % y.dtype + tag)
    check(np.array_equal(x, keep), "fwt mutated input " + tag)

    nx = np.linalg.norm(np.asarray(x, dtype=np.complex128).ravel())
    ny = np.linalg.norm(np.asarray(y, dtype=np.complex128).ravel())
    check(abs(nx - ny) <= tol * max(1.0, nx), "norm preserved " + tag)

    xr = sp.iwt(y, shape, slices, wave_name=wave_name, axes=axes, level=level)
    check(tuple(xr.shape) == tuple(shape), "iwt shape " + tag)
    check(close(xr, x, tol), "perfect reconstruction " + tag)
    check(xr.dtype == want_dt, "iwt dtype %s " % xr.dtype + tag)

    # adjoint: <fwt x, c> == <x, iwt c>
    c = rng.standard_normal(oshape)
    if np.dtype(dtype).kind == "c":
        c = c + 1j * rng.standard_normal(oshape)
        c = c.astype(dtype)
    elif np.dtype(dtype).kind == "f":
        c = c.astype(dtype)
    ckeep = c.copy()
    xc = sp.iwt(c, shape, slices, wave_name=wave_name, axes=axes, level=level)
    lhs = vdot(y, c)
    rhs = vdot(x, xc)
    scale = max(1.0, np.linalg.norm(y.ravel()) * np.linalg.norm(c.ravel()))
    check(abs(lhs - rhs) <= tol * scale, "adjoint %r %r " % (lhs, rhs) + tag)
    check(np.array_equal(c, ckeep), "iwt mutated input " + tag)

    # linop forms, repeated calls on the same object
    y1 = W(x)
    y2 = W * x
    check(np.array_equal(y1, y) and np.array_equal(y2, y), "W(x)==fwt " + tag)
    WH = W.H
    check(list(WH.ishape) == list(oshape) and list(WH.oshape) == list(shape),
          "W.H shapes " + tag)
    check(np.array_equal(WH(c), xc), "W.H(c)==iwt " + tag)
    check(np.array_equal(W.H(c), xc), "W.H(c) repeat " + tag)
    check(close((W.H * W)(x), x, tol), "W.H W x == x " + tag)
    check(np.array_equal(W.H.H(x), y), "W.H.H(x)==fwt " + tag)
    IW = linop.InverseWavelet(shape, axes=axes, wave_name=wave_name,
                              level=level)
    check(list(IW.ishape) == list(oshape), "InverseWavelet ishape " + tag)
    check(np.array_equal(IW(c), xc), "InverseWavelet(c)==iwt " + tag)
    check(np.array_equal(IW.H(x), y), "InverseWavelet.H(x)==fwt " + tag)
    for k in ("wave_name", "axes", "level"):
        check(getattr(W, k) == getattr(WH, k) == getattr(IW, k),
              "attribute %s " % k + tag)
    s2 = IW.coeff_slices
    check(np.array_equal(
        sp.iwt(c, shape, s2, wave_name=wave_name, axes=axes, level=level), xc),
        "coeff_slices attribute " + tag)

    # independent filter-bank reference where the layout is a concatenation
    if len(shape) == 1 or level == 1:
        yref = fwt_ref(x, wave_name, axes, level)
        check(close(y, yref, tol_ref_of(dtype)),
              "fwt == filter-bank reference " + tag)
        # and the inverse on the reference coefficients
        check(close(sp.iwt(yref.astype(y.dtype), shape, slices,
                           wave_name=wave_name, axes=axes, level=level),
                    x, tol), "iwt(reference coeffs) == x " + tag)


def main():
    names = []
    for fam in ("haar", "db", "sym", "coif"):
        names += pywt.wavelist(fam)
    for nm in names:
        check(pywt.Wavelet(nm).orthogonal, "orthogonal " + nm)
    dtypes = [np.complex64, np.float64, np.complex128, np.float32, np.int64]
    variants = ["plain", "strided", "readonly", "transposed", "zeros"]
    levels = [None, 1, 2, 3]
    cnt = 0

    # 1-D: every orthogonal wavelet, odd/even/short lengths, all levels
    for nm in names:
        for n in (1, 2, 5, 8, 17, 32, 63):
            for level in levels:
                dt = dtypes[cnt % len(dtypes)]
                var = variants[cnt % len(variants)]
                axes = [None, (0,), (-1,), [0]][cnt % 4]
                cnt += 1
                run_config((n,), nm, axes, level, dt, var)

    # 2-D / 3-D: representative wavelets, all axes subsets (+/- indices)
    some = ["haar", "db1", "db2", "db4", "db7", "sym2", "sym5", "sym8",
            "coif1", "coif3", "db20"]
    shapes2 = [(1, 1), (1, 6), (5, 1), (4, 4), (5, 6), (7, 9), (16, 12),
               (3, 33), (2, 2)]
    shapes3 = [(1, 1, 1), (2, 3, 4), (5, 5, 5), (3, 1, 8), (4, 6, 2), (7, 2, 9)]
    for shp in shapes2 + shapes3:
        nd = len(shp)
        subsets = [None]
        for r in range(1, nd + 1):
            for cmb in itertools.combinations(range(nd), r):
                subsets.append(tuple(cmb))
                subsets.append(tuple(a - nd for a in cmb))
                if r > 1:
                    subsets.append(list(cmb)[::-1])
        for axes in subsets:
            for level in levels:
                nm = some[cnt % len(some)]
                dt = dtypes[cnt % len(dtypes)]
                var = variants[(cnt // 2) % len(variants)]
                cnt += 1
                run_config(shp, nm, axes, level, dt, var)

    # default arguments (db4, all axes, max level) as used by L1WaveletRecon
    for shp in [(16,), (15,), (16, 16), (13, 20), (8, 9, 10), (32, 32)]:
        x = make_input(shp, np.complex64, "plain")
        W = linop.Wavelet(shp)
        y = sp.fwt(x)
        check(list(y.shape) == list(W.oshape), "default shape %s" % (shp,))
        check(np.array_equal(W(x), y), "default W(x) %s" % (shp,))
        check(close(W.H(W(x)), x, 2e-5), "default roundtrip %s" % (shp,))
        n1 = np.linalg.norm(x.ravel().astype(np.complex128))
        n2 = np.linalg.norm(y.ravel().astype(np.complex128))
        check(abs(n1 - n2) <= 2e-5 * n1, "default norm %s" % (shp,))
        if len(shp) == 1:
            check(close(y, fwt_ref(x, "db4", None, None), 2e-5),
                  "default reference %s" % (shp,))

    print("checks: %d, failures: %d" % (NCHECK[0], len(FAIL)))
    return 1 if FAIL else 0


if __name__ == "__main__":
    sys.exit(main())
