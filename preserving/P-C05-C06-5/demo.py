"""C06 demo: sigpy.nufft approximates the exact non-uniform DFT

    y_j = N^(-1/2) * sum_n x_n exp(-2 pi i k_j . (n - N//2) / N)

to its stated accuracy and nufft_adjoint is its exact adjoint with the same
scaling.  Independent reference: the dense NUDFT matrix built with numpy.

Exits 0 iff every check passes.
"""
import sys
import warnings

import numpy as np

import sigpy as sp

warnings.simplefilter("ignore")
rng = np.random.default_rng(606)
failures = []
nchecks = 0


def check(cond, msg):
    global nchecks
    nchecks += 1
    if not cond:
        failures.append(msg)


def nudft_matrix(coord, shape):
    """Dense E with E[pts..., n...] for the transform dims `shape`."""
    ndim = len(shape)
    coord = np.asarray(coord, dtype=np.float64)
    pts = coord.shape[:-1]
    phase = np.zeros(pts + tuple(shape))
    for d in range(ndim):
        n = np.arange(shape[d]) - shape[d] // 2
        n = n.reshape((1,) * len(pts) + tuple(
            shape[d] if e == d else 1 for e in range(ndim)))
        k = coord[..., d].reshape(pts + (1,) * ndim)
        phase = phase + k * n / shape[d]
    return np.exp(-2j * np.pi * phase) / np.sqrt(np.prod(shape))


def nudft(x, coord, ndim):
    E = nudft_matrix(coord, x.shape[x.ndim - ndim:])
    ax = list(range(-ndim, 0))
    return np.tensordot(np.asarray(x, dtype=np.complex128), E, axes=(ax, ax))


def nudft_adjoint(y, coord, shape, ndim):
    E = nudft_matrix(coord, shape[len(shape) - ndim:])
    npd = coord.ndim - 1
    ya = list(range(y.ndim - npd, y.ndim))
    return np.tensordot(np.asarray(y, dtype=np.complex128), E.conj(),
                        axes=(ya, list(range(npd))))


def relerr(a, b):
    a = np.asarray(a, dtype=np.complex128)
    b = np.asarray(b, dtype=np.complex128)
    den = np.linalg.norm(b.ravel())
    return np.linalg.norm((a - b).ravel()) / (den if den > 0 else 1.0)


def rnd(shape, dtype):
    if np.issubdtype(dtype, np.complexfloating):
        return (rng.standard_normal(shape)
                + 1j * rng.standard_normal(shape)).astype(dtype)
    return rng.standard_normal(shape).astype(dtype)


def make_coord(kind, pts, shape, ndim):
    N = np.array(shape[len(shape) - ndim:], dtype=float)
    u = rng.uniform(-0.5, 0.5, pts + (ndim,))
    if kind == "random":
        return u * N
    if kind == "grid":
        return np.floor(u * N)
    if kind == "half":
        return np.floor(u * N) + 0.5
    if kind == "cluster":
        return 0.3 * N + 1e-3 * rng.standard_normal(pts + (ndim,))
    if kind == "out":
        return 5 * u * N
    raise ValueError(kind)


# (oversamp, width) -> bound on the relative l2 error.  The first two are
# the figures stated in the property; the rest are measured with margin.
BOUNDS = {
    (1.25, 4): 3e-2,
    (2, 4): 3e-3,
    (2.0, 4.0): 3e-3,
    (1.25, 3): 8e-2,
    (1.5, 3): 4e-2,
    (1.25, 6): 1.5e-3,
    (1.6, 5): 8e-4,
    (2, 6): 5e-5,
}
# image shape, number of transform dims
CASES = [((1,), 1), ((2,), 1), ((3,), 1), ((8,), 1), ((9,), 1), ((33,), 1),
         ((64,), 1), ((3, 8), 1), ((2, 1, 7), 1),
         ((4, 5), 2), ((1, 6), 2), ((7, 1), 2), ((16, 15), 2), ((2, 8, 9), 2),
         ((3, 1, 4, 6), 2),
         ((4, 5, 6), 3), ((1, 1, 5), 3), ((2, 6, 7, 8), 3), ((2, 1, 3, 5, 4), 3)]
KINDS = ["random", "grid", "half", "cluster", "out"]
PTS = [(40,), (5, 8), (1,)]

for ci, (shape, ndim) in enumerate(CASES):
    for ki, kind in enumerate(KINDS):
        pts = PTS[(ci + ki) % len(PTS)] if kind != "cluster" else (40,)
        for dtype, cdtype, fptol in ((np.complex128, np.float64, 1e-11),
                                     (np.complex64, np.float32, 3e-5),
                                     (np.complex64, np.float64, 3e-5)):
            coord = make_coord(kind, pts, shape, ndim).astype(cdtype)
            coord.setflags(write=False)
            coord_keep = coord.copy()
            x = rnd(shape, dtype)
            x.setflags(write=False)
            x_keep = x.copy()
            ref = nudft(x, coord, ndim)
            yd = rnd(shape[:len(shape) - ndim] + pts, dtype)
            yd.setflags(write=False)
            for (oversamp, width), bound in BOUNDS.items():
                tag = "shape=%s ndim=%d kind=%s pts=%s %s/%s os=%r w=%r" % (
                    shape, ndim, kind, pts, np.dtype(dtype).name,
                    np.dtype(cdtype).name, oversamp, width)
                if (oversamp, width) == (1.25, 4):
                    y = sp.nufft(x, coord)  # the defaults
                else:
                    y = sp.nufft(x, coord, oversamp=oversamp, width=width)
                check(y.shape == ref.shape and y.dtype == dtype,
                      "shape/dtype %s %s " % (y.shape, y.dtype) + tag)
                if y.shape != ref.shape:
                    continue
                # clustered points make the reference norm small and the
                # error coherent; allow a looser (still O(bound)) figure.
                b = bound * (5 if kind == "cluster" else 1)
                if len(pts) == 1 and pts[0] == 1:
                    b = bound * 5
                b = max(b, 10 * fptol)
                e = relerr(y, ref)
                check(e < b, "accuracy err=%.3e bound=%.1e " % (e, b) + tag)
                # repeated call: identical result
                y2 = sp.nufft(x, coord, oversamp=oversamp, width=width)
                check(np.array_equal(y, y2), "repeat " + tag)

                # adjoint: <A x, y> == <x, A^H y> to rounding
                xa = sp.nufft_adjoint(yd, coord, oshape=shape,
                                      oversamp=oversamp, width=width)
                check(xa.shape == tuple(shape) and xa.dtype == dtype,
                      "adjoint shape/dtype " + tag)
                lhs = np.vdot(yd.astype(np.complex128), y.astype(np.complex128))
                rhs = np.vdot(xa.astype(np.complex128), x.astype(np.complex128))
                scale = (np.linalg.norm(yd.ravel())
                         * np.linalg.norm(y.ravel()) + 1e-300)
                check(abs(lhs - rhs) < 20 * fptol * scale,
                      "adjoint dot %r vs %r " % (lhs, rhs) + tag)
                # adjoint approximates the exact adjoint as well
                if kind != "cluster" and pts != (1,):
                    refa = nudft_adjoint(yd, coord, shape, ndim)
                    ea = relerr(xa, refa)
                    check(ea < max(3 * bound, 10 * fptol),
                          "adjoint accuracy err=%.3e " % ea + tag)
            check(np.array_equal(x, x_keep)
                  and np.array_equal(coord, coord_keep), "inputs mutated")

# periodicity: shifting a coordinate by N along a transform axis
for shape, ndim in (((8,), 1), ((9,), 1), ((6, 7), 2), ((4, 5, 6), 3)):
    x = rnd(shape, np.complex128)
    c = make_coord("random", (30,), shape, ndim)
    shift = np.array(shape) * rng.integers(-3, 4, (30, ndim))
    # exact transform picks up exp(-2 pi i * shift * (n - N//2) / N) = 1
    ya = sp.nufft(x, c, oversamp=2, width=6)
    yb = sp.nufft(x, c + shift, oversamp=2, width=6)
    check(relerr(yb, ya) < 1e-4, "periodic %s err=%.2e" % (shape, relerr(yb, ya)))

# non-contiguous image / coordinates, Gram matrix, linop wrappers
x = rnd((9, 6, 8), np.complex128).transpose(2, 1, 0)[:, ::2]  # (8, 3, 9)
c = np.asfortranarray(make_coord("random", (25,), x.shape, 2))
check(relerr(sp.nufft(x, c, oversamp=2, width=6), nudft(x, c, 2)) < 5e-5,
      "non-contiguous")
shape = (6, 7)
c = make_coord("random", (50,), shape, 2)
E = nudft_matrix(c, shape).reshape(50, -1)
x = rnd(shape, np.complex128)
g = sp.nufft_adjoint(sp.nufft(x, c, oversamp=2, width=6), c, oshape=shape,
                     oversamp=2, width=6)
check(relerr(g.ravel(), E.conj().T @ (E @ x.ravel())) < 1e-4, "gram")
A = sp.linop.NUFFT(shape, c)
check(relerr(A(x), E @ x.ravel()) < 3e-2, "linop NUFFT")
check(relerr(A.H(A(x)).ravel(), E.conj().T @ (E @ x.ravel())) < 6e-2,
      "linop NUFFT normal")
# real-dtype image
xr = rnd((5, 6), np.float64)
c = make_coord("random", (20,), (5, 6), 2)
check(relerr(sp.nufft(xr, c, oversamp=2, width=6), nudft(xr, c, 2)) < 1e-4,
      "real input")
# delta at the centre -> constant N^-1/2
for n in (1, 4, 7):
    d = np.zeros(n, np.complex128)
    d[n // 2] = 1
    y = sp.nufft(d, rng.uniform(-n / 2, n / 2, (10, 1)), oversamp=2, width=6)
    check(np.allclose(y, n ** -0.5, rtol=1e-4), "delta n=%d" % n)

# ---- scaling of the adjoint: a single unit sample maps to the conjugate
# NUDFT row (modulus N^-1/2 everywhere), for non-power-of-two widths too
for shape, ndim in (((1,), 1), ((7,), 1), ((8,), 1), ((5, 6), 2), ((1, 4), 2),
                    ((3, 4, 5), 3), ((2, 5, 6), 2)):
    tshape = shape[len(shape) - ndim:]
    batch = shape[:len(shape) - ndim]
    for width in (3, 5, 5.5, 6):
        for dtype, tol in ((np.complex128, 0.0), (np.complex64, 3e-5)):
            c = make_coord("out", (1,), shape, ndim)
            one = np.ones(batch + (1,), dtype)
            xa = sp.nufft_adjoint(one, c, oshape=shape, oversamp=2,
                                  width=width)
            refa = nudft_adjoint(one, c, shape, ndim)
            bound = {3: 2e-2, 5: 5e-4, 5.5: 2e-4, 6: 5e-5}[width]
            e = relerr(xa, refa)
            check(xa.dtype == dtype and e < bound + tol,
                  "adjoint unit sample %s w=%r %s err=%.2e" % (
                      shape, width, dtype.__name__, e))
            check(abs(np.abs(xa).mean() * np.sqrt(np.prod(tshape)) - 1)
                  < 2 * bound + tol, "adjoint modulus %s w=%r" % (shape, width))
# homogeneity over a wide range of magnitudes, and list / tuple oshape
for dtype, scales, tol in ((np.complex128, (1e-150, 1e-12, 1e12, 1e150), 1e-12),
                           (np.complex64, (1e-18, 1e-6, 1e6, 1e18), 1e-5)):
    shape = (6, 7)
    c = make_coord("random", (30,), shape, 2).astype(
        np.float64 if dtype == np.complex128 else np.float32)
    y = rnd((30,), dtype)
    x = rnd(shape, dtype)
    for oversamp, width in ((1.25, 4), (1.5, 3), (2, 5)):
        xa = sp.nufft_adjoint(y, c, oshape=shape, oversamp=oversamp, width=width)
        fx = sp.nufft(x, c, oversamp=oversamp, width=width)
        check(np.array_equal(xa, sp.nufft_adjoint(y, c, oshape=list(shape),
                                                  oversamp=oversamp,
                                                  width=width)), "list oshape")
        for sc in scales:
            xs = sp.nufft_adjoint((y * dtype(sc)).astype(dtype), c, oshape=shape,
                                  oversamp=oversamp, width=width)
            check(relerr(xs.astype(np.complex128) / sc, xa) < tol,
                  "adjoint homogeneity %s scale=%g os=%r w=%r err=%.2e" % (
                      dtype.__name__, sc, oversamp, width,
                      relerr(xs.astype(np.complex128) / sc, xa)))
            fs = sp.nufft((x * dtype(sc)).astype(dtype), c, oversamp=oversamp,
                          width=width)
            check(relerr(fs.astype(np.complex128) / sc, fx) < tol,
                  "forward homogeneity %s scale=%g" % (dtype.__name__, sc))
# default oshape (estimated from the coordinates) keeps working
c = np.stack(np.meshgrid(np.arange(-4, 5.0), np.arange(-3, 4.0),
                         indexing="ij"), -1)  # spans 8 x 6
y = rnd(c.shape[:-1], np.complex128)
xa = sp.nufft_adjoint(y, c, oversamp=2, width=6)
check(xa.shape == (8, 6) and relerr(
    xa, nudft_adjoint(y, c, (8, 6), 2)) < 5e-5, "estimated oshape")

print("checks: %d, failures: %d" % (nchecks, len(failures)))
for f in failures[:30]:
    print("FAIL", f)
sys.exit(1 if failures else 0)
