"""C19 demo: Bloch simulators are unitary, compose, and invert the SLR design.

Standalone (numpy / scipy / sigpy only).  Every simulator is compared with an
INDEPENDENT reference that multiplies 2x2 matrix exponentials
(scipy.linalg.expm) of the Pauli-matrix Hamiltonian sample by sample; ab2rf
is compared with an independent forward hard-pulse polynomial recursion; the
b2rf / dzrf designs are simulated and compared with the DFT of the beta
polynomial.  Exit status 0 iff every check passes.
"""
import sys
import warnings

import numpy as np
from scipy.linalg import expm

import sigpy.mri.rf as rf
from sigpy.mri.rf import optcont, sim, slr

warnings.simplefilter("ignore")

SX = np.array([[0, 1], [1, 0]], dtype=complex)
SY = np.array([[0, -1j], [1j, 0]], dtype=complex)
SZ = np.array([[1, 0], [0, -1]], dtype=complex)

FAIL = []
NCHECK = [0]


def check(ok, msg):
    NCHECK[0] += 1
    if not ok:
        FAIL.append(msg)
        print("FAIL:", msg)


def close(u, v, tol, msg):
    u = np.asarray(u)
    v = np.asarray(v)
    if u.shape != v.shape:
        check(False, msg + " shape %s vs %s" % (u.shape, v.shape))
        return
    err = np.max(np.abs(u - v)) if u.size else 0.0
    check(np.isfinite(err) and err <= tol, msg + " err=%.3e" % err)


def rot(hx, hy, hz, sign):
    """Batched expm(sign * i/2 * (hx sx + hy sy + hz sz)); inputs (Ns,)."""
    hx, hy, hz = np.broadcast_arrays(
        np.asarray(hx, float), np.asarray(hy, float), np.asarray(hz, float)
    )
    h = (
        hx[:, None, None] * SX
        + hy[:, None, None] * SY
        + hz[:, None, None] * SZ
    )
    return expm(sign * 0.5j * h)


def apply(u, st):
    return np.einsum("nij,nj->ni", u, st)


def init(ns):
    st = np.zeros((ns, 2), dtype=complex)
    st[:, 0] = 1
    return st


# ---------------------------------------------------------------- references
def ref_abrm(p, x, balanced=False, st=None):
    p = np.asarray(p, dtype=complex).ravel()
    x = np.atleast_1d(np.asarray(x, dtype=float))
    st = init(x.size) if st is None else st
    for v in p:
        st = apply(rot(v.real, v.imag, x * 2 * np.pi / p.size, -1), st)
    if balanced:
        st = apply(rot(0.0, 0.0, -np.pi * x, -1), st)
    return st[:, 0], st[:, 1]


def ref_abrm_nd(p, x, g, st=None):
    p = np.asarray(p, dtype=complex).ravel()
    x = np.asarray(x, dtype=float)
    g = np.asarray(g, dtype=float)
    om = np.atleast_2d(x @ g.T) if x.ndim > 1 else np.atleast_1d(x @ g.T)[None]
    st = init(om.shape[0]) if st is None else st
    for t, v in enumerate(p):
        st = apply(rot(v.real, v.imag, om[:, t], -1), st)
    return st[:, 0], st[:, 1]


def ref_hp(p, g, x, dom=0.0, rf_first=False, st=None):
    """Hard pulse model: precession then RF (abrm_hp) or RF then precession
    (optcont.blochsim)."""
    p = np.asarray(p, dtype=complex).ravel()
    x = np.asarray(x, dtype=float)
    g = np.asarray(g, dtype=float)
    th = np.outer(x, g) if x.ndim == 1 else x @ g.T  # (Ns, Nt)
    th = th + dom
    st = init(th.shape[0]) if st is None else st
    for t, v in enumerate(p):
        z = rot(0.0, 0.0, th[:, t], +1)
        r = rot(v.real, v.imag, np.zeros(th.shape[0]), +1)
        st = apply(z, apply(r, st)) if rf_first else apply(r, apply(z, st))
    return st[:, 0], st[:, 1]


def ref_ptx(b1, x, g, dt, fmap=None, sens=None):
    gam = 267.522 * 1e6 / 1000
    ns = x.shape[0]
    dim = int(np.sqrt(ns))
    nc, nt = b1.shape
    if sens is None:
        s = np.ones((ns, nc))
    else:
        s = np.reshape(np.transpose(sens), (dim * dim, nc))
    bxy = s @ b1
    bz = x @ g.T
    if fmap is not None:
        bz = bz + (fmap.flatten() / gam * 2 * np.pi)[:, None]
    st = init(ns)
    for t in range(nt):
        st = apply(
            rot(
                dt * gam * bxy[:, t].real,
                dt * gam * bxy[:, t].imag,
                dt * gam * bz[:, t],
                +1,
            ),
            st,
        )
    sa, sb = st[:, 0], st[:, 1]
    return sa, -np.conj(sb), np.conj(sa) * sb, np.abs(sa) ** 2 - np.abs(sb) ** 2


def unit(a, b, msg, tol=1e-12):
    a = np.asarray(a)
    b = np.asarray(b)
    n = np.abs(a) ** 2 + np.abs(b) ** 2
    check(a.shape == b.shape, msg + " a/b shapes differ")
    check(np.all(np.isfinite(n)) and np.max(np.abs(n - 1)) <= tol,
          msg + " unitarity dev=%.3e" % np.max(np.abs(n - 1)))


# ------------------------------------------------------------- input variety
def pulses(rng):
    out = []
    for n in (1, 2, 3, 7, 16, 33, 64, 127, 256):
        for scale in (1e-3, 0.3, 4.0):
            p = scale * (rng.standard_normal(n) + 1j * rng.standard_normal(n))
            out.append(("c128 n=%d s=%g" % (n, scale), p))
    n = 21
    base = rng.standard_normal(2 * n) + 1j * rng.standard_normal(2 * n)
    out.append(("complex64", (0.5 * base[:n]).astype(np.complex64)))
    out.append(("real f64", 0.7 * base[:n].real.copy()))
    out.append(("real f32", (0.7 * base[:n].real).astype(np.float32)))
    out.append(("non-contiguous", base[::2]))
    out.append(("reversed view", base[::-1][:n]))
    ro = base[:n].copy()
    ro.setflags(write=False)
    out.append(("read-only", ro))
    big = np.zeros(9, dtype=complex)
    big[[0, 4, 8]] = [np.pi, 2.5 * np.pi * 1j, -1.7 * np.pi]
    out.append((">pi flips with zero samples", big))
    out.append(("all zero", np.zeros(12, dtype=complex)))
    return out


def positions(rng):
    xs = [
        ("grid", np.linspace(-3, 3, 13)),
        ("single", np.array([0.37])),
        ("with zero", np.array([0.0, -1.5, 2.25])),
        ("int", np.arange(-2, 3)),
        ("non-contig", np.linspace(-4, 4, 22)[::2]),
    ]
    ro = np.linspace(-1, 1, 5)
    ro.setflags(write=False)
    xs.append(("read-only", ro))
    return xs


TOL = 2e-10


def tol_for(p):
    """Single-precision pulses are squared in single precision by abrm."""
    single = np.asarray(p).dtype in (np.complex64, np.float32)
    return (5e-6, 5e-6) if single else (TOL, 1e-12)


def test_abrm(rng):
    for pn, p in pulses(rng):
        for xn, x in positions(rng):
            for bal in (False, True):
                msg = "abrm[%s|%s|bal=%s]" % (pn, xn, bal)
                p0 = np.array(p, copy=True)
                x0 = np.array(x, copy=True)
                a, b = sim.abrm(p, x, bal)
                a2, b2 = sim.abrm(p, x, bal)  # repeated call
                check(np.array_equal(a, a2) and np.array_equal(b, b2),
                      msg + " repeat")
                check(np.array_equal(p, p0) and np.array_equal(x, x0),
                      msg + " inputs mutated")
                check(a.dtype == np.complex128 and b.dtype == np.complex128,
                      msg + " dtype")
                ra, rb = ref_abrm(p, x, bal)
                tol, utol = tol_for(p)
                close(a, ra, tol, msg + " a")
                close(b, rb, tol, msg + " b")
                unit(a, b, msg, utol)
                if not np.any(p):
                    close(b, np.zeros_like(rb), 1e-14, msg + " zero pulse b")
                    close(np.abs(a), np.ones(a.shape), 1e-14, msg + " zero |a|")
    # default argument and scalar position
    p = 0.4 * (rng.standard_normal(10) + 1j * rng.standard_normal(10))
    a, b = sim.abrm(p, np.linspace(-1, 1, 4))
    ra, rb = ref_abrm(p, np.linspace(-1, 1, 4), False)
    close(a, ra, TOL, "abrm default a")
    close(b, rb, TOL, "abrm default b")
    a, b = sim.abrm(p, 0.25)
    ra, rb = ref_abrm(p, np.array([0.25]))
    close(a, ra, TOL, "abrm scalar x a")
    close(b, rb, TOL, "abrm scalar x b")


def grads(rng, nt, nd):
    g = rng.standard_normal((nt, nd)) * 0.8
    if nt > 2:
        g[1] = 0
    return g


def test_abrm_nd(rng):
    for pn, p in pulses(rng):
        nt = np.size(p)
        tol, utol = tol_for(p)
        for nd in (1, 2, 3):
            for ns in (1, 6):
                x = rng.uniform(-3, 3, (ns, nd))
                x[0] = 0
                g = grads(rng, nt, nd)
                msg = "abrm_nd[%s|nd=%d|ns=%d]" % (pn, nd, ns)
                a, b = sim.abrm_nd(p, x, g)
                ra, rb = ref_abrm_nd(p, x, g)
                close(a, ra, tol, msg + " a")
                close(b, rb, tol, msg + " b")
                unit(a, b, msg, utol)
                check(a.dtype == np.complex128, msg + " dtype")
                if not np.any(p):
                    a0, b0 = sim.abrm_nd(p, x, 0 * g)
                    close(a0, np.ones(ns), 1e-14, msg + " identity a")
                    close(b0, np.zeros(ns), 1e-14, msg + " identity b")
                # composition: first k samples, then the rest
                for k in sorted({0, 1, nt // 2, nt}):
                    if k == 0 or k == nt:
                        continue
                    a1, b1 = sim.abrm_nd(p[:k], x, g[:k])
                    a2, b2 = sim.abrm_nd(p[k:], x, g[k:])
                    ac = a2 * a1 - np.conj(b2) * b1
                    bc = b2 * a1 + np.conj(a2) * b1
                    close(a, ac, tol, msg + " compose a k=%d" % k)
                    close(b, bc, tol, msg + " compose b k=%d" % k)
    # unusual layouts: 1-D x with one gradient axis (as used in the tests),
    # Fortran / transposed / read-only operands, float32 gradients
    p = 0.5 * (rng.standard_normal(15) + 1j * rng.standard_normal(15))
    g1 = rng.standard_normal((15, 1))
    a, b = sim.abrm_nd(p, np.ones(1), g1)
    ra, rb = ref_abrm_nd(p, np.ones((1, 1)), g1)
    close(a, ra, TOL, "abrm_nd 1-D x a")
    close(b, rb, TOL, "abrm_nd 1-D x b")
    x = np.asfortranarray(rng.uniform(-2, 2, (5, 3)))
    g = np.ascontiguousarray(rng.standard_normal((3, 15))).T
    x.setflags(write=False)
    a, b = sim.abrm_nd(p, x, g)
    ra, rb = ref_abrm_nd(p, x, g)
    close(a, ra, TOL, "abrm_nd layouts a")
    close(b, rb, TOL, "abrm_nd layouts b")
    g32 = np.asarray(g, dtype=np.float32)
    a, b = sim.abrm_nd(p, x, g32)
    ra, rb = ref_abrm_nd(p, x, g32)
    close(a, ra, TOL, "abrm_nd f32 grad a")
    close(b, rb, TOL, "abrm_nd f32 grad b")


def test_hp(rng):
    for pn, p in pulses(rng):
        nt = np.size(p)
        tol, utol = tol_for(p)
        for xn, x in positions(rng):
            x = np.asarray(x, dtype=float)
            g = rng.standard_normal(nt) * 0.9
            for dom in (0, 0.3):
                msg = "abrm_hp[%s|%s|dom=%g]" % (pn, xn, dom)
                a, b = sim.abrm_hp(p, g, x, dom)
                ra, rb = ref_hp(p, g, x, dom)
                close(a, ra, tol, msg + " a")
                close(b, rb, tol, msg + " b")
                unit(a, b, msg, utol)
            msg = "blochsim[%s|%s]" % (pn, xn)
            a, b = optcont.blochsim(p, x, g)
            a_, b_ = optcont.blochsim(p, x, g)
            check(np.array_equal(a, a_) and np.array_equal(b, b_),
                  msg + " repeat")
            ra, rb = ref_hp(p, g, x, 0.0, rf_first=True)
            close(a, ra, tol, msg + " a")
            close(b, rb, tol, msg + " b")
            unit(a, b, msg, utol)
            check(a.dtype == np.complex128 and b.dtype == np.complex128,
                  msg + " dtype")
            if not np.any(p):
                a0, b0 = optcont.blochsim(p, x, 0 * g)
                close(a0, np.ones(x.size), 1e-14, msg + " identity a")
                close(b0, np.zeros(x.size), 1e-14, msg + " identity b")
                a0, b0 = sim.abrm_hp(p, 0 * g, x)
                close(a0, np.ones(x.size), 1e-14, "abrm_hp identity a")
                close(b0, np.zeros(x.size), 1e-14, "abrm_hp identity b")
            if nt >= 2:
                k = nt // 2
                for name, f in (
                    ("blochsim", lambda q, h: optcont.blochsim(q, x, h)),
                    ("abrm_hp", lambda q, h: sim.abrm_hp(q, h, x)),
                ):
                    a, b = f(p, g)
                    a1, b1 = f(p[:k], g[:k])
                    a2, b2 = f(p[k:], g[k:])
                    ac = a2 * a1 - np.conj(b2) * b1
                    bc = b2 * a1 + np.conj(a2) * b1
                    close(a, ac, tol, name + " compose a [%s|%s]" % (pn, xn))
                    close(b, bc, tol, name + " compose b [%s|%s]" % (pn, xn))
        # multi-dimensional positions for blochsim
        for nd in (1, 2, 3):
            x = rng.uniform(-3, 3, (4, nd))
            g = grads(rng, nt, nd)
            msg = "blochsim nd=%d [%s]" % (nd, pn)
            a, b = optcont.blochsim(p, x, g)
            ra, rb = ref_hp(p, g, x, 0.0, rf_first=True)
            close(a, ra, tol, msg + " a")
            close(b, rb, tol, msg + " b")
            unit(a, b, msg, utol)
    # layouts for blochsim: Fortran x, transposed g, read-only, column rf
    p = 0.6 * (rng.standard_normal(11) + 1j * rng.standard_normal(11))
    x = np.asfortranarray(rng.uniform(-2, 2, (5, 2)))
    g = np.ascontiguousarray(rng.standard_normal((2, 11))).T
    x.setflags(write=False)
    g.setflags(write=False)
    a, b = optcont.blochsim(p, x, g)
    ra, rb = ref_hp(p, g, x, 0.0, rf_first=True)
    close(a, ra, TOL, "blochsim layouts a")
    close(b, rb, TOL, "blochsim layouts b")
    a, b = optcont.blochsim(list(p), x, g)
    close(a, ra, TOL, "blochsim list rf a")
    close(b, rb, TOL, "blochsim list rf b")
    check(rf.blochsim is optcont.blochsim, "public export")


def test_ptx(rng):
    for dim, nd in ((1, 2), (2, 2), (3, 2), (2, 3)):
        ns = dim * dim
        for nc in (1, 3):
            for nt in (1, 5, 40):
                x = rng.uniform(-0.1, 0.1, (ns, nd))
                g = rng.standard_normal((nt, nd)) * 5
                b1 = 0.02 * (
                    rng.standard_normal((nc, nt))
                    + 1j * rng.standard_normal((nc, nt))
                )
                if nt > 2:
                    b1[:, 1] = 0
                    g[1] = 0
                dt = 4e-6
                sens = rng.standard_normal((nc, dim, dim)) + 1j * (
                    rng.standard_normal((nc, dim, dim))
                )
                fmap = rng.standard_normal((dim, dim)) * 50
                for sn, s_, f_ in (
                    ("plain", None, None),
                    ("sens", sens, None),
                    ("fmap", None, fmap),
                    ("both", sens, fmap),
                ):
                    msg = "abrm_ptx[dim=%d nd=%d nc=%d nt=%d %s]" % (
                        dim, nd, nc, nt, sn)
                    a, b, m, mz = sim.abrm_ptx(b1, x, g, dt, f_, s_)
                    ra, rb, rm, rmz = ref_ptx(b1, x, g, dt, f_, s_)
                    close(np.ravel(a), ra, TOL, msg + " a")
                    close(np.ravel(b), rb, TOL, msg + " b")
                    close(np.ravel(m), rm, TOL, msg + " m")
                    close(np.ravel(mz), rmz, TOL, msg + " mz")
                    unit(a, b, msg)
    x = rng.uniform(-0.1, 0.1, (4, 2))
    a, b, m, mz = sim.abrm_ptx(np.zeros((2, 6), complex), x,
                               np.zeros((6, 2)), 4e-6)
    close(np.ravel(a), np.ones(4), 1e-14, "abrm_ptx identity a")
    close(np.ravel(b), np.zeros(4), 1e-14, "abrm_ptx identity b")


# ------------------------------------------------------------------ SLR part
def forward_ab(p):
    """Independent forward hard-pulse recursion in the coefficient ordering
    used by b2a / ab2rf (alpha stored reversed)."""
    a = np.array([1.0 + 0j])
    b = np.array([0.0 + 0j])
    for j, v in enumerate(p):
        c = np.cos(abs(v) / 2)
        s = np.sin(abs(v) / 2) * np.exp(1j * np.angle(v))
        if j == 0:
            at, bt = a, b
        else:
            at = np.concatenate(([0], a))
            bt = np.concatenate((b, [0]))
        a = c * at - s * bt
        b = np.conj(s) * at + c * bt
    return a, b


def test_ab2rf(rng):
    for n in (1, 2, 3, 8, 31, 64, 100):
        for scale in (0.05, 0.5):
            p = scale * (rng.standard_normal(n) + 1j * rng.standard_normal(n))
            if n > 4:
                p[2] = 0
            a, b = forward_ab(p)
            a0, b0 = a.copy(), b.copy()
            got = slr.ab2rf(a, b)
            check(np.array_equal(a, a0) and np.array_equal(b, b0),
                  "ab2rf mutated inputs n=%d" % n)
            check(got.dtype == np.complex128 and got.shape == (n,),
                  "ab2rf dtype/shape n=%d" % n)
            tol = 1e-9 if scale < 0.1 or n <= 31 else 1e-6
            close(got, p, tol, "ab2rf inverts forward recursion n=%d s=%g"
                  % (n, scale))
            # read-only, non-contiguous, complex64 / real operands
            a.setflags(write=False)
            b.setflags(write=False)
            close(slr.ab2rf(a, b), got, 1e-13, "ab2rf read-only n=%d" % n)
            a2 = np.repeat(a, 2)[::2]
            b2 = np.repeat(b, 2)[::2]
            close(slr.ab2rf(a2, b2), got, 1e-13, "ab2rf strided n=%d" % n)
            ac = a.astype(np.complex64)
            bc = b.astype(np.complex64)
            close(slr.ab2rf(ac, bc),
                  slr.ab2rf(ac.astype(complex), bc.astype(complex)), 1e-13,
                  "ab2rf complex64 n=%d" % n)
    # real beta with real alpha (small-tip-like)
    got = slr.ab2rf(np.array([0.0, 0.9, 0.99]), np.array([0.05, 0.1, 0.0]))
    ref = slr.ab2rf(np.array([0.0, 0.9, 0.99], complex),
                    np.array([0.05, 0.1, 0.0], complex))
    close(got, ref, 1e-14, "ab2rf real inputs")


def beta_response(b, x):
    """|B| at position x for a pulse of len(b) samples simulated with
    2 pi / n of gradient phase per sample and unit x."""
    n = len(b)
    k = np.arange(n)
    return np.abs(np.exp(-2j * np.pi * np.outer(x, k) / n) @ b)


def roundtrip(b, msg, tol):
    b = np.asarray(b)
    n = b.size
    pulse = slr.b2rf(b)
    check(pulse.shape == (n,) and pulse.dtype == np.complex128,
          msg + " b2rf shape/dtype")
    x = np.linspace(-n / 2, n / 2, 4 * n + 1)
    g = np.ones(n) * 2 * np.pi / n
    target = beta_response(b.astype(complex), x)
    _, bs = sim.abrm_hp(pulse, g, x)
    _, br = ref_hp(pulse, g, x)
    _, bo = optcont.blochsim(pulse, x, g)
    close(np.abs(bs), target, tol, msg + " abrm_hp |b|")
    close(np.abs(br), target, tol, msg + " reference sim |b|")
    close(np.abs(bo), target, tol, msg + " blochsim |b|")
    # alpha from b2a has the complementary magnitude
    a = slr.b2a(b)
    amag = beta_response(np.conj(np.asarray(a, complex)[::-1]), x)
    close(amag ** 2 + target ** 2, np.ones(x.size), tol, msg + " |A|^2+|B|^2")


def test_slr(rng):
    for ptype in ("st", "ex", "se", "inv", "sat"):
        for ftype in ("ms", "pm", "min", "max", "ls"):
            for n, tb in ((32, 4), (51, 6)):
                if ftype in ("ms", "ls") and n % 2:
                    continue  # these two designs need an even length
                pulse = slr.dzrf(n, tb, ptype, ftype, 0.01, 0.01)
                check(np.size(pulse) == n, "dzrf length %s %s" % (ptype, ftype))
                if ptype == "st":
                    continue
                # rebuild the beta polynomial exactly as dzrf documents it
                bsf, d1, d2 = slr.calc_ripples(ptype, 0.01, 0.01)
                if ftype == "ms":
                    b = slr.msinc(n, tb / 4)
                elif ftype == "pm":
                    b = slr.dzlp(n, tb, d1, d2)
                elif ftype == "min":
                    b = slr.dzmp(n, tb, d1, d2)[::-1]
                elif ftype == "max":
                    b = slr.dzmp(n, tb, d1, d2)
                else:
                    b = slr.dzls(n, tb, d1, d2)
                b = bsf * b
                close(pulse, slr.b2rf(b), 1e-12,
                      "dzrf == b2rf(beta) %s %s" % (ptype, ftype))
                # |B| touches one for se / inv designs, where alpha is
                # ill-conditioned (and computed in single precision)
                roundtrip(b, "slr[%s|%s|n=%d]" % (ptype, ftype, n),
                          3e-2 if ptype in ("se", "inv") else 2e-3)
    for n in (1, 2, 5, 16, 37, 64):
        for amp in (0.05, 0.5, 0.9):
            b = rng.standard_normal(n) + 1j * rng.standard_normal(n)
            pad = np.zeros(64 * n, complex)
            pad[:n] = b
            b = b * amp / np.max(np.abs(np.fft.fft(pad)))
            roundtrip(b, "slr[random n=%d amp=%g]" % (n, amp), 2e-3)
    b = rng.standard_normal(12)
    b = 0.4 * b / np.sum(np.abs(b))
    roundtrip(b, "slr[real f64 beta]", 2e-3)
    roundtrip(b.astype(np.float32), "slr[real f32 beta]", 2e-3)
    bc = (b * np.exp(1j * np.arange(12))).astype(np.complex64)
    roundtrip(bc, "slr[complex64 beta]", 2e-3)
    ro = b.copy()
    ro.setflags(write=False)
    roundtrip(ro, "slr[read-only beta]", 2e-3)
    roundtrip(np.repeat(b, 2)[::2], "slr[strided beta]", 2e-3)
    close(slr.b2rf(ro), slr.b2rf(b), 0, "b2rf repeatable")


def main():
    rng = np.random.default_rng(1920)
    test_abrm(rng)
    test_abrm_nd(rng)
    test_hp(rng)
    test_ptx(rng)
    test_ab2rf(rng)
    test_slr(rng)
    print("checks: %d, failures: %d" % (NCHECK[0], len(FAIL)))
    return 1 if FAIL else 0


if __name__ == "__main__":
    sys.exit(main())
