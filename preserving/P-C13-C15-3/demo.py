#!/usr/bin/env python
"""Standalone check of property C13 (GradientMethod / PrimalDualHybridGradient
follow their convergence theory).  Exits 0 iff every check passes.

Independent references used here (pure numpy, written from the papers):
  * ISTA / FISTA (Beck & Teboulle 2009) trajectory, rates L R^2/(2k) and
    2 L R^2/(k+1)^2, monotone descent of ISTA with step <= 1/L,
  * Chambolle-Pock 2011 Algorithm 1 / Algorithm 2 trajectory, saddle points
    are fixed points, Fejer monotonicity in the PPA metric
    [[1/tau, -A^H], [-A, 1/sigma]] (He & Yuan 2012), convergence to the
    minimiser computed in closed form or certified by its optimality residual.
"""
import math
import sys
import warnings

import numpy as np

import sigpy as sp
from sigpy.alg import GradientMethod, PrimalDualHybridGradient

FAILS = []
NCHECK = [0]


def check(cond, msg):
    NCHECK[0] += 1
    if not cond:
        FAILS.append(msg)
        if len(FAILS) <= 30:
            print("FAIL:", msg)


# --------------------------------------------------------------------------
# regularisers: value and prox (alpha may be a scalar or an array)
# --------------------------------------------------------------------------
def make_g(kind, lam, lo=-0.25, hi=0.5):
    if kind == "zero":
        return (lambda x: 0.0), (lambda a, x: x)
    if kind == "l1":

        def val(x):
            return lam * float(np.sum(np.abs(x)))

        def prox(a, x):
            mag = np.abs(x)
            scale = np.maximum(mag - lam * a, 0) / np.where(mag == 0, 1, mag)
            return (scale * x).astype(x.dtype)

        return val, prox
    if kind == "l2sq":

        def val(x):
            return lam / 2 * float(np.sum(np.abs(x) ** 2))

        def prox(a, x):
            return (x / (1 + lam * a)).astype(x.dtype)

        return val, prox
    if kind == "box":

        def inside(x):
            re_ok = np.all((x.real >= lo - 1e-12) & (x.real <= hi + 1e-12))
            if np.iscomplexobj(x):
                re_ok = re_ok and np.all(
                    (x.imag >= lo - 1e-12) & (x.imag <= hi + 1e-12)
                )
            return re_ok

        def val(x):
            return 0.0 if inside(x) else np.inf

        def prox(a, x):
            if np.iscomplexobj(x):
                return (
                    np.clip(x.real, lo, hi) + 1j * np.clip(x.imag, lo, hi)
                ).astype(x.dtype)
            return np.clip(x, lo, hi).astype(x.dtype)

        return val, prox
    raise ValueError(kind)


def rand(rng, shape, dtype):
    x = rng.standard_normal(shape)
    if np.issubdtype(dtype, np.complexfloating):
        x = x + 1j * rng.standard_normal(shape)
    return x.astype(dtype)


def readonly(a):
    a = a.copy()
    a.setflags(write=False)
    return a


# --------------------------------------------------------------------------
# reference proximal gradient (64-bit)
# --------------------------------------------------------------------------
def ref_pg(gradf, prox, x0, alpha, accelerate, n_iter):
    x = x0.copy()
    z = x0.copy()
    t = 1.0
    out = []
    for _ in range(n_iter):
        x_old = x
        y = z if accelerate else x
        x = prox(alpha, y - alpha * gradf(y))
        if accelerate:
            t_new = (1 + math.sqrt(1 + 4 * t * t)) / 2
            z = x + ((t - 1) / t_new) * (x - x_old)
            t = t_new
        out.append(x)
    return out


def solve_composite(M, b, kind, lam, prox, wide):
    """Minimiser of 1/2||Mx-b||^2 + g(x), certified by its prox residual."""
    n = M.shape[1]
    MH = M.conj().T
    if kind == "zero":
        return np.linalg.lstsq(M, b, rcond=None)[0].astype(wide)
    if kind == "l2sq":
        return np.linalg.solve(MH @ M + lam * np.eye(n), MH @ b).astype(wide)
    L = np.linalg.eigvalsh(MH @ M)[-1]
    x = np.zeros(n, dtype=wide)
    a = 1 / L
    for _ in range(200000):
        x_new = prox(a, x - a * (MH @ (M @ x - b)))
        done = np.linalg.norm(x_new - x) <= 1e-16 * (1 + np.linalg.norm(x))
        x = x_new
        if done:
            break
    res = np.linalg.norm(x - prox(a, x - a * (MH @ (M @ x - b))))
    assert res <= 1e-13 * (1 + np.linalg.norm(x)), ("reference optimum", res)
    return x


def gm_instances(rng):
    """(name, M, b, kind, lam, dtype, closed-form optimum or None)"""
    inst = []
    for dtype in [np.float64, np.complex128, np.float32, np.complex64]:
        wide = np.complex128 if np.dtype(dtype).kind == "c" else np.float64
        for (m, n) in [(7, 5), (3, 3), (4, 1), (1, 1), (9, 6)]:
            M = rand(rng, (m, n), wide)
            if m == n:
                M = M + 2 * np.eye(n)
            b = rand(rng, (m,), wide)
            for kind in ["zero", "l1", "l2sq", "box"]:
                inst.append(
                    ("dense%dx%d" % (m, n), M, b, kind, 0.3, dtype, None)
                )
    # ill-conditioned, separable => closed-form optimum
    for dtype in [np.float64, np.complex128]:
        wide = np.complex128 if np.dtype(dtype).kind == "c" else np.float64
        for d in [
            np.array([1.0, 1e-2, 1e-4]),
            np.array([1.0, 0.999, 1e-3, 1e-3, 3e-5]),
        ]:
            M = np.diag(d).astype(wide)
            b = rand(rng, (len(d),), wide) * d
            lam = 1e-5
            xs0 = b / d
            sol = {
                "zero": xs0,
                "l2sq": d * b / (d**2 + lam),
                "l1": (
                    np.maximum(np.abs(d * b) - lam, 0)
                    * np.exp(1j * np.angle(d * b))
                    / d**2
                ).astype(wide)
                if wide is np.complex128
                else np.sign(d * b) * np.maximum(np.abs(d * b) - lam, 0) / d**2,
                "box": (
                    np.clip(xs0.real, -0.25, 0.5)
                    + 1j * np.clip(xs0.imag, -0.25, 0.5)
                ).astype(wide)
                if wide is np.complex128
                else np.clip(xs0, -0.25, 0.5),
            }
            for kind in ["zero", "l1", "l2sq", "box"]:
                inst.append(
                    ("illcond%d" % len(d), M, b, kind, lam, dtype, sol[kind])
                )
    # Nesterov's worst-case tridiagonal quadratic
    n = 12
    T = 2 * np.eye(n) - np.eye(n, k=1) - np.eye(n, k=-1)
    Mw = np.linalg.cholesky(T).T
    bw = np.linalg.solve(Mw.T, np.eye(n)[0])
    inst.append(("nesterov", Mw, bw, "zero", 0.0, np.float64, None))
    inst.append(("nesterov", Mw, bw, "l1", 1e-3, np.float64, None))
    return inst


def run_gradient_method(rng):
    for name, M, b, kind, lam, dtype, x_closed in gm_instances(rng):
        single = np.dtype(dtype).itemsize <= 8 and np.dtype(dtype).kind == "c"
        single = single or dtype == np.float32
        wide = np.complex128 if np.dtype(dtype).kind == "c" else np.float64
        n = M.shape[1]
        gval, prox = make_g(kind, lam)
        MH = M.conj().T
        L = float(np.linalg.eigvalsh(MH @ M)[-1])
        x_star = (
            x_closed
            if x_closed is not None
            else solve_composite(M, b, kind, lam, prox, wide)
        )

        def F(x):
            x = x.astype(wide)
            return 0.5 * float(np.linalg.norm(M @ x - b) ** 2) + gval(x)

        F_star = F(x_star)
        Md = readonly(M.astype(dtype))
        MHd = readonly(MH.astype(dtype))
        bd = readonly(b.astype(dtype))

        def gradf(x):
            return MHd @ (Md @ x - bd)

        def gradf_w(x):
            return MH @ (M @ x - b)

        for accelerate in [False, True]:
            for step_frac, as_np in [(1.0, False), (0.5, True), (0.999, False)]:
                alpha = step_frac / L
                alpha_arg = np.float64(alpha) if as_np else alpha
                if single and as_np:
                    alpha_arg = alpha  # keep the working precision single
                layouts = ["contig", "strided"] if step_frac == 1.0 else ["contig"]
                for layout in layouts:
                    x0 = rand(rng, (n,), dtype)
                    if kind == "box":
                        x0 = prox(1.0, x0)
                    if layout == "strided":
                        buf = np.zeros(2 * n, dtype=dtype)
                        x = buf[::2]
                        x[:] = x0
                    else:
                        x = x0.copy()
                    n_iter = 60 if single else 120
                    alg = GradientMethod(
                        gradf,
                        x,
                        alpha_arg,
                        proxg=None if kind == "zero" else prox,
                        accelerate=accelerate,
                        max_iter=n_iter,
                    )
                    ref = ref_pg(
                        gradf_w, prox, x0.astype(wide), alpha, accelerate,
                        n_iter,
                    )
                    R2 = float(np.linalg.norm(x0.astype(wide) - x_star) ** 2)
                    Lstep = 1 / alpha
                    tag = "GM %s %s %s acc=%s step=%g %s" % (
                        name, kind, np.dtype(dtype).name, accelerate,
                        step_frac, layout,
                    )
                    F_prev = F(x)
                    eps = 1e-4 if single else 1e-10
                    scale = 1 + abs(F_star) + abs(F_prev)
                    for k in range(1, n_iter + 1):
                        alg.update()
                        check(alg.x is x, tag + " x rebound")
                        check(x.dtype == dtype, tag + " dtype changed")
                        Fk = F(x)
                        err = np.linalg.norm(x - ref[k - 1])
                        check(
                            err <= eps * (1 + np.linalg.norm(ref[k - 1])) * 10,
                            tag + " trajectory k=%d err=%g" % (k, err),
                        )
                        if not accelerate:
                            check(
                                Fk <= F_prev + eps * scale,
                                tag + " objective increased k=%d" % k,
                            )
                            bound = Lstep * R2 / (2 * k)
                        else:
                            bound = 2 * Lstep * R2 / (k + 1) ** 2
                        check(
                            Fk - F_star <= bound + eps * scale,
                            tag + " rate k=%d gap=%g bound=%g"
                            % (k, Fk - F_star, bound),
                        )
                        F_prev = Fk
                    check(alg.iter == n_iter, tag + " iter %d" % alg.iter)
                    if layout == "strided":
                        check(np.all(buf[1::2] == 0), tag + " wrote outside")

    # the sigpy Prox objects give the same iterates as the plain functions
    M = rand(rng, (6, 4), np.float64)
    b = rand(rng, (6,), np.float64)
    L = float(np.linalg.eigvalsh(M.T @ M)[-1])
    _, prox = make_g("l1", 0.2)
    for accelerate in [False, True]:
        x = np.zeros(4)
        alg = GradientMethod(
            lambda v: M.T @ (M @ v - b), x, 1 / L,
            proxg=sp.prox.L1Reg((4,), 0.2), accelerate=accelerate, max_iter=40,
        )
        ref = ref_pg(lambda v: M.T @ (M @ v - b), prox, np.zeros(4), 1 / L,
                     accelerate, 40)
        for k in range(40):
            alg.update()
            check(np.allclose(x, ref[k], rtol=1e-10, atol=1e-12),
                  "GM sigpy prox trajectory acc=%s k=%d" % (accelerate, k))
    # multi-dimensional iterate with a size-1 axis
    x = rand(rng, (3, 1, 2), np.complex128)
    w = np.array([1.0, 0.5, 0.1])[:, None, None]
    tgt = rand(rng, (3, 1, 2), np.complex128)
    x0 = x.copy()
    alg = GradientMethod(lambda v: w * (v - tgt), x, 1.0, accelerate=True,
                         max_iter=25)
    ref = ref_pg(lambda v: w * (v - tgt), lambda a, v: v, x0, 1.0, True, 25)
    for k in range(25):
        alg.update()
        check(np.allclose(x, ref[k], rtol=1e-12, atol=1e-13),
              "GM nd trajectory k=%d" % k)
    check(alg.x is x and x.shape == (3, 1, 2), "GM nd in place")


# --------------------------------------------------------------------------
# primal-dual hybrid gradient
# --------------------------------------------------------------------------
def ref_pdhg(A, b, proxg, x0, u0, tau, sigma, gp, gd, n_iter):
    """Chambolle-Pock Alg. 1 (and Alg. 2 when exactly one gamma is > 0) for
    f(v) = 1/2||v-b||^2, i.e. prox_{s f*}(u) = (u - s b) / (1 + s)."""
    AH = A.conj().T
    x, u, xb = x0.copy(), u0.copy(), x0.copy()
    tau = np.array(tau, dtype=float)
    sigma = np.array(sigma, dtype=float)
    xs, us = [], []
    for _ in range(n_iter):
        v = u + sigma * (A @ xb)
        u = (v - sigma * b) / (1 + sigma)
        x_old = x
        x = proxg(tau, x - tau * (AH @ u))
        if gp > 0 and gd == 0:
            theta = 1 / math.sqrt(1 + 2 * gp * float(np.min(tau)))
            tau, sigma = tau * theta, sigma / theta
        elif gd > 0 and gp == 0:
            theta = 1 / math.sqrt(1 + 2 * gd * float(np.min(sigma)))
            sigma, tau = sigma * theta, tau / theta
        else:
            theta = 1.0
        xb = x + theta * (x - x_old)
        xs.append(x)
        us.append(u)
    return xs, us


def run_pdhg(rng):
    cases = []
    for dtype in [np.float64, np.complex128]:
        for (m, n) in [(6, 4), (3, 5), (4, 4), (1, 1), (5, 1)]:
            A = rand(rng, (m, n), dtype)
            if m == n:
                A = A + 3 * np.eye(n)
            b = rand(rng, (m,), dtype)
            cases.append(("dense%dx%d" % (m, n), A, b, dtype))
        d = np.array([1.0, 1e-1, 1e-3])
        cases.append(("illcond", np.diag(d).astype(dtype),
                      rand(rng, (3,), dtype), dtype))
    for name, A, b, dtype in cases:
        m, n = A.shape
        AH = A.conj().T
        nrmA = float(np.linalg.norm(A, 2))
        sv = np.linalg.svd(A, compute_uv=False)
        benign = sv[0] / sv[-1] < 20
        for kind in ["zero", "l1", "l2sq", "box"]:
            lam = 0.25
            gval, proxg = make_g(kind, lam)
            well_posed = (
                kind in ("l2sq", "box")
                or (m >= n and np.linalg.cond(A) < 1e3)
            )
            if not well_posed and kind == "zero":
                x_star = np.linalg.lstsq(A, b, rcond=None)[0]
            elif not well_posed:
                continue
            else:
                x_star = solve_composite(A, b, kind, lam, proxg, dtype)
            u_star = A @ x_star - b
            unique = (
                kind == "l2sq" or (m >= n and np.linalg.cond(A) < 1e3)
            )

            def F(x):
                return 0.5 * float(np.linalg.norm(A @ x - b) ** 2) + gval(x)

            F_star = F(x_star)
            absA = np.abs(A)
            steps = {
                "scalar": (1 / nrmA, 1 / nrmA),
                "scalar-uneven": (0.01 / nrmA, 100 / nrmA),
                "scalar-small": (0.3 / nrmA, 0.5 / nrmA),
                "array": (
                    1 / np.maximum(absA.sum(axis=0), 1e-300),
                    1 / np.maximum(absA.sum(axis=1), 1e-300),
                ),
            }
            gammas = [(0, 0), (0, 1.0), (0.0, 0.5)]
            if kind == "l2sq":
                gammas += [(lam, 0), (lam, 1.0), (lam / 2, 0)]
            for sname, (tau0, sigma0) in steps.items():
                for gp, gd in gammas:
                    tag = "PDHG %s %s %s %s gp=%g gd=%g" % (
                        name, kind, np.dtype(dtype).name, sname, gp, gd)
                    accel = (gp > 0) != (gd > 0)

                    def mk(x, u):
                        tau = tau0.copy() if sname == "array" else tau0
                        sigma = sigma0.copy() if sname == "array" else sigma0
                        return PrimalDualHybridGradient(
                            lambda s, v: (v - s * b) / (1 + s),
                            proxg,
                            lambda v: A @ v,
                            lambda v: AH @ v,
                            x, u, tau, sigma,
                            gamma_primal=gp, gamma_dual=gd, max_iter=10**9,
                        )

                    # (a) saddle points are fixed points
                    x = x_star.copy()
                    u = u_star.copy()
                    alg = mk(x, u)
                    for k in range(25):
                        alg.update()
                    tol_fp = 1e-9 * (1 + np.linalg.norm(x_star)
                                     + np.linalg.norm(u_star))
                    if name == "illcond":
                        tol_fp *= 1e3
                    check(
                        np.linalg.norm(x - x_star) <= tol_fp
                        and np.linalg.norm(u - u_star) <= tol_fp,
                        tag + " saddle point moved by %g / %g"
                        % (np.linalg.norm(x - x_star),
                           np.linalg.norm(u - u_star)),
                    )
                    check(alg.x is x and alg.u is u, tag + " rebound (fp)")

                    # (b) trajectory, in-place, Fejer monotonicity, limit
                    x0 = rand(rng, (n,), dtype)
                    if kind == "box":
                        x0 = proxg(1.0, x0)
                    u0 = rand(rng, (m,), dtype)
                    x, u = x0.copy(), u0.copy()
                    alg = mk(x, u)
                    n_iter = 400
                    xs, us = ref_pdhg(A, b, proxg, x0, u0, tau0, sigma0,
                                      gp, gd, n_iter)
                    hx, hu = [], []
                    for k in range(n_iter):
                        alg.update()
                        hx.append(x.copy())
                        hu.append(u.copy())
                        if k < 60 or k % 20 == 0:
                            ex = np.linalg.norm(x - xs[k])
                            eu = np.linalg.norm(u - us[k])
                            sc = 1 + np.linalg.norm(xs[k]) + np.linalg.norm(us[k])
                            check(ex <= 1e-8 * sc and eu <= 1e-8 * sc,
                                  tag + " trajectory k=%d %g %g" % (k, ex, eu))
                    check(alg.x is x and alg.u is u, tag + " rebound")
                    check(alg.iter == n_iter, tag + " iter")
                    if not accel:
                        # z_k = (x_k, u_{k+1}) is a proximal-point sequence in
                        # the metric [[1/tau, -A^H], [-A, 1/sigma]]
                        q_prev = None
                        for k in range(n_iter - 1):
                            dx = hx[k] - x_star
                            du = hu[k + 1] - u_star
                            q = (
                                float(np.sum(np.abs(dx) ** 2 / tau0))
                                + float(np.sum(np.abs(du) ** 2 / sigma0))
                                - 2 * float(np.real(np.vdot(du, A @ dx)))
                            )
                            if q_prev is not None:
                                check(
                                    q <= q_prev * (1 + 1e-9) + 1e-12,
                                    tag + " weighted distance grew k=%d "
                                    "%g -> %g" % (k, q_prev, q),
                                )
                            q_prev = q
                    if (benign or kind == "l2sq") and sname in ("scalar", "array"):
                        e_early = np.linalg.norm(x - x_star)
                        for _ in range(4000):
                            alg.update()
                        gap = F(x) - F_star
                        e = np.linalg.norm(x - x_star)
                        if not accel:
                            check(
                                abs(gap) <= 1e-6 * (1 + abs(F_star)),
                                tag + " objective gap %g" % gap,
                            )
                            if unique:
                                check(
                                    e <= 1e-5 * (1 + np.linalg.norm(x_star)),
                                    tag + " limit error %g" % e,
                                )
                        else:
                            # O(1/N) on the iterates (Chambolle-Pock Alg. 2)
                            check(
                                abs(gap) <= 1e-3 * (1 + abs(F_star)),
                                tag + " objective gap %g" % gap,
                            )
                            if unique:
                                check(
                                    e <= max(1e-5 * (1 + np.linalg.norm(x_star)),
                                             0.5 * e_early),
                                    tag + " limit error %g (was %g)"
                                    % (e, e_early),
                                )

    # sigpy Prox objects, 2-d variables, read-only data, repeated updates
    A = readonly(rand(rng, (5, 3), np.complex128))
    b = readonly(rand(rng, (5, 1), np.complex128))
    lam = 0.1
    x = np.zeros((3, 1), dtype=np.complex128)
    u = np.zeros((5, 1), dtype=np.complex128)
    nrm = float(np.linalg.norm(A, 2))
    alg = PrimalDualHybridGradient(
        sp.prox.L2Reg((5, 1), 1, y=-b), sp.prox.L1Reg((3, 1), lam),
        sp.linop.MatMul((3, 1), A), sp.linop.MatMul((3, 1), A).H,
        x, u, 1 / nrm, 1 / nrm, gamma_dual=1, max_iter=3000)
    _, proxg = make_g("l1", lam)
    xs, us = ref_pdhg(A, b, proxg, np.zeros_like(x), np.zeros_like(u),
                      1 / nrm, 1 / nrm, 0, 1, 3000)
    k = 0
    while not alg.done():
        alg.update()
        if k < 50 or k == 2999:
            check(np.allclose(x, xs[k], rtol=1e-9, atol=1e-11)
                  and np.allclose(u, us[k], rtol=1e-9, atol=1e-11),
                  "PDHG sigpy-prox trajectory k=%d" % k)
        k += 1
    x_star = solve_composite(A, b[:, 0], "l1", lam, proxg, np.complex128)
    check(np.linalg.norm(x[:, 0] - x_star) <= 1e-7, "PDHG sigpy-prox limit")


    # single precision, array step sizes of the matching real dtype,
    # strided (non-contiguous) primal variable
    for dtype in [np.float32, np.complex64]:
        wide = np.complex128 if dtype == np.complex64 else np.float64
        rdt = np.float32
        for (m, n) in [(5, 3), (2, 2), (3, 1)]:
            A = rand(rng, (m, n), dtype)
            b = rand(rng, (m,), dtype)
            Aw, bw = A.astype(wide), b.astype(wide)
            AH = readonly(A.conj().T)
            Ar = readonly(A)
            nrm = float(np.linalg.norm(Aw, 2))
            _, proxg = make_g("l1", 0.1)
            for sname in ["scalar", "array"]:
                for gp, gd in [(0, 0), (0, 1.0)]:
                    if sname == "scalar":
                        tau0, sigma0 = 0.9 / nrm, 1 / nrm
                        tau, sigma = tau0, sigma0
                    else:
                        tau0 = 1 / np.abs(Aw).sum(axis=0)
                        sigma0 = 1 / np.abs(Aw).sum(axis=1)
                        tau, sigma = tau0.astype(rdt), sigma0.astype(rdt)
                    buf = np.zeros((n, 3), dtype=dtype)
                    x = buf[:, 1]
                    u = np.zeros(m, dtype=dtype)
                    alg = PrimalDualHybridGradient(
                        lambda s, v: ((v - s * b) / (1 + s)).astype(dtype),
                        proxg, lambda v: Ar @ v, lambda v: AH @ v, x, u,
                        tau, sigma, gamma_primal=gp, gamma_dual=gd,
                        max_iter=60)
                    xs, us = ref_pdhg(Aw, bw, proxg, np.zeros(n, wide),
                                      np.zeros(m, wide), tau0, sigma0, gp, gd,
                                      60)
                    tag = "PDHG single %s %dx%d %s gd=%g" % (
                        np.dtype(dtype).name, m, n, sname, gd)
                    for k in range(60):
                        alg.update()
                        sc = 1 + np.abs(xs[k]).max() + np.abs(us[k]).max()
                        check(np.abs(x - xs[k]).max() <= 2e-4 * sc
                              and np.abs(u - us[k]).max() <= 2e-4 * sc,
                              tag + " trajectory k=%d" % k)
                    check(alg.x is x and alg.u is u and x.dtype == dtype
                          and u.dtype == dtype, tag + " in place / dtype")
                    check(not buf[:, 0].any() and not buf[:, 2].any(),
                          tag + " wrote outside the view")


def main():
    warnings.simplefilter("error")
    rng = np.random.default_rng(20240613)
    run_gradient_method(rng)
    run_pdhg(rng)
    print("checks: %d, failures: %d" % (NCHECK[0], len(FAILS)))
    return 1 if FAILS else 0


if __name__ == "__main__":
    sys.exit(main())
