"""C16 demo: the SENSE operator equals the explicit multi-coil encoding
(whatever the coil batch size), and SenseRecon / TotalVariationRecon /
L1WaveletRecon (unitary wavelet) return minimisers of their documented
objectives for that operator.

Independent references
  * Cartesian encoding: dense centred unitary DFT matrices built from
    exp(-2 pi i (k - N//2) (n - N//2) / N) / sqrt(N), applied with einsum.
  * non-Cartesian encoding: explicit non-uniform DFT sum (compared at the
    accuracy of the gridding NUFFT), plus exact batching invariance.
  * recons: the encoding operator as a dense matrix, closed-form solves for
    the quadratic objectives and a numpy ADMM with direct solves (run to
    machine precision and sanity-checked by random perturbations) for the
    l1 objectives.

Exit status 0 iff every check passes.
"""
import itertools
import sys
import zlib

import numpy as np

import sigpy as sp
import sigpy.mri as mr

failures = []
nchecks = 0
worst = {}


def check(cond, msg):
    global nchecks
    nchecks += 1
    if not cond:
        failures.append(msg)
        print("FAIL:", msg)


def rel_err(a, b):
    a = np.asarray(a)
    b = np.asarray(b)
    if a.shape != b.shape:
        return np.inf
    d = np.linalg.norm((a - b).ravel())
    return d / max(np.linalg.norm(b.ravel()), 1e-300)


def rnd(rng, shape, dtype):
    a = rng.standard_normal(shape)
    if np.issubdtype(dtype, np.complexfloating):
        a = a + 1j * rng.standard_normal(shape)
    return a.astype(dtype)


# ------------------------------------------------------ explicit encodings
def dft_matrix(n):
    k = np.arange(n) - n // 2
    return np.exp(-2j * np.pi * np.outer(k, k) / n) / np.sqrt(n)


def cart_forward(img, mps, weights):
    """sqrt(w) * centred unitary DFT of (img * mps[c]) for every coil."""
    out = np.asarray(img)[None] * np.asarray(mps)
    out = out.astype(np.complex128)
    nd = np.ndim(img)
    for ax in range(1, nd + 1):
        F = dft_matrix(out.shape[ax])
        out = np.moveaxis(np.tensordot(F, out, axes=([1], [ax])), 0, ax)
    if weights is not None:
        out = out * np.sqrt(np.asarray(weights, dtype=np.float64))
    return out


def cart_adjoint(ksp, mps, weights):
    out = np.asarray(ksp).astype(np.complex128)
    if weights is not None:
        out = out * np.sqrt(np.asarray(weights, dtype=np.float64))
    nd = np.ndim(mps) - 1
    for ax in range(1, nd + 1):
        F = dft_matrix(out.shape[ax]).conj().T
        out = np.moveaxis(np.tensordot(F, out, axes=([1], [ax])), 0, ax)
    return np.sum(np.conj(mps) * out, axis=0)


def noncart_forward(img, mps, coord, weights):
    """Explicit non-uniform DFT: sum_n x[n] exp(-2 pi i k.(n-N//2)/N)."""
    shape = np.shape(img)
    grids = np.meshgrid(
        *[np.arange(n) - n // 2 for n in shape], indexing="ij"
    )
    phase = np.zeros((coord.shape[0],) + tuple(shape))
    for d, (g, n) in enumerate(zip(grids, shape)):
        phase = phase + coord[:, d].reshape((-1,) + (1,) * len(shape)) * g / n
    E = np.exp(-2j * np.pi * phase) / np.sqrt(np.prod(shape))
    x = (np.asarray(img)[None] * np.asarray(mps)).astype(np.complex128)
    out = x.reshape(x.shape[0], -1) @ E.reshape(E.shape[0], -1).T
    if weights is not None:
        out = out * np.sqrt(np.asarray(weights, dtype=np.float64))
    return out


def dense_of(L, dtype=np.complex128):
    n = int(np.prod(L.ishape))
    cols = []
    for j in range(n):
        e = np.zeros(n, dtype=dtype)
        e[j] = 1
        cols.append(np.ravel(L(e.reshape(L.ishape))))
    return np.stack(cols, axis=1)


# ------------------------------------------------------------ part 1: model
def model_checks():
    rng = np.random.default_rng(11)
    shapes = [(4, 4), (5, 3), (1, 6), (6, 1), (3, 4, 2), (2, 3, 5), (7,)]
    for shape, nc, dtype in itertools.product(
        shapes, [1, 2, 3, 5], [np.complex128, np.complex64]
    ):
        single = dtype == np.complex64
        tol = 2e-5 if single else 1e-12
        mps = rnd(rng, (nc,) + shape, dtype)
        img = rnd(rng, shape, dtype)
        ksp = rnd(rng, (nc,) + shape, dtype)
        rdt = np.float32 if single else np.float64
        wfull = rng.uniform(0.2, 2.0, shape).astype(rdt)
        wfull.ravel()[:: 3] = 0  # unsampled locations
        wlast = rng.uniform(0.2, 2.0, shape[-1:]).astype(rdt)
        for wname, w in [("none", None), ("full", wfull), ("lastaxis", wlast)]:
            ref_f = cart_forward(img, mps, w)
            ref_a = cart_adjoint(ksp, mps, w)
            for bs in [None] + list(range(1, nc + 2)):
                tag = "cart {} nc={} {} w={} bs={}".format(
                    shape, nc, np.dtype(dtype).name, wname, bs
                )
                A = mr.linop.Sense(mps, weights=w, coil_batch_size=bs)
                check(tuple(A.ishape) == shape, tag + " ishape")
                check(tuple(A.oshape) == (nc,) + shape, tag + " oshape")
                out = A(img)
                check(out.dtype == dtype, tag + " forward dtype")
                e = rel_err(out, ref_f)
                worst["cart fwd"] = max(worst.get("cart fwd", 0), e / tol)
                check(e <= tol, tag + " forward err {:.3g}".format(e))
                out = A.H(ksp)
                check(out.dtype == dtype, tag + " adjoint dtype")
                e = rel_err(out, ref_a)
                worst["cart adj"] = max(worst.get("cart adj", 0), e / tol)
                check(e <= tol, tag + " adjoint err {:.3g}".format(e))
                # repeated call on the same object gives the same answer
                check(np.array_equal(A(img), A(img)), tag + " repeat")

    # Unusual-but-valid array flavours (Cartesian).
    nc, shape = 4, (4, 5)
    big = rnd(rng, (nc, 8, 5), np.complex128)
    mps = big[:, ::2, :]  # non-contiguous view
    big.setflags(write=False)  # ... and read-only
    w = rng.uniform(0.5, 1.5, shape)
    w.setflags(write=False)
    img_c = rnd(rng, shape, np.complex128)
    img_r = rng.standard_normal(shape)  # real-dtype image
    img_f = np.asfortranarray(img_c)
    for bs in [None, 1, 3, 4]:
        A = mr.linop.Sense(mps, weights=w, coil_batch_size=bs)
        for name, im in [("cplx", img_c), ("real", img_r), ("fortran", img_f)]:
            im0 = im.copy()
            e = rel_err(A(im), cart_forward(im, mps, w))
            check(e <= 1e-12, "flavour {} bs={} err {:.3g}".format(name, bs, e))
            check(np.array_equal(im, im0), "flavour {} input modified".format(name))
        ksp = rnd(rng, (nc,) + shape, np.complex128)
        ksp.setflags(write=False)
        e = rel_err(A.H(ksp), cart_adjoint(ksp, mps, w))
        check(e <= 1e-12, "flavour adjoint bs={} err {:.3g}".format(bs, e))

    # Non-Cartesian.
    for shape, nc in [((6, 6), 3), ((5, 4), 4), ((4, 3, 4), 2), ((1, 8), 2)]:
        nd = len(shape)
        M = 37
        coord = np.stack(
            [rng.uniform(-n / 2, n / 2, M) for n in shape], axis=1
        )
        for dtype in [np.complex128, np.complex64]:
            single = dtype == np.complex64
            mps = rnd(rng, (nc,) + shape, dtype)
            img = rnd(rng, shape, dtype)
            ksp = rnd(rng, (nc, M), dtype)
            crd = coord.astype(np.float32 if single else np.float64)
            wM = rng.uniform(0.2, 2.0, M).astype(crd.dtype)
            for wname, w in [("none", None), ("array", wM)]:
                A0 = mr.linop.Sense(mps, coord=crd, weights=w)
                f0 = A0(img)
                a0 = A0.H(ksp)
                ref = noncart_forward(img, mps, coord, w)
                e = rel_err(f0, ref)
                worst["noncart vs NDFT /2e-2"] = max(
                    worst.get("noncart vs NDFT /2e-2", 0), e / 2e-2
                )
                check(
                    e <= 2e-2,
                    "noncart {} nc={} w={} vs NDFT err {:.3g}".format(
                        shape, nc, wname, e
                    ),
                )
                # Sense = sqrt(w) * nufft(img * mps) exactly.
                comp = sp.nufft(img * mps, crd)
                if w is not None:
                    comp = comp * w ** 0.5
                check(
                    rel_err(f0, comp) <= (2e-5 if single else 1e-12),
                    "noncart {} composition".format(shape),
                )
                lhs = np.vdot(f0.astype(np.complex128), ksp)
                rhs = np.vdot(img.astype(np.complex128), a0)
                check(
                    abs(lhs - rhs) <= (1e-4 if single else 1e-10) * abs(lhs),
                    "noncart {} adjoint pairing".format(shape),
                )
                tol = 2e-5 if single else 1e-12
                for bs in range(1, nc + 2):
                    A = mr.linop.Sense(
                        mps, coord=crd, weights=w, coil_batch_size=bs
                    )
                    tag = "noncart {} nc={} {} w={} bs={}".format(
                        shape, nc, np.dtype(dtype).name, wname, bs
                    )
                    check(tuple(A.oshape) == (nc, M), tag + " oshape")
                    e = rel_err(A(img), f0)
                    check(e <= tol, tag + " forward batch err {:.3g}".format(e))
                    e = rel_err(A.H(ksp), a0)
                    check(e <= tol, tag + " adjoint batch err {:.3g}".format(e))


# ----------------------------------------------------------- part 2: recons
def soft(v, t):
    mag = np.abs(v)
    with np.errstate(divide="ignore", invalid="ignore"):
        s = np.where(mag > 0, np.maximum(mag - t, 0) / mag, 0)
    return v * s


def ref_minimise(Am, b_data, lam2, Gm, lam1):
    """min 0.5||Am x - b||^2 + lam2/2 ||x||^2 + lam1 ||Gm x||_1."""
    n = Am.shape[1]
    H = Am.conj().T @ Am + lam2 * np.eye(n)
    b = Am.conj().T @ b_data
    if Gm is None or lam1 == 0:
        return np.linalg.solve(H, b)
    rho = 1.0
    Minv = np.linalg.inv(H + rho * Gm.conj().T @ Gm)
    x = np.zeros(n, dtype=np.complex128)
    v = np.zeros(Gm.shape[0], dtype=np.complex128)
    u = np.zeros_like(v)
    for _ in range(100000):
        x = Minv @ (b + rho * Gm.conj().T @ (v - u))
        Gx = Gm @ x
        v_new = soft(Gx + u, lam1 / rho)
        u = u + Gx - v_new
        r = np.linalg.norm(Gx - v_new)
        s = np.linalg.norm(v_new - v)
        v = v_new
        if r < 1e-13 and s < 1e-13:
            break
    return x


def objective(Am, b_data, lam2, Gm, lam1, x):
    x = np.ravel(x).astype(np.complex128)
    f = 0.5 * np.linalg.norm(Am @ x - b_data) ** 2
    f += lam2 / 2 * np.linalg.norm(x) ** 2
    if Gm is not None:
        f += lam1 * np.sum(np.abs(Gm @ x))
    return float(f)


def certified(Am, b_data, lam2, Gm, lam1, x_ref, rng):
    f0 = objective(Am, b_data, lam2, Gm, lam1, x_ref)
    ok = True
    for scale in [1e-1, 1e-3, 1e-5]:
        for _ in range(10):
            d = rng.standard_normal(x_ref.shape) + 1j * rng.standard_normal(
                x_ref.shape
            )
            f1 = objective(Am, b_data, lam2, Gm, lam1, x_ref + scale * d)
            ok = ok and f1 >= f0 - 1e-10 * (1 + abs(f0))
    return ok, f0


def explicit_fd(shape):
    """[x - roll(x, 1, axis) for every axis], as a dense matrix."""
    n = int(np.prod(shape))
    rows = []
    for ax in range(len(shape)):
        cols = []
        for j in range(n):
            e = np.zeros(n)
            e[j] = 1
            e = e.reshape(shape)
            cols.append(np.ravel(e - np.roll(e, 1, axis=ax)))
        rows.append(np.stack(cols, axis=1))
    return np.concatenate(rows, axis=0)


def explicit_cart_matrix(mps, weights):
    shape = mps.shape[1:]
    n = int(np.prod(shape))
    cols = []
    for j in range(n):
        e = np.zeros(n, dtype=np.complex128)
        e[j] = 1
        cols.append(np.ravel(cart_forward(e.reshape(shape), mps, weights)))
    return np.stack(cols, axis=1)


def recon_case(kind, shape, nc, dtype, cart, wmode, lam, solver, bs, consistent):
    tag = "{} {} nc={} {} cart={} w={} lam={} solver={} bs={} cons={}".format(
        kind, shape, nc, np.dtype(dtype).name, cart, wmode, lam, solver, bs,
        consistent,
    )
    rng = np.random.default_rng(zlib.crc32(tag.encode()))
    single = dtype == np.complex64
    rdt = np.float32 if single else np.float64
    n = int(np.prod(shape))
    mps = rnd(rng, (nc,) + shape, dtype)
    img = rnd(rng, shape, dtype)
    if cart:
        coord = None
        kshape = (nc,) + shape
    else:
        M = 2 * n + 3
        coord = np.stack(
            [rng.uniform(-s / 2, s / 2, M) for s in shape], axis=1
        ).astype(rdt)
        kshape = (nc, M)

    if cart:
        y = cart_forward(img, mps, None)
    else:
        y = np.asarray(mr.linop.Sense(mps, coord=coord)(img))
    if not consistent:
        y = y + 0.3 * rnd(rng, kshape, np.complex128)
    weights = None
    if wmode == "array":
        weights = rng.uniform(0.3, 1.7, kshape[1:]).astype(rdt)
    elif wmode == "mask":  # Cartesian only: unsampled points are exact zeros
        mask = np.ones(shape)
        mask.ravel()[1::4] = 0
        y = y * mask
    y = y.astype(dtype)
    y.setflags(write=False)
    mps.setflags(write=False)

    # Effective weights of the documented objective.
    if weights is not None:
        w_eff = weights.astype(np.float64)
    elif cart:
        w_eff = (np.sqrt(np.sum(np.abs(y) ** 2, axis=0)) > 0).astype(float)
    else:
        w_eff = None

    # Encoding matrix: explicit for Cartesian, from the operator otherwise
    # (the operator itself is checked against the explicit model in part 1).
    if cart:
        Am = explicit_cart_matrix(mps.astype(np.complex128), w_eff)
    else:
        Am = dense_of(mr.linop.Sense(mps.astype(np.complex128),
                                     coord=coord.astype(np.float64),
                                     weights=w_eff))
    b_data = np.ravel(
        y.astype(np.complex128) * (1 if w_eff is None else np.sqrt(w_eff))
    )

    kwargs = dict(
        weights=weights, coord=coord, coil_batch_size=bs, show_pbar=False
    )
    if solver is not None:
        kwargs["solver"] = solver
    eff = solver
    if kind == "sense":
        Gm, lam1, lam2 = None, 0.0, lam
        eff = eff or "ConjugateGradient"
    elif kind == "tv":
        Gm, lam1, lam2 = explicit_fd(shape), lam, 0.0
        eff = eff or "PrimalDualHybridGradient"
        Gs = dense_of(sp.linop.FiniteDifference(shape)).real
        check(np.array_equal(Gs, Gm), tag + " finite-difference convention")
    else:
        W = sp.linop.Wavelet(shape, wave_name="haar")
        Gm = dense_of(W)
        unitary = (
            Gm.shape[0] == Gm.shape[1]
            and np.allclose(Gm.conj().T @ Gm, np.eye(n), atol=1e-12)
            and np.allclose(dense_of(W.H), Gm.conj().T, atol=1e-12)
        )
        check(unitary, tag + " wavelet expected to be unitary here")
        lam1, lam2 = lam, 0.0
        kwargs["wave_name"] = "haar"
        eff = eff or "GradientMethod"
    kwargs["max_iter"] = {
        "ConjugateGradient": 3 * n + 10,
        "GradientMethod": 700,
        "PrimalDualHybridGradient": 1500,
        "ADMM": 150,
    }[eff]
    if eff == "ADMM":
        kwargs["max_cg_iter"] = n + 3

    x_ref = ref_minimise(Am, b_data, lam2, Gm, lam1)
    ok, f_ref = certified(Am, b_data, lam2, Gm, lam1, x_ref, rng)
    check(ok, tag + " reference not certified")

    np.random.seed(99)
    if kind == "sense":
        a = mr.app.SenseRecon(y, mps, lamda=lam, **kwargs)
    elif kind == "tv":
        a = mr.app.TotalVariationRecon(y, mps, lam, **kwargs)
    else:
        a = mr.app.L1WaveletRecon(y, mps, lam, **kwargs)
    x = a.run()
    # The app holds the weighted data sqrt(w) y; the caller's y is untouched
    # (it is read-only here, so an in-place update would have raised).
    check(
        rel_err(np.ravel(a.y), b_data) <= (1e-6 if single else 1e-14),
        tag + " app data is not sqrt(w) y",
    )
    check(tuple(x.shape) == shape, tag + " shape {}".format(x.shape))
    check(x.dtype == dtype, tag + " dtype {}".format(x.dtype))
    f = objective(Am, b_data, lam2, Gm, lam1, x)
    tol = (5e-4 if single else 1e-6) * (1 + abs(f_ref))
    key = kind + "/" + eff
    worst[key] = max(worst.get(key, 0), (f - f_ref) / tol)
    check(
        np.isfinite(f) and f - f_ref <= tol,
        "{}: f={:.12g} f*={:.12g} gap={:.3g}".format(tag, f, f_ref, f - f_ref),
    )
    check(f >= f_ref - tol, tag + " beats the reference")
    if consistent and lam == 0 and wmode != "mask":
        e = rel_err(x, img)
        worst["reproduce " + key] = max(
            worst.get("reproduce " + key, 0), e / (5e-3 if single else 1e-3)
        )
        check(
            e <= (5e-3 if single else 1e-3),
            tag + " image not reproduced, err {:.3g}".format(e),
        )


def recon_checks():
    solvers = {
        "sense": [None, "ConjugateGradient", "GradientMethod",
                  "PrimalDualHybridGradient", "ADMM"],
        "tv": [None, "PrimalDualHybridGradient", "ADMM"],
        "l1wav": [None, "GradientMethod", "PrimalDualHybridGradient", "ADMM"],
    }
    geoms = {
        "sense": [((4, 4), 3), ((3, 5), 4), ((2, 3, 2), 3), ((1, 6), 2)],
        "tv": [((4, 4), 3), ((3, 5), 4), ((2, 3, 2), 3)],
        "l1wav": [((4, 4), 3), ((2, 4, 2), 3), ((2, 8), 4)],
    }
    k = 0
    for kind in ["sense", "tv", "l1wav"]:
        for (shape, nc), solver in itertools.product(geoms[kind], solvers[kind]):
            if solver is not None and (shape, nc) not in geoms[kind][:2]:
                continue  # every geometry with the default solver only
            for cart, lam in itertools.product([True, False], [0, 0.05]):
                k += 1
                wmodes = ["none", "array", "mask"] if cart else ["none", "array"]
                wmode = wmodes[k % len(wmodes)]
                bs = [None, 1, 2, nc][k % 4]
                consistent = (lam == 0) or (k % 2 == 0)
                dtype = np.complex64 if k % 5 == 0 else np.complex128
                recon_case(kind, shape, nc, dtype, cart, wmode, lam, solver,
                           bs, consistent)


def scalar_weight_checks():
    """weights is documented as 'float or array': scalars must work too."""
    rng = np.random.default_rng(5)
    shape, nc = (4, 3), 3
    n = int(np.prod(shape))
    mps = rnd(rng, (nc,) + shape, np.complex128)
    img = rnd(rng, shape, np.complex128)
    y = cart_forward(img, mps, None) + 0.2 * rnd(
        rng, (nc,) + shape, np.complex128
    )
    for w in [0.5, np.float64(2.0), np.array(0.25)]:
        wv = float(w)
        for bs in [None, 1, 2]:
            tag = "scalar weights {!r} bs={}".format(w, bs)
            A = mr.linop.Sense(mps, weights=w, coil_batch_size=bs)
            e = rel_err(A(img), np.sqrt(wv) * cart_forward(img, mps, None))
            check(e <= 1e-12, tag + " forward err {:.3g}".format(e))
            e = rel_err(A.H(y), np.sqrt(wv) * cart_adjoint(y, mps, None))
            check(e <= 1e-12, tag + " adjoint err {:.3g}".format(e))
            lam = 0.1
            a = mr.app.SenseRecon(
                y, mps, lamda=lam, weights=w, coil_batch_size=bs,
                show_pbar=False, max_iter=3 * n,
            )
            x = a.run()
            Am = np.sqrt(wv) * explicit_cart_matrix(mps, None)
            x_ref = ref_minimise(Am, np.sqrt(wv) * y.ravel(), lam, None, 0)
            e = rel_err(x.ravel(), x_ref)
            check(e <= 1e-8, tag + " recon err {:.3g}".format(e))
            # the app works on the weighted data sqrt(w) * y
            check(
                rel_err(a.y, np.sqrt(wv) * y) <= 1e-14,
                tag + " app data is not sqrt(w) y",
            )


def main():
    model_checks()
    scalar_weight_checks()
    recon_checks()
    for key in sorted(worst):
        print("worst error/tolerance for {}: {:.3g}".format(key, worst[key]))
    print("{} checks, {} failures".format(nchecks, len(failures)))
    return 1 if failures else 0


if __name__ == "__main__":
    sys.exit(main())
