"""C01 demo for the block operators Hstack / Vstack / Diag (sigpy/linop.py).

Independent reference: every leaf operator is a matrix product with an
explicit random complex matrix (reference = numpy matmul), the block
structure is re-done with np.split / np.concatenate, and the adjoint
reference is the conjugate transpose of the dense matrix of that reference.
Exits 0 iff everything agrees.
"""
import sys

import numpy as np

from sigpy import linop

rng = np.random.RandomState(2024)
failures = []


def crandn(shape, dtype=np.complex128):
    a = rng.standard_normal(shape) + 1j * rng.standard_normal(shape)
    return a.astype(dtype)


def dense(fun, ishape, oshape):
    n = int(np.prod(ishape))
    M = np.zeros((int(np.prod(oshape)), n), dtype=complex)
    for c in range(n):
        e = np.zeros(n, dtype=complex)
        e[c] = 1
        M[:, c] = np.asarray(fun(e.reshape(ishape))).ravel()
    return M


def close(a, b, tol):
    a, b = np.asarray(a), np.asarray(b)
    if a.shape != b.shape:
        return False
    return np.abs(a - b).max() <= tol * max(1.0, np.abs(b).max())


class Leaf:
    """Library operator together with an independent reference function."""

    def __init__(self, op, fun):
        self.op, self.fun = op, fun
        self.ishape, self.oshape = list(op.ishape), list(op.oshape)


def left(m, n, k):  # [n, k] -> [m, k]
    mat = crandn((m, n))
    return Leaf(linop.MatMul([n, k], mat), lambda x, mat=mat: mat @ x)


def right(k, n, m):  # [k, n] -> [k, m]
    mat = crandn((n, m))
    return Leaf(linop.RightMatMul([k, n], mat), lambda x, mat=mat: x @ mat)


def scaled(leaf, a):
    return Leaf(a * leaf.op, lambda x: a * leaf.fun(x))


def conj(leaf):
    return Leaf(
        linop.Conj(leaf.op), lambda x: np.conj(leaf.fun(np.conj(x)))
    )


def plus(l1, l2):
    return Leaf(l1.op + l2.op, lambda x: l1.fun(x) + l2.fun(x))


def adj(leaf):
    M = dense(leaf.fun, leaf.ishape, leaf.oshape)
    return Leaf(
        leaf.op.H,
        lambda y: (M.conj().T @ y.ravel()).reshape(leaf.ishape),
    )


def split(x, sizes, axis):
    return np.split(x, np.cumsum(sizes)[:-1], axis=axis)


def hstack(leaves, axis):
    op = linop.Hstack([l.op for l in leaves], axis=axis)
    if axis is None:
        sizes = [int(np.prod(l.ishape)) for l in leaves]

        def fun(x):
            parts = split(x, sizes, 0)
            return sum(
                l.fun(p.reshape(l.ishape)) for l, p in zip(leaves, parts)
            )

    else:
        sizes = [l.ishape[axis] for l in leaves]

        def fun(x):
            parts = split(x, sizes, axis)
            return sum(l.fun(p) for l, p in zip(leaves, parts))

    return Leaf(op, fun)


def vstack(leaves, axis):
    op = linop.Vstack([l.op for l in leaves], axis=axis)
    if axis is None:

        def fun(x):
            return np.concatenate([l.fun(x).ravel() for l in leaves])

    else:

        def fun(x):
            return np.concatenate([l.fun(x) for l in leaves], axis=axis)

    return Leaf(op, fun)


def diag(leaves, oaxis, iaxis):
    op = linop.Diag([l.op for l in leaves], oaxis=oaxis, iaxis=iaxis)

    def fun(x):
        if iaxis is None:
            sizes = [int(np.prod(l.ishape)) for l in leaves]
            parts = [
                p.reshape(l.ishape)
                for l, p in zip(leaves, split(x, sizes, 0))
            ]
        else:
            parts = split(x, [l.ishape[iaxis] for l in leaves], iaxis)
        outs = [l.fun(p) for l, p in zip(leaves, parts)]
        if oaxis is None:
            return np.concatenate([o.ravel() for o in outs])
        return np.concatenate(outs, axis=oaxis)

    return Leaf(op, fun)


def check(name, leaf):
    A = leaf.op
    try:
        M = dense(leaf.fun, A.ishape, A.oshape)
    except Exception as e:  # reference disagrees about the shapes
        failures.append("%s: reference failed (%r)" % (name, e))
        return
    if list(A.H.ishape) != list(A.oshape) or list(A.H.oshape) != list(
        A.ishape
    ):
        failures.append(name + ": adjoint shapes not swapped")
    for dtype, tol in [
        (np.complex128, 1e-11),
        (np.complex64, 5e-5),
        (np.float64, 1e-11),
    ]:
        if dtype is np.float64:
            x = rng.standard_normal(A.ishape)
            y = rng.standard_normal(A.oshape)
        else:
            x, y = crandn(A.ishape, dtype), crandn(A.oshape, dtype)
        variants = [("contig", x, y)]
        if dtype is np.complex128:
            # non-contiguous views of bigger arrays
            bx = crandn([2 * s for s in A.ishape])
            by = crandn([2 * s for s in A.oshape])
            variants.append(
                (
                    "strided",
                    bx[tuple(slice(None, None, 2) for _ in A.ishape)],
                    by[tuple(slice(1, None, 2) for _ in A.oshape)],
                )
            )
        for vname, x, y in variants:
            tag = "%s [%s %s]" % (name, np.dtype(dtype).name, vname)
            x0, y0 = x.copy(), y.copy()
            x.flags.writeable = False
            y.flags.writeable = False
            Ax, AHy = A(x), A.H(y)
            if not close(Ax.ravel(), M @ x0.ravel(), tol):
                failures.append(tag + ": forward differs from reference")
            if not close(AHy.ravel(), M.conj().T @ y0.ravel(), tol):
                failures.append(tag + ": adjoint differs from M^H")
            if not close(A.H.H(x), Ax, tol):
                failures.append(tag + ": A.H.H differs from A")
            if not close(A.N(x).ravel(), M.conj().T @ (M @ x0.ravel()),
                         50 * tol):
                failures.append(tag + ": A.N differs from M^H M")
            lhs, rhs = np.vdot(y0, Ax), np.vdot(AHy, x0)
            if abs(lhs - rhs) > tol * max(1.0, abs(lhs)):
                failures.append(tag + ": <Ax,y> != <x,A^H y>")
            if not (np.array_equal(A(x), Ax) and np.array_equal(A.H(y), AHy)):
                failures.append(tag + ": not deterministic")
            if not (np.array_equal(x, x0) and np.array_equal(y, y0)):
                failures.append(tag + ": input mutated")
    a = -0.3 + 2.1j
    x1, x2 = crandn(A.ishape), crandn(A.ishape)
    if not close(A(a * x1 + x2), a * A(x1) + A(x2), 1e-11):
        failures.append(name + ": not C-linear")


# ---- Hstack / Vstack along axis 0 / -2 (blocks of left-multiplications)
for axis in [0, -2]:
    for ns in [[3], [2, 3], [1, 4, 1], [2, 1, 3, 2]]:
        k = 3 if len(ns) != 3 else 1  # also a size-1 trailing axis
        leaves = [left(4, n, k) for n in ns]
        check("Hstack axis=%d ns=%s" % (axis, ns), hstack(leaves, axis))
        leaves = [left(n, 4, k) for n in ns]
        check("Vstack axis=%d ms=%s" % (axis, ns), vstack(leaves, axis))

# ---- along the last axis (blocks of right-multiplications)
for axis in [1, -1]:
    for ns in [[2], [3, 1], [1, 2, 3]]:
        leaves = [right(2, n, 5) for n in ns]
        check("Hstack axis=%d ns=%s" % (axis, ns), hstack(leaves, axis))
        leaves = [right(2, 5, n) for n in ns]
        check("Vstack axis=%d ms=%s" % (axis, ns), vstack(leaves, axis))

# ---- vectorised stacking (axis=None) of operators with different shapes
leaves = [left(3, 2, 2), right(3, 4, 2), left(3, 1, 2)]
check("Hstack axis=None", hstack(leaves, None))
leaves = [left(2, 3, 2), right(3, 2, 5), left(1, 3, 2)]
check("Vstack axis=None", vstack(leaves, None))
check("Hstack axis=None single", hstack([left(3, 2, 2)], None))
check("Vstack axis=None single", vstack([left(3, 2, 2)], None))

# ---- Diag, all four axis combinations
check("Diag 0/0", diag([left(2, 3, 2), left(1, 2, 2), left(3, 1, 2)], 0, 0))
check("Diag -1/-1", diag([right(2, 3, 1), right(2, 2, 4)], -1, -1))
check("Diag None/0", diag([left(2, 3, 2), left(4, 2, 2)], None, 0))
check("Diag 0/None", diag([left(2, 3, 2), left(4, 2, 2)], 0, None))
check("Diag None/None", diag([left(2, 3, 2), right(3, 2, 4)], None, None))

# ---- expression trees as blocks, and nested stacks
l1, l2, l3, l4 = left(3, 2, 2), left(3, 3, 2), left(3, 1, 2), left(3, 2, 2)
tree = hstack(
    [scaled(l1, 1.5 - 2j), conj(l2), l3, plus(l4, scaled(left(3, 2, 2), 1j))],
    0,
)
check("Hstack of trees", tree)
check("adjoint of Hstack of trees", adj(tree))
v = vstack([tree, scaled(conj(tree), -1j)], -2)
check("Vstack of Hstacks", v)
check("adjoint of Vstack of Hstacks", adj(v))
h = hstack([adj(vstack([left(2, 3, 2), left(4, 3, 2)], 0)), left(3, 5, 2)], 0)
check("Hstack[(Vstack).H, MatMul]", h)
n1 = vstack(
    [
        hstack([left(2, 2, 1), left(2, 3, 1)], None),
        hstack([left(3, 2, 1), left(3, 3, 1)], None),
    ],
    None,
)
check("Vstack(None) of Hstack(None)", n1)

if failures:
    print("FAILED (%d):" % len(failures))
    for f in failures[:40]:
        print("  ", f)
    sys.exit(1)
print("ok")
sys.exit(0)
