"""C05 demo: sigpy.fft / sigpy.ifft are the centred unitary DFT and mutually
inverse.  Independent reference: explicit DFT matrices applied axis by axis
with np.tensordot, and an index-by-index centre-aligned pad/crop.

Also checks that a complex input keeps its precision when the backend fft promotes
(simulated numpy<2 behaviour).  Exits 0 iff every check passes.
"""
import itertools
import sys
import warnings

import numpy as np

import sigpy as sp

warnings.simplefilter("ignore")
rng = np.random.default_rng(2024)
failures = []
nchecks = 0


def dft_matrix(n, center, norm, inverse):
    c = n // 2 if center else 0
    k = np.arange(n) - c
    sign = 2j if inverse else -2j
    m = np.exp(sign * np.pi * np.outer(k, k) / n)
    if norm == "ortho":
        m = m / np.sqrt(n)
    elif inverse:
        m = m / n
    return m


def ref_resize_axis(x, axis, o):
    """out[j] = in[j - o//2 + i//2] when that index exists, else 0."""
    i = x.shape[axis]
    x = np.moveaxis(x, axis, 0)
    out = np.zeros((o,) + x.shape[1:], dtype=x.dtype)
    for j in range(o):
        src = j - o // 2 + i // 2
        if 0 <= src < i:
            out[j] = x[src]
    return np.moveaxis(out, 0, axis)


def ref_transform(x, oshape, axes, center, norm, inverse):
    x = np.asarray(x).astype(np.complex128)
    nd = x.ndim
    if oshape is not None:
        for a in range(nd):
            x = ref_resize_axis(x, a, oshape[a])
    if axes is None:
        axes = range(nd)
    for a in sorted(set(int(a) % nd for a in axes)):
        m = dft_matrix(x.shape[a], center, norm, inverse)
        x = np.moveaxis(np.tensordot(m, x, axes=([1], [a])), 0, a)
    return x


def relerr(a, b):
    a = np.asarray(a, dtype=np.complex128)
    b = np.asarray(b, dtype=np.complex128)
    den = np.linalg.norm(b.ravel())
    return np.linalg.norm((a - b).ravel()) / (den if den > 0 else 1.0)


def check(cond, msg):
    global nchecks
    nchecks += 1
    if not cond:
        failures.append(msg)


def rnd(shape, dtype):
    if np.issubdtype(dtype, np.complexfloating):
        return (rng.standard_normal(shape)
                + 1j * rng.standard_normal(shape)).astype(dtype)
    if np.issubdtype(dtype, np.integer):
        return rng.integers(-9, 9, shape).astype(dtype)
    return rng.standard_normal(shape).astype(dtype)


def expected_dtype(dtype):
    return dtype if np.issubdtype(dtype, np.complexfloating) else np.complex64


def tol_for(dtype):
    return 1e-11 if expected_dtype(dtype) == np.complex128 else 2e-5


def axes_sets(nd):
    sets = [None, (), range(-nd, 0)]
    for r in range(1, nd + 1):
        for c in itertools.combinations(range(nd), r):
            sets.append(tuple(c))
            sets.append([a - nd for a in c])
            if r > 1:
                # mixed sign, unsorted
                sets.append(tuple(a - nd if i % 2 else a
                                  for i, a in enumerate(reversed(c))))
    return sets


shapes = [(1,), (2,), (3,), (8,), (9,), (1, 1), (1, 5), (4, 3), (5, 6),
          (3, 1, 4), (2, 5, 3), (4, 4, 4), (2, 3, 1, 5), (3, 2, 4, 3)]
dtypes = [np.complex64, np.complex128, np.float32, np.float64, np.int32]

for shape in shapes:
    nd = len(shape)
    for dtype in dtypes:
        x = rnd(shape, dtype)
        # what the library transforms for real input: a complex64 cast
        xc = x if np.issubdtype(dtype, np.complexfloating) \
            else x.astype(np.complex64)
        x.setflags(write=False)
        keep = x.copy()
        tol = tol_for(dtype)
        for axes in axes_sets(nd):
            for center in (True, False):
                for norm in ("ortho", None):
                    oshapes = [None]
                    if center:
                        oshapes += [
                            tuple(s + 1 + (i % 2) for i, s in enumerate(shape)),
                            tuple(max(1, s - 1 - (i % 2))
                                  for i, s in enumerate(shape)),
                            tuple(s + 3 if i % 2 else max(1, s - 2)
                                  for i, s in enumerate(shape)),
                            tuple(shape),
                        ]
                    for osh in oshapes:
                        for inverse, fn in ((False, sp.fft), (True, sp.ifft)):
                            tag = "%s shape=%s dtype=%s axes=%r center=%s " \
                                  "norm=%s oshape=%s" % (
                                      fn.__name__, shape, np.dtype(dtype).name,
                                      axes, center, norm, osh)
                            y = fn(x, oshape=osh, axes=axes, center=center,
                                   norm=norm)
                            ref = ref_transform(xc, osh, axes, center, norm,
                                                inverse)
                            check(y.shape == ref.shape, "shape " + tag)
                            check(y.dtype == expected_dtype(dtype),
                                  "dtype %s " % y.dtype + tag)
                            if y.shape == ref.shape:
                                e = relerr(y, ref)
                                check(e < tol, "value err=%.2e " % e + tag)
                            # repeated call gives the same answer
                            y2 = fn(x, oshape=osh, axes=axes, center=center,
                                    norm=norm)
                            check(np.array_equal(y, y2), "repeat " + tag)
                    if norm == "ortho":
                        # unitary and mutually inverse
                        y = sp.fft(x, axes=axes, center=center)
                        back = sp.ifft(y, axes=axes, center=center)
                        tag = "shape=%s dtype=%s axes=%r center=%s" % (
                            shape, np.dtype(dtype).name, axes, center)
                        check(relerr(back, xc) < tol, "roundtrip " + tag)
                        back = sp.fft(sp.ifft(x, axes=axes, center=center),
                                      axes=axes, center=center)
                        check(relerr(back, xc) < tol, "roundtrip2 " + tag)
                        nx = np.linalg.norm(xc.astype(np.complex128).ravel())
                        ny = np.linalg.norm(y.astype(np.complex128).ravel())
                        check(abs(nx - ny) <= tol * max(nx, 1e-30),
                              "norm " + tag)
        check(np.array_equal(x, keep), "input mutated shape=%s" % (shape,))

# non-contiguous, read-only views and Fortran order
base = rnd((7, 6, 5), np.complex128)
views = {
    "transposed": base.transpose(2, 0, 1),
    "strided": base[::2, 1::2, ::-1],
    "fortran": np.asfortranarray(base),
    "broadcast": np.broadcast_to(base[:1, :, :1], (3, 6, 4)),
}
for name, v in views.items():
    v = v.view()
    v.setflags(write=False)
    for axes in (None, (0,), (-1, 1), (2, 0), ()):
        for osh in (None, tuple(s + 2 for s in v.shape),
                    tuple(max(1, s - 2) for s in v.shape)):
            for inverse, fn in ((False, sp.fft), (True, sp.ifft)):
                y = fn(v, oshape=osh, axes=axes)
                ref = ref_transform(v, osh, axes, True, "ortho", inverse)
                e = relerr(y, ref)
                check(y.dtype == np.complex128 and e < 1e-11,
                      "view %s axes=%r oshape=%s %s err=%.2e" % (
                          name, axes, osh, fn.__name__, e))

# delta at the centre index maps to a constant (origin is n // 2)
for n in (1, 2, 5, 8):
    d = np.zeros(n, np.complex128)
    d[n // 2] = 1
    check(np.allclose(sp.fft(d), np.full(n, n ** -0.5)), "delta fft n=%d" % n)
    check(np.allclose(sp.ifft(d), np.full(n, n ** -0.5)), "delta ifft n=%d" % n)
    d = np.zeros(n, np.complex128)
    d[0] = 1
    check(np.allclose(sp.fft(d, center=False), np.full(n, n ** -0.5)),
          "delta0 fft n=%d" % n)

# the linear operators built on top
F = sp.linop.FFT((5, 4, 3), axes=(-1, 0))
x = rnd((5, 4, 3), np.complex128)
check(relerr(F(x), ref_transform(x, None, (-1, 0), True, "ortho", False))
      < 1e-11, "linop FFT")
check(relerr(F.H(F(x)), x) < 1e-11, "linop FFT adjoint is inverse")
check(relerr(F.N(x), x) < 1e-11, "linop FFT normal is identity")
y = rnd((5, 4, 3), np.complex128)
check(abs(np.vdot(F(x), y) - np.vdot(x, F.H(y))) < 1e-10, "linop adjoint")

# ---- precision is kept even if the backend's fft promotes complex64 to
# complex128 (numpy < 2 behaviour), simulated by wrapping numpy.fft.
_orig = (np.fft.fftn, np.fft.ifftn)


def _promoting(f):
    def g(a, *args, **kwargs):
        return f(np.asarray(a, dtype=np.complex128), *args, **kwargs)
    return g


np.fft.fftn, np.fft.ifftn = _promoting(_orig[0]), _promoting(_orig[1])
try:
    for dtype in (np.complex64, np.complex128, np.float32, np.float64):
        x = rnd((3, 4, 5), dtype)
        xc = x if np.issubdtype(dtype, np.complexfloating) \
            else x.astype(np.complex64)
        for center in (True, False):
            for axes in (None, (1,), (-1, 0)):
                for inverse, fn in ((False, sp.fft), (True, sp.ifft)):
                    y = fn(x, axes=axes, center=center)
                    ref = ref_transform(xc, None, axes, center, "ortho",
                                        inverse)
                    check(y.dtype == expected_dtype(dtype)
                          and relerr(y, ref) < tol_for(dtype),
                          "promoting backend %s %s center=%s axes=%r" % (
                              fn.__name__, np.dtype(dtype).name, center, axes))
finally:
    np.fft.fftn, np.fft.ifftn = _orig

# calling with positional arguments, and a 0-d-free sanity check of defaults
x = rnd((4, 5), np.complex64)
check(np.array_equal(sp.fft(x, None, (0,), True, "ortho"),
                     sp.fft(x, axes=(0,))), "positional fft")
check(np.array_equal(sp.ifft(x, (6, 5), None, True, None),
                     sp.ifft(x, oshape=(6, 5), norm=None)), "positional ifft")

print("checks: %d, failures: %d" % (nchecks, len(failures)))
for f in failures[:30]:
    print("FAIL", f)
sys.exit(1 if failures else 0)
