#!/venv/bin/python
"""Regenerate the seeded-changes table in DESIGN.md (between the SEEDED markers) from seeded/*/meta.json."""
import glob, json, os, re
HERE = os.path.dirname(os.path.dirname(os.path.abspath(__file__)))
rows = ["| Seeded change | Breaks | Needs to manifest | Repo tests | Detected by (quick tier) | Finding keys |", "|---|---|---|---|---|---|"]
for mp in sorted(glob.glob(os.path.join(HERE, "seeded", "*", "meta.json"))):
    m = json.load(open(mp))
    name = os.path.basename(os.path.dirname(mp))
    det = ", ".join("%s%s" % (c, "" if v["detected"] else " (missed)") for c, v in m["checks"].items())
    keys = "; ".join(sorted({k for v in m["checks"].values() if v["detected"] for k in v["keys"][:2]}))[:160]
    rows.append("| `%s` | %s | %s | %s | %s | %s |" % (name, m["property"], m.get("needs", "see notes.md"), (m.get("repo_tests") or {}).get("summary", "-").split(" in ")[0], det, keys))
p = os.path.join(HERE, "DESIGN.md")
s = open(p).read()
block = "<!-- SEEDED:BEGIN -->\n" + "\n".join(rows) + "\n<!-- SEEDED:END -->"
if "SEEDED_TABLE" in s:
    s = s.replace("SEEDED_TABLE", block)
else:
    s = re.sub(r"<!-- SEEDED:BEGIN -->.*?<!-- SEEDED:END -->", lambda _: block, s, flags=re.S)
open(p, "w").write(s)
print("\n".join(rows))
