#!/venv/bin/python
"""Sensitivity helper: apply a patch to a scratch copy of /repo/sigpy and run checks there.

usage: tools/mut.py <patch.diff> <Cnn>[,Cmm..] [--tier quick] [--seed N] [--tests tests/test_x.py]
The scratch copy lives under /tmp and is removed afterwards; /repo is never touched.
Exit 0 if every named check reported a VIOLATION (mutant killed), 1 otherwise.
"""
import argparse, os, shutil, subprocess, sys, tempfile

HERE = os.path.dirname(os.path.dirname(os.path.abspath(__file__)))
ap = argparse.ArgumentParser()
ap.add_argument("patch"); ap.add_argument("props")
ap.add_argument("--tier", default="quick"); ap.add_argument("--seed", default="1")
ap.add_argument("--tests", default=None, help="also run these repo tests against the mutant (must pass)")
ap.add_argument("--part", default=None)
a = ap.parse_args()
d = tempfile.mkdtemp(prefix="sigpy-mut-")
try:
    subprocess.check_call(["git", "-C", "/repo", "worktree", "add", "--detach", "-f", d + "/r", "HEAD"],
                          stdout=subprocess.DEVNULL, stderr=subprocess.DEVNULL)
    # carry over uncommitted state of /repo too (checks must reflect the working tree)
    diff = subprocess.run(["git", "-C", "/repo", "diff", "HEAD"], capture_output=True, text=True).stdout
    if diff.strip():
        subprocess.run(["git", "-C", d + "/r", "apply"], input=diff, text=True, check=True)
    subprocess.check_call(["git", "-C", d + "/r", "apply", os.path.abspath(a.patch)])
    env = dict(os.environ, VERIF_REPO=d + "/r", VERIF_SEED=a.seed, VERIF_NO_EVIDENCE="1")
    allk = True
    if a.tests:
        p = subprocess.run(["/venv/bin/python", "-m", "pytest", "-q", "-x", "-p", "no:cacheprovider"] + a.tests.split(","),
                           cwd=d + "/r", env=dict(os.environ, PYTHONPATH=d + "/r"), capture_output=True, text=True)
        print("repo tests on mutant:", p.stdout.strip().splitlines()[-1] if p.stdout.strip() else p.stderr[-300:])
    for prop in a.props.split(","):
        cmd = [os.path.join(HERE, "vcheck.py"), "--prop", prop, "--tier", a.tier]
        if a.part:
            cmd += ["--part", a.part]
        p = subprocess.run(cmd, env=env, capture_output=True, text=True)
        v = [l for l in p.stdout.splitlines() if l.startswith("VIOLATION") or "violated sub-claim" in l]
        killed = p.returncode == 1 and any(l.startswith("VIOLATION") for l in v)
        print("%s %s: %s (rc=%d)" % (os.path.basename(a.patch), prop, "KILLED" if killed else "SURVIVED", p.returncode))
        for l in v[:4]:
            print("   " + l[:300])
        if not killed:
            print(p.stdout[-600:]); print(p.stderr[-600:])
            allk = False
finally:
    subprocess.run(["git", "-C", "/repo", "worktree", "remove", "--force", d + "/r"], stdout=subprocess.DEVNULL, stderr=subprocess.DEVNULL)
    shutil.rmtree(d, ignore_errors=True)
    subprocess.run(["git", "-C", "/repo", "worktree", "prune"])
sys.exit(0 if allk else 1)
