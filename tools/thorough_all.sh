#!/bin/sh
# run every thorough tier sequentially (for `vp run`); prints one summary line per property
cd "$(dirname "$0")/.." && ./setup.sh >/dev/null 2>&1
for p in ${PROPS:-C09 C05 C20 C10 C08 C03 C01 C02 C04 C06 C07 C11 C12 C13 C15 C18 C19 C17 C16 C14}; do
  VERIF_NO_EVIDENCE=${VERIF_NO_EVIDENCE:-1} ./vcheck.py --prop $p --tier thorough 2>&1 | grep -E "VIOLATION|violated|HARNESS|thorough seed" | cut -c1-400
done
