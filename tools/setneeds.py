#!/venv/bin/python
"""tools/setneeds.py <seed-name> <text>: record what a seeded change needs in order to manifest (meta.json 'needs')."""
import json, os, sys
HERE = os.path.dirname(os.path.dirname(os.path.abspath(__file__)))
p = os.path.join(HERE, "seeded", sys.argv[1], "meta.json")
m = json.load(open(p)); m["needs"] = sys.argv[2]
json.dump(m, open(p, "w"), indent=1)
