#!/bin/sh
# quick tier of the named properties at several seeds (for `vp run`); one summary line per run
cd "$(dirname "$0")/.." && ./setup.sh >/dev/null 2>&1
for s in ${SEEDS:-2 3 4 5}; do
  for p in ${PROPS:-C01 C02 C03 C04 C05 C06 C07 C08 C09 C10 C11 C12 C13 C14 C15 C16 C17 C18 C19 C20}; do
    VERIF_SEED=$s VERIF_NO_EVIDENCE=1 ./vcheck.py --prop $p --tier quick 2>&1 | grep -E "VIOLATION|violated|HARNESS|quick seed" | cut -c1-400
  done
done
