#!/venv/bin/python
"""Regenerate MANIFEST.json from the table below (kept in one place so it stays valid)."""
import glob, json, os
HERE = os.path.dirname(os.path.dirname(os.path.abspath(__file__)))
props = [json.loads(l) for l in open(os.path.join(HERE, "properties.jsonl"))]
# property -> (technique, level text, level note, DESIGN section)
T = {
 "C09": ("Hypothesis-generated configurations on uniquely labelled arrays (C/Fortran/strided/negative-stride layouts) vs closed index-formula oracle (exact equality); finite sub-domains (1-D lengths, block triples, every in-range down/upsample shift) enumerated completely; empty axes subsets; one long axis; integer dtypes; first call repeated after its result was overwritten",
         "Generated search over shapes/shifts/factors/block geometry in 1-3(+batch) dims with an index-exact oracle: every generated configuration's whole index map is decided by one call. No proof of absence beyond the sizes explored (axes <= 12).",
         "Trusts numpy indexing and the harness's loop oracle; CPU backend only; sizes bounded as stated in evidence.rule."),
}
T.update(json.load(open(os.path.join(HERE, "tools", "manifest_table.json"))) if os.path.exists(os.path.join(HERE, "tools", "manifest_table.json")) else {})
checks, na = [], []
for p in props:
    pid = p["id"]
    have = glob.glob(os.path.join(HERE, "checks", pid.lower() + "_*.py"))
    if pid in T and have:
        tech, text, note = T[pid][:3]
        checks.append({
            "property_id": pid,
            "quick_cmd": "./vcheck.py --prop %s --tier quick" % pid,
            "thorough_cmd": "./vcheck.py --prop %s --tier thorough" % pid,
            "evidence_file": "evidence/%s.json" % pid,
            "replay_cmd_template": "./vcheck.py --prop %s --replay {path}" % pid,
            "engine": "vcheck",
            "level_claimed": {"category": "exploration", "text": text, "design_ref": "DESIGN.md section 4, %s" % pid},
            "level_note": note,
            "technique": tech,
        })
    else:
        na.append({"property_id": pid, "reason": "check not built yet in this round (planned: property-based testing, see DESIGN.md section 4 %s); not claimed until its check is registered" % pid})
m = {
 "version": 1,
 "setup_cmd": "./setup.sh",
 "hooks": {"guard": "SIGPY_VERIF", "enable": "no source hooks are needed: every observation is public API; checks import sigpy from /repo's working tree (VERIF_REPO overrides)",
           "baseline_off_cmd": "cd /repo && /venv/bin/python -m pytest -ra -q -p no:cacheprovider --timeout=900 --continue-on-collection-errors",
           "source_commits": [], "add_only": True},
 "engines": [{"name": "vcheck", "path": "vcheck.py", "serves_properties": [c["property_id"] for c in checks],
              "kind_free_text": "Hypothesis 6.168 (@given + RuleBasedStateMachine) sharded over 16 fresh processes; plain-JSON replays; known-findings matching"}],
 "checks": checks,
 "not_applicable": na,
 "notes": "All checks: VERIF_SEED selects the Hypothesis seeds; exit 0 held / 1 VIOLATION / 2 harness error. See DESIGN.md.",
}
json.dump(m, open(os.path.join(HERE, "MANIFEST.json"), "w"), indent=1)
try:
    import sys; sys.path.insert(0, os.path.join(HERE, ".deps"))
    import jsonschema
    jsonschema.validate(m, json.load(open("/root/.vp/MANIFEST.schema.json")))
    print("MANIFEST valid: %d checks, %d not claimed" % (len(checks), len(na)))
except ImportError:
    print("written (jsonschema unavailable)")
