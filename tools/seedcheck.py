#!/venv/bin/python
"""Verify a seeded breaking change and run the checks against it.

usage: tools/seedcheck.py <seed-dir> <Cnn> [--checks Cnn,Cmm] [--tests tests/a.py,tests/b.py] [--name NAME] [--tier quick]
<seed-dir> holds patch.diff, demo.py, notes.md (written by an independent sub-agent that saw only the property text).
Steps (all in a scratch worktree of /repo HEAD under /tmp, removed afterwards): demo on the unchanged tree must exit 0;
apply patch; demo must exit 1; named repo tests must pass; each named check is run with VERIF_REPO pointing at the
patched tree. Results are stored in /verif/seeded/<NAME>/ (patch.diff, demo.py, notes.md, meta.json).
"""
import argparse, json, os, shutil, subprocess, sys, tempfile, time
HERE = os.path.dirname(os.path.dirname(os.path.abspath(__file__)))
ap = argparse.ArgumentParser()
ap.add_argument("seed_dir"); ap.add_argument("prop")
ap.add_argument("--checks"); ap.add_argument("--tests", default=""); ap.add_argument("--name"); ap.add_argument("--tier", default="quick")
ap.add_argument("--seed", default="1")
a = ap.parse_args()
name = a.name or a.prop
checks = (a.checks or a.prop).split(",")
d = tempfile.mkdtemp(prefix="sigpy-seed-")
wt = d + "/r"
meta = {"property": a.prop, "name": name, "verified_at_repo_commit": subprocess.check_output(["git", "-C", "/repo", "rev-parse", "--short", "HEAD"], text=True).strip()}
def run(cmd, **kw):
    return subprocess.run(cmd, capture_output=True, text=True, **kw)
try:
    subprocess.check_call(["git", "-C", "/repo", "worktree", "add", "--detach", "-f", wt, "HEAD"], stdout=subprocess.DEVNULL, stderr=subprocess.DEVNULL)
    env = dict(os.environ, PYTHONPATH=wt)
    demo = os.path.join(a.seed_dir, "demo.py")
    p0 = run(["/venv/bin/python", demo], cwd=wt, env=env, timeout=3000)
    meta["demo_unchanged_rc"] = p0.returncode
    subprocess.check_call(["git", "-C", wt, "apply", os.path.abspath(os.path.join(a.seed_dir, "patch.diff"))])
    p1 = run(["/venv/bin/python", demo], cwd=wt, env=env, timeout=3000)
    meta["demo_patched_rc"] = p1.returncode
    meta["demo_patched_tail"] = (p1.stdout + p1.stderr)[-600:]
    if a.tests:
        pt = run(["/venv/bin/python", "-m", "pytest", "-q", "-p", "no:cacheprovider"] + a.tests.split(","), cwd=wt, env=env, timeout=6000)
        meta["repo_tests"] = {"files": a.tests.split(","), "rc": pt.returncode, "summary": (pt.stdout.strip().splitlines() or [""])[-1]}
    meta["checks"] = {}
    for c in checks:
        t0 = time.time()
        pc = run([os.path.join(HERE, "vcheck.py"), "--prop", c, "--tier", a.tier], env=dict(os.environ, VERIF_REPO=wt, VERIF_SEED=a.seed, VERIF_NO_EVIDENCE="1"), timeout=20000)
        keys = [l.strip()[len("violated sub-claim "):].split(": ")[0] for l in pc.stdout.splitlines() if "violated sub-claim" in l]
        meta["checks"][c] = {"rc": pc.returncode, "detected": pc.returncode == 1, "keys": keys[:8], "wall_s": round(time.time() - t0, 1), "tier": a.tier, "seed": a.seed}
    ok = meta["demo_unchanged_rc"] == 0 and meta["demo_patched_rc"] != 0 and (not a.tests or meta["repo_tests"]["rc"] == 0)
    meta["confirmed"] = ok
    meta["detected_by"] = [c for c, v in meta["checks"].items() if v["detected"]]
finally:
    subprocess.run(["git", "-C", "/repo", "worktree", "remove", "--force", wt], stdout=subprocess.DEVNULL, stderr=subprocess.DEVNULL)
    shutil.rmtree(d, ignore_errors=True)
    subprocess.run(["git", "-C", "/repo", "worktree", "prune"])
out = os.path.join(HERE, "seeded", name)
os.makedirs(out, exist_ok=True)
for f in ("patch.diff", "demo.py", "notes.md"):
    if os.path.exists(os.path.join(a.seed_dir, f)):
        shutil.copy(os.path.join(a.seed_dir, f), os.path.join(out, f))
old = {}
if os.path.exists(os.path.join(out, "meta.json")):
    old = json.load(open(os.path.join(out, "meta.json")))
meta["history"] = old.get("history", []) + ([{k: old[k] for k in ("checks", "verified_at_repo_commit") if k in old}] if old else [])
json.dump(meta, open(os.path.join(out, "meta.json"), "w"), indent=1)
print(json.dumps({k: meta[k] for k in ("confirmed", "demo_unchanged_rc", "demo_patched_rc", "detected_by")}), meta.get("repo_tests", {}).get("summary"))
for c, v in meta["checks"].items():
    print(" ", c, "DETECTED" if v["detected"] else "MISSED", v["keys"][:3], "%.0fs" % v["wall_s"])
