#!/venv/bin/python
"""Re-run the check of the property each kept seeded change breaks (detection regression after the checks changed).

usage: tools/reseed.py [--jobs 4] [--only PREFIX] ; writes meta["recheck"] and prints one line per seed."""
import argparse, glob, json, os, shutil, subprocess, tempfile, time
from multiprocessing import Pool
HERE = os.path.dirname(os.path.dirname(os.path.abspath(__file__)))
ap = argparse.ArgumentParser(); ap.add_argument("--jobs", type=int, default=4); ap.add_argument("--only", default=""); ap.add_argument("--seed", default="1"); ap.add_argument("--nowrite", action="store_true")
a = ap.parse_args()
verif_commit = subprocess.check_output(["git", "-C", HERE, "rev-parse", "--short", "HEAD"], text=True).strip()

def one(mp):
    sd = os.path.dirname(mp)
    m = json.load(open(mp))
    prop = m["property"]
    d = tempfile.mkdtemp(prefix="sigpy-reseed-")
    wt = d + "/r"
    t0 = time.time()
    try:
        subprocess.check_call(["git", "-C", "/repo", "worktree", "add", "--detach", "-f", wt, "HEAD"], stdout=subprocess.DEVNULL, stderr=subprocess.DEVNULL)
        subprocess.check_call(["git", "-C", wt, "apply", os.path.join(sd, "patch.diff")])
        pc = subprocess.run([os.path.join(HERE, "vcheck.py"), "--prop", prop, "--tier", "quick", "--shards", "8"], capture_output=True, text=True,
                            env=dict(os.environ, VERIF_REPO=wt, VERIF_SEED=a.seed, VERIF_NO_EVIDENCE="1", OMP_NUM_THREADS="1"), timeout=20000)
        keys = [l.strip()[len("violated sub-claim "):].split(": ")[0] for l in pc.stdout.splitlines() if "violated sub-claim" in l]
        res = {"verif_commit": verif_commit, "check": prop, "rc": pc.returncode, "detected": pc.returncode == 1, "keys": keys[:6], "wall_s": round(time.time() - t0, 1)}
    except Exception as e:
        res = {"verif_commit": verif_commit, "check": prop, "rc": None, "detected": False, "error": repr(e)[:300]}
    finally:
        subprocess.run(["git", "-C", "/repo", "worktree", "remove", "--force", wt], stdout=subprocess.DEVNULL, stderr=subprocess.DEVNULL)
        shutil.rmtree(d, ignore_errors=True)
    if not a.nowrite:
        m["recheck"] = res
        json.dump(m, open(mp, "w"), indent=1)
    return os.path.basename(sd), res

if __name__ == "__main__":
    mps = sorted(p for p in glob.glob(os.path.join(HERE, "seeded", "*", "meta.json")) if os.path.basename(os.path.dirname(p)).startswith(a.only))
    with Pool(a.jobs) as pool:
        for name, res in pool.imap_unordered(one, mps):
            print("%-60s %s %s %s" % (name, "DETECTED" if res["detected"] else "MISSED  ", res.get("keys", [])[:2], res.get("error", "")), flush=True)
    subprocess.run(["git", "-C", "/repo", "worktree", "prune"])
