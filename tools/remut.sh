#!/bin/sh
# re-run every sensitivity mutant against the check of its property (3 at a time); prints KILLED / SURVIVED per mutant
cd "$(dirname "$0")/.."
ls mutants/*/*.patch | while read p; do c=$(basename $(dirname $p)); echo "$p $c"; done | xargs -P ${JOBS:-3} -L 1 sh -c 'tools/mut.py $0 $1 2>&1 | grep -E "KILLED|SURVIVED|survived|NOT" | head -1'
