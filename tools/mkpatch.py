#!/venv/bin/python
"""mkpatch.py <out.patch> <repo-relative file> <old> <new> [<file> <old> <new> ...]: build a unified diff against /repo HEAD+worktree
by replacing the first occurrence of <old> (must be unique) with <new>. Strings use \\n for newlines."""
import difflib, sys
out = sys.argv[1]; args = sys.argv[2:]
chunks = []
files = {}
for k in range(0, len(args), 3):
    f, old, new = args[k], args[k+1].encode().decode('unicode_escape'), args[k+2].encode().decode('unicode_escape')
    src = files.get(f) or open('/repo/' + f).read()
    if src.count(old) != 1:
        sys.exit("pattern occurs %d times in %s: %r" % (src.count(old), f, old))
    files[f] = src.replace(old, new)
for f, new in files.items():
    src = open('/repo/' + f).read()
    chunks.append(''.join(difflib.unified_diff(src.splitlines(True), new.splitlines(True), 'a/' + f, 'b/' + f)))
open(out, 'w').write(''.join(chunks))
print("wrote", out)
