#!/venv/bin/python
"""Run the checks against a BEHAVIOUR-PRESERVING change (control group: the checks must stay silent).

usage: tools/prescheck.py <dir with patch.diff demo.py notes.md> <name> --checks Cnn,Cmm [--seed N]
In a scratch worktree of /repo HEAD (removed afterwards): demo must exit 0 unchanged and patched; each named check is
run (quick tier) with VERIF_REPO pointing at the patched tree and must exit 0. Results go to /verif/preserving/<name>/.
"""
import argparse, json, os, shutil, subprocess, sys, tempfile, time
HERE = os.path.dirname(os.path.dirname(os.path.abspath(__file__)))
ap = argparse.ArgumentParser()
ap.add_argument("src"); ap.add_argument("name"); ap.add_argument("--checks", required=True); ap.add_argument("--seed", default="1")
a = ap.parse_args()
d = tempfile.mkdtemp(prefix="sigpy-pres-")
wt = d + "/r"
meta = {"name": a.name, "kind": "behaviour-preserving", "verified_at_repo_commit": subprocess.check_output(["git", "-C", "/repo", "rev-parse", "--short", "HEAD"], text=True).strip()}
def run(cmd, **kw):
    return subprocess.run(cmd, capture_output=True, text=True, **kw)
try:
    subprocess.check_call(["git", "-C", "/repo", "worktree", "add", "--detach", "-f", wt, "HEAD"], stdout=subprocess.DEVNULL, stderr=subprocess.DEVNULL)
    env = dict(os.environ, PYTHONPATH=wt, OMP_NUM_THREADS="1", OPENBLAS_NUM_THREADS="1", NUMBA_NUM_THREADS="1")
    demo = os.path.join(a.src, "demo.py")
    meta["demo_unchanged_rc"] = run(["/venv/bin/python", demo], cwd=wt, env=env, timeout=3000).returncode
    subprocess.check_call(["git", "-C", wt, "apply", os.path.abspath(os.path.join(a.src, "patch.diff"))])
    p1 = run(["/venv/bin/python", demo], cwd=wt, env=env, timeout=3000)
    meta["demo_patched_rc"] = p1.returncode
    meta["checks"] = {}
    for c in a.checks.split(","):
        t0 = time.time()
        pc = run([os.path.join(HERE, "vcheck.py"), "--prop", c, "--tier", "quick"], env=dict(os.environ, VERIF_REPO=wt, VERIF_SEED=a.seed, VERIF_NO_EVIDENCE="1"), timeout=20000)
        keys = [l.strip()[len("violated sub-claim "):][:300] for l in pc.stdout.splitlines() if "violated sub-claim" in l]
        errs = [l for l in pc.stderr.splitlines() if "HARNESS-ERROR" in l][:2]
        meta["checks"][c] = {"rc": pc.returncode, "quiet": pc.returncode == 0, "alarms": keys[:6], "harness": errs, "wall_s": round(time.time() - t0, 1)}
finally:
    subprocess.run(["git", "-C", "/repo", "worktree", "remove", "--force", wt], stdout=subprocess.DEVNULL, stderr=subprocess.DEVNULL)
    shutil.rmtree(d, ignore_errors=True)
    subprocess.run(["git", "-C", "/repo", "worktree", "prune"])
out = os.path.join(HERE, "preserving", a.name)
os.makedirs(out, exist_ok=True)
for f in ("patch.diff", "demo.py", "notes.md"):
    if os.path.exists(os.path.join(a.src, f)) and os.path.abspath(os.path.join(a.src, f)) != os.path.abspath(os.path.join(out, f)):
        shutil.copy(os.path.join(a.src, f), os.path.join(out, f))
json.dump(meta, open(os.path.join(out, "meta.json"), "w"), indent=1)
print(a.name, "demo", meta.get("demo_unchanged_rc"), meta.get("demo_patched_rc"))
for c, v in meta.get("checks", {}).items():
    print("  ", c, "quiet" if v["quiet"] else "ALARM rc=%s" % v["rc"], v["alarms"][:3], v["harness"][:1], "%.0fs" % v["wall_s"])
