"""JSON array specs <-> numpy arrays, and Hypothesis strategies that emit specs.

A spec is a small dict that determines the array completely (so replays hold
the explicit input) :

  {"k":"dy","shape":[..],"dtype":d,"re":[ints],"im":[ints]|None,"den":8}   dyadic rationals
  {"k":"g","shape":[..],"dtype":d,"seed":n}      gaussian from default_rng(seed)
  {"k":"lab","shape":[..],"dtype":d}             labels 1..N (unique -> index maps are decided)
  {"k":"ri","shape":[..],"dtype":d,"seed":n,"lo":a,"hi":b}   random integers
  {"k":"sp","shape":[..],"dtype":d,"which":"zeros|ones|delta|imag","idx":n}
"""
import numpy as np
from hypothesis import strategies as st

CDT = ("complex128", "complex64")
RDT = ("float64", "float32")


def prod(shape):
    p = 1
    for s in shape:
        p *= int(s)
    return p


def arr(spec):
    shape = tuple(spec["shape"])
    dt = np.dtype(spec["dtype"])
    n = prod(shape)
    k = spec["k"]
    if k == "dy":
        a = np.array(spec["re"], dtype=np.float64) / spec.get("den", 8)
        if spec.get("im") is not None and dt.kind == "c":
            a = a + 1j * np.array(spec["im"], dtype=np.float64) / spec.get("den", 8)
        return a.reshape(shape).astype(dt)
    if k == "g":
        rng = np.random.default_rng(spec["seed"])
        a = rng.standard_normal(n)
        if dt.kind == "c":
            a = a + 1j * rng.standard_normal(n)
        return a.reshape(shape).astype(dt)
    if k == "lab":
        a = np.arange(1, n + 1, dtype=np.float64)
        if dt.kind == "c":
            a = a + 1j * (a + 0.5)
        return a.reshape(shape).astype(dt)
    if k == "ri":
        rng = np.random.default_rng(spec["seed"])
        a = rng.integers(spec["lo"], spec["hi"] + 1, size=n).astype(np.float64)
        if dt.kind == "c":
            a = a + 1j * rng.integers(spec["lo"], spec["hi"] + 1, size=n)
        return a.reshape(shape).astype(dt)
    if k == "sp":
        w = spec["which"]
        if w == "zeros":
            return np.zeros(shape, dt)
        if w == "ones":
            return np.ones(shape, dt)
        if w == "delta":
            a = np.zeros(n, dt)
            if n:
                a[spec.get("idx", 0) % n] = 1
            return a.reshape(shape)
        if w == "imag":
            a = np.zeros(n, dt)
            rng = np.random.default_rng(spec.get("idx", 0))
            v = rng.integers(-8, 9, size=n) / 4.0
            return (a + (1j * v if dt.kind == "c" else v)).reshape(shape).astype(dt)
    raise ValueError("bad array spec %r" % (spec,))


# -------------------------------------------------------------------- strategies

seeds = st.integers(0, 2 ** 31 - 1)


@st.composite
def shapes(draw, min_dims=1, max_dims=3, lo=1, hi=6, max_size=400):
    nd = draw(st.integers(min_dims, max_dims))
    out = []
    for _ in range(nd):
        room = max(lo, min(hi, max_size // max(1, prod(out))))
        out.append(draw(st.integers(lo, room)))
    return out


def dyadic(shape, dtype, lim=16, den=8):
    n = prod(shape)
    ints = st.lists(st.integers(-lim, lim), min_size=n, max_size=n)
    if np.dtype(dtype).kind == "c":
        return st.builds(lambda re, im: {"k": "dy", "shape": list(shape), "dtype": dtype, "re": re, "im": im, "den": den},
                         ints, ints)
    return st.builds(lambda re: {"k": "dy", "shape": list(shape), "dtype": dtype, "re": re, "im": None, "den": den}, ints)


def gaussian(shape, dtype):
    return st.builds(lambda s: {"k": "g", "shape": list(shape), "dtype": dtype, "seed": s}, seeds)


def special(shape, dtype):
    return st.builds(lambda w, i: {"k": "sp", "shape": list(shape), "dtype": dtype, "which": w, "idx": i},
                     st.sampled_from(["zeros", "ones", "delta", "imag"]), st.integers(0, 10 ** 6))


def labels(shape, dtype):
    return st.just({"k": "lab", "shape": list(shape), "dtype": dtype})


def randint(shape, dtype, lo=-9, hi=9):
    return st.builds(lambda s: {"k": "ri", "shape": list(shape), "dtype": dtype, "seed": s, "lo": lo, "hi": hi}, seeds)


def arrays(shape, dtype, small_explicit=24):
    """Default mix: gaussian (breadth), dyadic explicit (exact, shrinks), special."""
    opts = [gaussian(shape, dtype), special(shape, dtype)]
    if prod(shape) <= small_explicit:
        opts.insert(0, dyadic(shape, dtype))
    else:
        opts.insert(0, randint(shape, dtype))
    return st.one_of(*opts)


def dtypes(complex_only=False, real_only=False):
    if complex_only:
        return st.sampled_from(CDT)
    if real_only:
        return st.sampled_from(RDT)
    return st.sampled_from(CDT + RDT)


def tol_for(*dts):
    """Relative tolerance for identities exact in real arithmetic."""
    single = any(np.dtype(d) in (np.dtype("float32"), np.dtype("complex64")) for d in dts)
    return 2e-4 if single else 1e-9


def axes_subset(ndim, allow_none=True, nonempty=True, negative=True, allow_empty=False):
    """A subset of axes in arbitrary order, entries possibly given as negative aliases.  allow_empty: about one in
    twenty draws is the empty subset (the operation over no axes is the identity)."""
    @st.composite
    def _s(draw):
        if allow_empty and draw(st.sampled_from([False] * 19 + [True])):
            return []
        if allow_none and draw(st.integers(0, 5)) == 0:
            return None
        idx = draw(st.lists(st.integers(0, ndim - 1), min_size=1 if nonempty else 0, max_size=ndim, unique=True))
        out = []
        for a in idx:
            if negative and draw(st.booleans()):
                out.append(a - ndim)
            else:
                out.append(a)
        return out
    return _s()


LAYOUTS = ("c", "c", "f", "strided", "revstride", "ro")


def relayout(a, kind):
    """Same values, different memory layout (C / Fortran order / every-other-element view / negative stride / read-only)."""
    a = np.asarray(a)
    if kind == "f" and a.ndim >= 2:
        return np.asfortranarray(a)
    if kind == "strided" and a.ndim >= 1 and a.shape[-1] >= 1:
        big = np.zeros(a.shape[:-1] + (2 * a.shape[-1],), dtype=a.dtype)
        big[..., ::2] = a
        return big[..., ::2]
    if kind == "revstride" and a.ndim >= 1:
        return np.ascontiguousarray(a[::-1])[::-1]
    if kind == "ro":
        # a read-only array (e.g. a memory-mapped file, a broadcast view): valid wherever inputs are not modified
        b = np.array(a, copy=True, order="C")
        b.flags.writeable = False
        return b
    return np.ascontiguousarray(a)


def scribble(out):
    """Overwrite a RETURNED array in place, as a caller who owns its result may do (g *= -1, mask[...] = 0).
    A later call of the same function with the same arguments must not be affected (no result may alias an
    internal cache). Returns the number of arrays overwritten; read-only results are left alone."""
    n = 0
    if isinstance(out, (tuple, list)):
        for o in out:
            n += scribble(o)
        return n
    if isinstance(out, np.ndarray) and out.size and out.flags.writeable:
        try:
            if out.dtype.kind in "fc":
                out[...] = np.nan
            elif out.dtype.kind == "b":
                out[...] = ~out
            else:
                out[...] = np.iinfo(out.dtype).max if out.dtype.kind in "iu" else out
            n += 1
        except Exception:
            pass
    return n
