"""Coverage-guided stage (atheris / libFuzzer) for properties whose risk sits in pure-Python index
arithmetic (C03, C08, C09).  The SAME Hypothesis test that the property tier runs is driven through
`test.hypothesis.fuzz_one_input`, so the semantic oracle sits inside the fuzz target; coverage is
collected on the sigpy modules named by the check module's FUZZ['include'].

Invoked by the runner (thorough tier) as a fresh process per shard:
    vcheck.py --prop Cnn --fuzz <part> --runs N --worker k --out stats.json
libFuzzer never returns from Fuzz(), and atexit handlers do not run: statistics are flushed from the
target itself and findings are written to disk before the exception is raised.
"""
import json
import os
import sys
import time


def fuzz_main(args):
    from vlib import runner
    import atheris
    # numba cannot compile instrumented bytecode, so modules are imported normally and only their plain-Python
    # functions and methods (shape/index arithmetic, not the jitted kernels) are instrumented afterwards.
    import inspect
    import importlib
    import sigpy  # noqa: F401

    def instrument_module(m):
        n = 0
        for name, obj in list(vars(m).items()):
            if inspect.isfunction(obj) and obj.__module__ == m.__name__:
                setattr(m, name, atheris.instrument_func(obj))
                n += 1
            elif inspect.isclass(obj) and obj.__module__ == m.__name__:
                for mname, meth in list(vars(obj).items()):
                    if inspect.isfunction(meth):
                        setattr(obj, mname, atheris.instrument_func(meth))
                        n += 1
        return n
    ninst = sum(instrument_module(importlib.import_module(nm)) for nm in ("sigpy.util", "sigpy.linop", "sigpy.conv", "sigpy.block"))
    mod = runner.load_module(args.prop)
    part = [p for p in mod.PARTS if p.name == args.fuzz][0]
    known = runner.load_known(args.prop)
    prelude = "real-first"
    runner.apply_prelude(prelude)
    col = runner.Collector(args.prop, part, known, set())
    import hypothesis
    from hypothesis import given
    state = {"n": 0, "t0": time.time(), "found": []}

    def flush():
        with open(args.out, "w") as fh:
            fh.write(runner.canon({"worker": args.worker, "prelude": prelude, "reports": [{
                "part": part.name + "(atheris)", "evaluations": col.evaluations, "sigs": sorted(col.nontrivial_sigs),
                "labels": col.labels, "samples": col.samples, "found": state["found"], "known_hits": col.known_hits,
                "errors": [], "instrumented_functions": ninst, "wall_s": round(time.time() - state["t0"], 2)}]}))

    def body(case):
        case = dict(case)
        case["part"] = part.name
        case["prelude"] = prelude
        r = runner.run_check(part, case)
        new = col.record(case, r)
        state["n"] += 1
        if new:
            key = new[0]["key"]
            if key not in col.ignore:
                col.ignore.add(key)
                state["found"].append({"key": key, "findings": new, "case": json.loads(runner.canon(case))})
                flush()
        if state["n"] % 500 == 0:
            flush()

    st = runner._settings(10 ** 9, False)
    test = hypothesis.seed(runner.derive_seed(args.seed, args.prop, part.name, "fuzz", args.worker))(st(given(part.strategy())(body)))
    corpus = os.path.join(os.path.dirname(args.out), "corpus-%s-%d" % (part.name, args.worker))
    os.makedirs(corpus, exist_ok=True)
    flush()
    argv = [sys.argv[0], "-runs=%d" % args.runs, "-seed=%d" % (1 + runner.derive_seed(args.seed, args.prop, "lf", args.worker) % (2 ** 31 - 2)),
            "-max_len=4096", "-print_final_stats=0", "-verbosity=0", corpus]
    atheris.Setup(argv, test.hypothesis.fuzz_one_input)
    flush()
    try:
        atheris.Fuzz()
    finally:
        flush()
