"""Runner shared by every property check.

One entry point (``vcheck.py``) -> ``main()``:

  parent:  re-exec with a pinned environment, run committed regressions in a
           fresh process, fork N shard workers (fresh processes), merge their
           reports, match findings against known_findings.json, write
           evidence/<id>.json, print VIOLATION / KNOWN-FINDING lines, exit 0/1/2.
  worker:  runs the property's Hypothesis parts (``@given`` or state machines)
           with a seed derived from (VERIF_SEED, property, part, shard); every
           distinct root-cause key found is shrunk by Hypothesis and saved as a
           plain JSON replay that ``--replay`` re-runs without Hypothesis.

A check module (``checks/cNN_*.py``) exposes

  PROPERTY = "C09"
  RULE     = "how cases are generated and what makes one non-trivial"
  ASSUMPTIONS = [...]
  PARTS    = [Part(...), ...]

see ``Part`` below.  ``check(case) -> R`` must be a deterministic function of the
JSON-serialisable ``case`` alone.
"""
import argparse
import glob
import hashlib
import importlib.util
import json
import os
import re
import signal
import subprocess
import sys
import time
import traceback

HERE = os.path.dirname(os.path.dirname(os.path.abspath(__file__)))
OUT = os.path.join(HERE, "out")
EVID = os.path.join(HERE, "evidence")
PINNED_ENV = {
    "PYTHONHASHSEED": "0",
    "OMP_NUM_THREADS": "1",
    "OPENBLAS_NUM_THREADS": "1",
    "MKL_NUM_THREADS": "1",
    "NUMBA_NUM_THREADS": "1",
    "NUMBA_THREADING_LAYER": "workqueue",
    "PYTHONDONTWRITEBYTECODE": "1",
}
CASE_WATCHDOG_S = 600


# --------------------------------------------------------------------------
# result object handed to / returned by check functions


NUMBA_TRANSIENT = ("can't unbox array from PyObject into native value",)


class R:
    """Outcome of one case: findings, class labels, non-triviality, signature."""

    def __init__(self):
        self.findings = []
        self.labels = []
        self.nontrivial = False
        self.sig = None
        self.notes = {}

    def fail(self, key, msg):
        msg = str(msg)[:2000]
        c, depth = sys.exc_info()[1], 0
        while c is not None and depth < 8:   # Linop.apply re-raises as RuntimeError: the original error is in the chain
            for pat in NUMBA_TRANSIENT:
                if pat in str(c) and pat not in msg:
                    msg += " [cause: %s]" % pat
            c, depth = (c.__cause__ or c.__context__), depth + 1
        self.findings.append({"key": str(key), "msg": msg})

    def label(self, *names):
        for n in names:
            if n not in self.labels:
                self.labels.append(str(n))

    def check(self, cond, key, msg=""):
        if not cond:
            self.fail(key, msg)
        return bool(cond)

    def twice(self, key, fn):
        """fn() for a call of the code under test.  The first call made under each key in a case is repeated after the
        arrays it returned were overwritten in place (the caller owns its results: ``g *= -1``, ``mask[...] = 0``): the
        second result must equal the first, i.e. no result may alias an internal cache or depend on what the previous
        call left behind.  Returns a private copy of the first result."""
        import copy
        import numpy as np
        from vlib import arrays as A
        seen = self.__dict__.setdefault("_twice_seen", set())
        first = fn()
        if key in seen or not _is_plain_result(first):
            return first
        seen.add(key)
        # a result that is (a view of) one of the call's own arguments - Identity, an equal-shape resize, a flip - belongs
        # to the caller already: overwriting it would be the harness corrupting its own input
        if _aliases_closure(first, fn):
            return first
        keep = copy.deepcopy(first)
        if A.scribble(first):
            again = fn()
            if not _same_result(again, keep):
                self.fail(str(key) + ":depends-on-history",
                          "a second call with the same arguments, made after the first result had been overwritten in place "
                          "by its owner, returned a different result")
        return keep


def _arrays_in(x, depth=2):
    import numpy as np
    if isinstance(x, np.ndarray):
        return [x]
    out = []
    if depth > 0:
        if isinstance(x, (tuple, list)):
            for e in x:
                out += _arrays_in(e, depth - 1)
        elif isinstance(x, dict):
            for e in x.values():
                out += _arrays_in(e, depth - 1)
    return out


def _aliases_closure(result, fn):
    import numpy as np
    res = _arrays_in(result)
    args = []
    for cell in (getattr(fn, "__closure__", None) or ()):
        try:
            args += _arrays_in(cell.cell_contents)
        except ValueError:
            pass
    for d in (getattr(fn, "__defaults__", None) or ()):
        args += _arrays_in(d)
    return any(np.may_share_memory(a, b) for a in res for b in args)


def _is_plain_result(x):
    import numpy as np
    if isinstance(x, np.ndarray):
        return True
    if isinstance(x, (tuple, list)):
        return len(x) > 0 and all(_is_plain_result(e) or isinstance(e, (int, float, complex, np.number)) for e in x)
    return False


def _same_result(a, b):
    import numpy as np
    if isinstance(a, (tuple, list)) or isinstance(b, (tuple, list)):
        return (isinstance(a, (tuple, list)) and isinstance(b, (tuple, list)) and len(a) == len(b)
                and all(_same_result(x, y) for x, y in zip(a, b)))
    if isinstance(a, np.ndarray) or isinstance(b, np.ndarray):
        a, b = np.asarray(a), np.asarray(b)
        return a.shape == b.shape and a.dtype == b.dtype and bool(np.array_equal(a, b, equal_nan=True))
    return a == b


class Part:
    """One generated family of a property.

    kind='given':    strategy() -> hypothesis strategy of JSON-able dict cases;
                     check(case) -> R
    kind='stateful': machine(collector) -> RuleBasedStateMachine subclass whose
                     instances call collector.begin()/collector.finish(case, R);
                     check(case) -> R replays a recorded history.
    budget: dict tier -> number of cases (over all shards).
    shrink: dict tier -> bool (keep Hypothesis' shrink phase).
    """

    def __init__(self, name, check, budget, strategy=None, machine=None,
                 kind="given", shrink=None, steps=30, max_shards=16):
        self.name = name
        self.check = check
        self.budget = budget
        self.strategy = strategy
        self.machine = machine
        self.kind = kind
        self.shrink = shrink or {"quick": True, "thorough": True}
        self.steps = steps
        self.max_shards = max_shards


class HarnessError(Exception):
    pass


def make_sweep(name, configs, check, nslices=16):
    """A Part that ENUMERATES a finite list of configurations completely in every tier.

    `configs()` returns the list of case dicts, `check(case) -> R` is the ordinary per-case check.  The only drawn
    value is a slice index (sampled_from(range(nslices)), which Hypothesis exhausts); slice k runs every
    configuration with index % nslices == k.  Runs on one shard.  A replay re-runs the whole slice.
    """
    from hypothesis import strategies as st

    def strat():
        # each shard enumerates its own slices (VERIF_SHARD / VERIF_NSHARDS are set by the worker); together the
        # shards cover every slice exactly once
        shard = int(os.environ.get("VERIF_SHARD", "0"))
        nsh = int(os.environ.get("VERIF_NSHARDS", "1"))
        mine = [k for k in range(nslices) if k % nsh == shard] or [-1]
        return st.builds(lambda k: {"slice": k}, st.sampled_from(mine))

    def chk(case):
        r = R()
        k = case["slice"]
        n = 0
        for i, c in enumerate(configs()):
            if i % nslices != k:
                continue
            c = dict(c)
            c.setdefault("prelude", case.get("prelude"))
            rr = check(c)
            n += 1
            for f in rr.findings:
                r.fail(f["key"], "[sweep configuration %s] %s" % (canon(c)[:400], f["msg"]))
        r.notes["configs"] = n
        r.label("slice%d" % k)
        r.nontrivial = True
        r.sig = "%s-slice-%d-%d-configs" % (name, k, n)
        return r

    return Part(name, chk, {"quick": 3 * nslices, "thorough": 3 * nslices}, strategy=strat, max_shards=nslices)


# --------------------------------------------------------------------------
# helpers


def canon(obj):
    return json.dumps(obj, sort_keys=True, separators=(",", ":"), default=_json_default)


def _json_default(o):
    import numpy as np
    if isinstance(o, np.ndarray):
        return enc_array(o)
    if isinstance(o, (np.integer,)):
        return int(o)
    if isinstance(o, (np.floating,)):
        return float(o)
    if isinstance(o, (np.bool_,)):
        return bool(o)
    if isinstance(o, complex):
        return {"re": o.real, "im": o.imag}
    if isinstance(o, (np.complexfloating,)):
        return {"re": float(o.real), "im": float(o.imag)}
    if isinstance(o, (tuple, set, frozenset)):
        return list(o)
    return repr(o)


def enc_array(a):
    import numpy as np
    a = np.asarray(a)
    if np.iscomplexobj(a):
        return {"dtype": str(a.dtype), "shape": list(a.shape),
                "re": a.real.ravel().tolist(), "im": a.imag.ravel().tolist()}
    return {"dtype": str(a.dtype), "shape": list(a.shape), "re": a.ravel().tolist()}


def sha(s, n=12):
    return hashlib.sha256(s.encode()).hexdigest()[:n]


def derive_seed(*parts):
    return int(hashlib.sha256(":".join(str(p) for p in parts).encode()).hexdigest()[:15], 16)


def repo_dir():
    return os.environ.get("VERIF_REPO", "/repo")


def load_module(prop):
    pats = glob.glob(os.path.join(HERE, "checks", prop.lower() + "_*.py"))
    if len(pats) != 1:
        raise HarnessError("no unique check module for %s: %r" % (prop, pats))
    spec = importlib.util.spec_from_file_location("check_" + prop.lower(), pats[0])
    mod = importlib.util.module_from_spec(spec)
    sys.modules[spec.name] = mod
    spec.loader.exec_module(mod)
    return mod


def repo_hash():
    h = hashlib.sha256()
    root = os.path.join(repo_dir(), "sigpy")
    for dp, dn, fn in sorted(os.walk(root)):
        dn.sort()
        for f in sorted(fn):
            if f.endswith(".py"):
                p = os.path.join(dp, f)
                h.update(p.encode())
                with open(p, "rb") as fh:
                    h.update(fh.read())
    return h.hexdigest()[:16]


def pinned_environ():
    env = dict(os.environ)
    env.update(PINNED_ENV)
    deps = os.path.join(HERE, ".deps")
    pp = [repo_dir(), HERE, deps] + [p for p in env.get("PYTHONPATH", "").split(":") if p]
    env["PYTHONPATH"] = ":".join(pp)
    env["NUMBA_CACHE_DIR"] = os.path.join(HERE, ".cache", "numba", repo_hash())
    env["VERIF_CHILD"] = "1"
    for k in ("SIGPY_VERIF",):
        env.setdefault(k, "1")
    return env


def apply_prelude(prelude):
    """Owns the process-level history of sigpy's dynamic numba ufuncs (DESIGN 2.2)."""
    import numpy as np
    import sigpy as sp
    if prelude == "complex-first":
        sp.thresh.soft_thresh(0.5, np.array([1 + 1j, 0.25j]))
        sp.thresh.hard_thresh(0.5, np.array([1 + 1j, 0.25j]))
    elif prelude == "real-first":
        sp.thresh.soft_thresh(0.5, np.array([1.0, 0.25]))
        sp.thresh.hard_thresh(0.5, np.array([1.0, 0.25]))


def _watchdog(signum, frame):
    raise HarnessError("watchdog: a single case exceeded %d s" % CASE_WATCHDOG_S)


def run_check(part, case):
    """Call part.check under the watchdog; exceptions of the harness itself propagate."""
    signal.signal(signal.SIGALRM, _watchdog)
    signal.alarm(CASE_WATCHDOG_S)
    try:
        r = part.check(case)
    finally:
        signal.alarm(0)
    if r.sig is None:
        r.sig = sha(canon(case), 16)
    return r


# --------------------------------------------------------------------------
# known findings


def load_known(prop):
    p = os.path.join(HERE, "known_findings.json")
    if not os.path.exists(p):
        return []
    with open(p) as fh:
        data = json.load(fh)
    return [e for e in data.get("findings", []) if e.get("property") == prop]


def known_match(known, finding, case):
    """An *open* entry matches a finding by exact key and, optionally, by a
    conjunction of case-field equalities (``where``: {"a.b": value})."""
    import re
    for e in known:
        if e.get("status") != "open":
            continue
        if not re.fullmatch(e["key"], finding["key"]):
            continue
        ok = True
        for path, want in (e.get("where") or {}).items():
            cur = case
            for tok in path.split("."):
                if isinstance(cur, dict) and tok in cur:
                    cur = cur[tok]
                else:
                    cur = None
                    break
            if cur != want:
                ok = False
                break
        if ok:
            return e
    return None


# --------------------------------------------------------------------------
# worker


class Collector:
    def __init__(self, prop, part, known, ignore_keys):
        self.prop = prop
        self.part = part
        self.known = known
        self.ignore = set(ignore_keys)
        self.evaluations = 0
        self.nontrivial_sigs = set()
        self.labels = {}
        self.samples = []
        self.known_hits = {}
        self.last_failing = None
        self.notes = {}

    def record(self, case, r):
        """Account for one executed case; return the list of *new* findings."""
        self.evaluations += 1
        if r.nontrivial:
            self.nontrivial_sigs.add(r.sig)
        for lb in r.labels:
            self.labels[lb] = self.labels.get(lb, 0) + 1
        if r.nontrivial and len(self.samples) < 3 and not r.findings:
            s = canon(case)
            if len(s) < 6000:
                self.samples.append(json.loads(s))
        new = []
        for f in r.findings:
            e = known_match(self.known, f, case)
            if e is not None:
                k = e["id"]
                self.known_hits[k] = self.known_hits.get(k, 0) + 1
                continue
            if f["key"] in self.ignore:
                continue
            new.append(f)
        if new:
            self.last_failing = (json.loads(canon(case)), new)
        return new


class Found(Exception):
    pass


def _settings(n, shrink, steps=None):
    from hypothesis import settings, HealthCheck, Phase, Verbosity
    phases = [Phase.generate, Phase.target]
    if shrink:
        phases.append(Phase.shrink)
    kw = dict(max_examples=max(1, n), database=None, deadline=None, derandomize=False,
              report_multiple_bugs=False, print_blob=False, phases=phases,
              verbosity=Verbosity.quiet,
              suppress_health_check=[HealthCheck.too_slow, HealthCheck.data_too_large,
                                     HealthCheck.large_base_example])
    if steps is not None:
        kw["stateful_step_count"] = steps
    return settings(**kw)


def run_part_shard(prop, part, tier, seed, shard, nshards, known, prelude):
    """Run one part on one shard; returns dict report."""
    import hypothesis
    from hypothesis import given
    total = part.budget[tier]
    n = total // nshards + (1 if shard < total % nshards else 0)
    rep = {"part": part.name, "evaluations": 0, "sigs": [], "labels": {}, "samples": [],
           "found": [], "known_hits": {}, "errors": []}
    if n <= 0:
        return rep
    ignore = set()
    rounds = 0
    remaining = n
    while remaining > 0 and rounds < 6:
        col = Collector(prop, part, known, ignore)
        hseed = derive_seed(seed, prop, part.name, shard, rounds)
        st = _settings(remaining, part.shrink.get(tier, True), part.steps)
        failed = None
        try:
            if part.kind == "given":
                strat = part.strategy()

                def body(case):
                    case = dict(case)
                    case["part"] = part.name
                    case["prelude"] = prelude
                    r = run_check(part, case)
                    new = col.record(case, r)
                    if new:
                        raise Found(new[0]["key"])

                test = hypothesis.seed(hseed)(st(given(strat)(body)))
                test()
            else:
                from hypothesis.stateful import run_state_machine_as_test
                col.prelude = prelude
                cls = part.machine(col)
                run_state_machine_as_test(hypothesis.seed(hseed)(cls), settings=st)
        except Found as e:
            failed = str(e)
        except HarnessError:
            raise
        except Exception as e:  # flaky / health check / harness bug: never a violation
            if type(e).__name__ in ("Flaky", "FlakyFailure", "FlakyStrategyDefinition"):
                rep["errors"].append("flaky: " + "".join(traceback.format_exception_only(type(e), e))[:1500])
            else:
                rep["errors"].append("".join(traceback.format_exception(type(e), e, e.__traceback__))[-3000:])
            failed = None
            remaining = 0
        rep["evaluations"] += col.evaluations
        rep["sigs"].extend(col.nontrivial_sigs)
        for k, v in col.labels.items():
            rep["labels"][k] = rep["labels"].get(k, 0) + v
        rep["samples"].extend(col.samples)
        for k, v in col.known_hits.items():
            rep["known_hits"][k] = rep["known_hits"].get(k, 0) + v
        if failed is None:
            break
        case, new = col.last_failing
        rep["found"].append({"key": new[0]["key"], "findings": new, "case": case})
        ignore.add(new[0]["key"])
        remaining -= col.evaluations
        rounds += 1
    return rep


def worker_main(args):
    mod = load_module(args.prop)
    known = load_known(args.prop)
    prelude = "complex-first" if derive_seed(args.seed, args.prop, "prelude", args.worker) % 2 else "real-first"
    apply_prelude(prelude)
    reports = []
    t0 = time.time()
    for part in mod.PARTS:
        if args.part and part.name not in args.part.split(","):
            continue
        nsh = min(args.nshards, part.max_shards)
        if args.worker >= nsh:
            continue
        os.environ["VERIF_SHARD"] = str(args.worker)
        os.environ["VERIF_NSHARDS"] = str(nsh)
        t1 = time.time()
        reports.append(run_part_shard(args.prop, part, args.tier, args.seed, args.worker, nsh, known, prelude))
        reports[-1]["wall_s"] = round(time.time() - t1, 2)
    with open(args.out, "w") as fh:
        fh.write(canon({"worker": args.worker, "prelude": prelude, "reports": reports}))
    return 0


def replay_main(args):
    """Re-run saved cases without Hypothesis (fresh process). Prints findings."""
    mod = load_module(args.prop)
    known = load_known(args.prop)
    parts = {p.name: p for p in mod.PARTS}
    bad = 0
    results = []
    for path in args.replay:
        with open(path) as fh:
            doc = json.load(fh)
        case = doc["case"] if "case" in doc and "part" not in doc else doc
        if os.environ.get("VERIF_PRELUDE_APPLIED") != "1":
            apply_prelude(case.get("prelude"))
            os.environ["VERIF_PRELUDE_APPLIED"] = "1"
        part = parts[case["part"]]
        r = run_check(part, case)
        new = [f for f in r.findings if known_match(known, f, case) is None]
        kids = [known_match(known, f, case)["id"] for f in r.findings if known_match(known, f, case) is not None]
        results.append({"path": path, "findings": r.findings, "new": new, "known_ids": kids})
        for f in r.findings:
            print("  finding %s: %s" % (f["key"], f["msg"][:300]))
        if new:
            bad += 1
    if args.out:
        with open(args.out, "w") as fh:
            fh.write(canon(results))
    else:
        for res in results:
            if res["new"]:
                print("VIOLATION property=%s replay=%s" % (args.prop, os.path.abspath(res["path"])))
            else:
                print("replay ok: %s" % res["path"])
    return 1 if bad else 0


# --------------------------------------------------------------------------
# parent


def parent_main(args):
    t0 = time.time()
    os.makedirs(OUT, exist_ok=True)
    os.makedirs(EVID, exist_ok=True)
    env = pinned_environ()
    prop = args.prop
    mod = load_module(prop)
    known = load_known(prop)
    tier = args.tier
    seed = args.seed
    nshards = args.shards
    scratch = os.path.join(OUT, "tmp-%s-%d" % (prop, os.getpid()))
    os.makedirs(scratch, exist_ok=True)
    me = os.path.join(HERE, "vcheck.py")
    harness_errors = []
    violations = []  # (key, replay path, msg)
    known_hits = {}

    # 1. committed regressions: one fresh process per recorded prelude (DESIGN 2.2)
    regs = sorted(glob.glob(os.path.join(HERE, "regressions", prop, "*.json")))
    reg_run = 0
    if regs and not args.part:
        groups = {}
        for path in regs:
            try:
                doc = json.load(open(path))
                pre = (doc.get("case") or doc).get("prelude")
            except Exception as e:
                harness_errors.append("regression %s unreadable: %s" % (path, e))
                continue
            groups.setdefault(pre, []).append(path)
        for i, (pre, paths) in enumerate(sorted(groups.items(), key=lambda kv: str(kv[0]))):
            outp = os.path.join(scratch, "reg%d.json" % i)
            p = subprocess.run([sys.executable, me, "--prop", prop, "--out", outp, "--replay"] + paths,
                               env=env, capture_output=True, text=True, timeout=7200)
            if p.returncode not in (0, 1) or not os.path.exists(outp):
                harness_errors.append("regressions %s: rc=%s %s" % (paths, p.returncode, p.stderr[-1500:]))
                continue
            for res in json.load(open(outp)):
                reg_run += 1
                for f in res["new"]:
                    violations.append((f["key"], res["path"], f["msg"]))
                for kid in res.get("known_ids", []):
                    known_hits[kid] = known_hits.get(kid, 0) + 1

    # 2. shards
    procs = []
    for k in range(nshards):
        outp = os.path.join(scratch, "w%d.json" % k)
        cmd = [sys.executable, me, "--prop", prop, "--tier", tier, "--seed", str(seed),
               "--worker", str(k), "--nshards", str(nshards), "--out", outp]
        if args.part:
            cmd += ["--part", args.part]
        logf = open(os.path.join(scratch, "w%d.log" % k), "w")
        procs.append((k, outp, subprocess.Popen(cmd, env=env, stdout=logf, stderr=subprocess.STDOUT), logf))
    fuzz = getattr(mod, "FUZZ", None)
    if fuzz and tier == "thorough" and not args.part:
        for pname in fuzz["parts"]:
            for k in range(nshards):
                outp = os.path.join(scratch, "f-%s-%d.json" % (pname, k))
                cmd = [sys.executable, me, "--prop", prop, "--tier", tier, "--seed", str(seed), "--fuzz", pname,
                       "--runs", str(max(1, fuzz["runs"] // nshards)), "--worker", str(k), "--out", outp]
                logf = open(os.path.join(scratch, "f-%s-%d.log" % (pname, k)), "w")
                procs.append((1000 + k, outp, subprocess.Popen(cmd, env=env, stdout=logf, stderr=subprocess.STDOUT), logf))
    evaluations = 0
    shard_wall = {}
    sigs = set()
    labels = {}
    samples = []
    per_part = {}
    found = {}
    for k, outp, p, logf in procs:
        rc = p.wait()
        logf.close()
        if (rc != 0 and k < 1000) or not os.path.exists(outp):
            tail = open(logf.name).read()[-2000:]
            harness_errors.append("worker %d rc=%s: %s" % (k, rc, tail))
            continue
        doc = json.load(open(outp))
        for rep in doc["reports"]:
            shard_wall.setdefault(rep["part"], []).append(rep.get("wall_s", 0))
            evaluations += rep["evaluations"]
            pp = per_part.setdefault(rep["part"], {"evaluations": 0, "nontrivial": set()})
            pp["evaluations"] += rep["evaluations"]
            for s in rep["sigs"]:
                sigs.add(rep["part"] + ":" + s)
                pp["nontrivial"].add(s)
            for lb, v in rep["labels"].items():
                labels[rep["part"] + "/" + lb] = labels.get(rep["part"] + "/" + lb, 0) + v
            if len([s for s in samples if s.get("part") == rep["part"]]) < 2:
                samples.extend(rep["samples"][:1])
            for kk, v in rep["known_hits"].items():
                known_hits[kk] = known_hits.get(kk, 0) + v
            for e in rep["errors"]:
                harness_errors.append("part %s shard %d: %s" % (rep["part"], k, e))
            for f in rep["found"]:
                cur = found.get(f["key"])
                size = len(canon(f["case"]))
                if cur is None or size < cur[0]:
                    found[f["key"]] = (size, f)
    for key, (size, f) in sorted(found.items()):
        path = os.path.join(OUT, "%s-%s.json" % (prop, sha(key + canon(f["case"]))))
        with open(path, "w") as fh:
            json.dump({"property": prop, "key": key, "findings": f["findings"], "case": f["case"]},
                      fh, indent=1, sort_keys=True)
        msg0 = f["findings"][0]["msg"]
        if any(pat in m["msg"] for m in f["findings"] for pat in NUMBA_TRANSIENT):
            # an internal numba dispatch error seen once when 16 shards compiled and cached the same kernels at the same time:
            # such a finding counts only if its replay reproduces it in a fresh process
            rp = subprocess.run([sys.executable, me, "--prop", prop, "--replay", path], env=env, capture_output=True, text=True)
            if rp.returncode == 0:
                print("note: finding %s did not reproduce in a fresh process (numba dispatch transient); dropped" % key)
                os.remove(path)
                continue
        violations.append((key, path, msg0))

    # 3. report
    for e in known:
        if e.get("status") == "open":
            hits = known_hits.get(e["id"], 0)
            print("KNOWN-FINDING: property=%s %s [%s; matched %d generated cases this run]"
                  % (prop, e["what"], e["id"], hits))
    for key, path, msg in violations:
        print("  violated sub-claim %s: %s" % (key, msg[:400]))
        print("VIOLATION property=%s replay=%s" % (prop, path))
    wall = time.time() - t0
    cov = {
        "evaluations": evaluations,
        "distinct_nontrivial": len(sigs),
        "rule": mod.RULE,
        "samples": samples[:8],
        "labels": dict(sorted(labels.items())),
        "parts": {k: {"evaluations": v["evaluations"], "distinct_nontrivial": len(v["nontrivial"])}
                  for k, v in per_part.items()},
        "shards": nshards,
        "shard_wall_s": {k: {"min": min(v), "max": max(v)} for k, v in shard_wall.items()},
        "regressions_replayed": reg_run,
        "known_finding_hits": known_hits,
        "exhaustive": False,
    }
    if hasattr(mod, "extra_coverage"):
        cov.update(mod.extra_coverage(tier))
    evidence = {
        "property_id": prop, "tier": tier, "seed": int(seed), "level": "exploration",
        "coverage": cov, "assumptions": list(getattr(mod, "ASSUMPTIONS", [])),
        "wall_s": round(wall, 2), "violations": len(violations),
        "repo_tree_hash": repo_hash(), "harness_errors": harness_errors[:5],
    }
    evpath = os.path.join(EVID, prop + ".json")
    if not args.part and os.environ.get("VERIF_NO_EVIDENCE") != "1":
        try:
            import jsonschema
            schema = json.load(open("/root/.vp/EVIDENCE.schema.json")) if os.path.exists(
                "/root/.vp/EVIDENCE.schema.json") else json.load(open(os.path.join(HERE, "vlib", "EVIDENCE.schema.json")))
            jsonschema.validate(evidence, schema)
        except ImportError:
            pass
        except Exception as e:
            if not harness_errors:
                harness_errors.append("evidence does not validate: %s" % str(e)[:500])
        with open(evpath, "w") as fh:
            json.dump(evidence, fh, indent=1, sort_keys=True)
    if os.environ.get("VERIF_LABELS"):
        for lb, v in sorted(labels.items()):
            print("  label %-60s %d" % (lb, v))
    print("%s %s seed=%s: %d cases, %d distinct non-trivial, %d violation(s), %.1fs"
          % (prop, tier, seed, evaluations, len(sigs), len(violations), wall))
    if not args.keep:
        import shutil
        shutil.rmtree(scratch, ignore_errors=True)
    if violations:
        return 1
    if harness_errors:
        seen = set()
        for e in harness_errors:
            k = re.sub(r"(worker|shard) \d+", "", e)
            if k in seen or len(seen) >= 4:
                continue
            seen.add(k)
            print("HARNESS-ERROR: " + e[-1500:], file=sys.stderr)
        print("HARNESS-ERROR: %d harness error(s) in total" % len(harness_errors), file=sys.stderr)
        return 2
    return 0


def main(argv=None):
    ap = argparse.ArgumentParser()
    ap.add_argument("--prop", required=True)
    ap.add_argument("--tier", default=os.environ.get("VERIF_TIER", "quick"), choices=["quick", "thorough"])
    ap.add_argument("--seed", type=int, default=int(os.environ.get("VERIF_SEED", "1")))
    ap.add_argument("--shards", type=int, default=int(os.environ.get("VERIF_SHARDS", "16")))
    ap.add_argument("--replay", nargs="+")
    ap.add_argument("--worker", type=int)
    ap.add_argument("--nshards", type=int, default=16)
    ap.add_argument("--part")
    ap.add_argument("--out")
    ap.add_argument("--keep", action="store_true")
    ap.add_argument("--fuzz")
    ap.add_argument("--runs", type=int, default=20000)
    args = ap.parse_args(argv)
    args.prop = args.prop.upper()
    if os.environ.get("VERIF_CHILD") != "1":
        env = pinned_environ()
        os.execve(sys.executable, [sys.executable, os.path.join(HERE, "vcheck.py")] + (argv or sys.argv[1:]), env)
    try:
        if args.replay:
            return replay_main(args)
        if args.fuzz:
            from vlib.fuzz import fuzz_main
            return fuzz_main(args)
        if args.worker is not None:
            return worker_main(args)
        return parent_main(args)
    except HarnessError as e:
        print("HARNESS-ERROR: %s" % e, file=sys.stderr)
        return 2
    except Exception:
        traceback.print_exc()
        return 2
